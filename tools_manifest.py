#!/usr/bin/env python3
"""Regenerate MANIFEST.json from vlib/props/*.py metadata (MANIFEST dict in each module) - keeps it valid."""
import importlib, json, os, re, sys
ROOT = os.path.dirname(os.path.abspath(__file__))
sys.path.insert(0, ROOT)
props = [json.loads(l) for l in open(os.path.join(ROOT, 'properties.jsonl'))]
checks, na = [], []
ready = set(open(os.path.join(ROOT, 'vlib', 'props', 'READY')).read().split())
for p in props:
    pid = p['id']
    path = os.path.join(ROOT, 'vlib', 'props', pid.lower() + '.py')
    meta = None
    if os.path.exists(path) and pid in ready:
        src = open(path).read()
        m = re.search(r'^MANIFEST\s*=\s*(\{.*?^\})', src, re.S | re.M)
        if m:
            meta = eval(m.group(1))
    if not meta or meta.get('claimed') is False:
        na.append({'property_id': pid, 'reason': (meta or {}).get('reason', 'check not built yet (runtime monitor planned in DESIGN.md section 3)')})
        continue
    checks.append({
        'property_id': pid,
        'quick_cmd': f'./check {pid} --tier quick',
        'thorough_cmd': f'./check {pid} --tier thorough',
        'evidence_file': f'/verif/evidence/{pid}.json',
        'replay_cmd_template': f'./check {pid} --replay {{path}}',
        'engine': meta.get('engine', 'vlib'),
        'level_claimed': {'category': meta['level'], 'text': meta['text'], 'design_ref': f'DESIGN.md section 3 {pid}'},
        'level_note': meta['note'],
        'technique': meta['technique'],
    })
man = {
    'version': 1,
    'setup_cmd': '/venv/bin/pip install -q --no-index --find-links /opt/veriftools/wheels --target /verif/.deps icontract',
    'hooks': {
        'guard': 'EXABGP_VERIF',
        'enable': 'none needed: all instrumentation is applied from the harness process (method wrapping, sys.monitoring, virtual clock); checks import /repo/src directly via PYTHONPATH so they always run the current working tree',
        'baseline_off_cmd': 'cd /repo && /venv/bin/python -m pytest -ra -q -p no:cacheprovider --timeout=900 --continue-on-collection-errors',
        'source_commits': [],
        'add_only': True,
    },
    'engines': [
        {'name': 'refwire', 'path': 'vlib/refwire', 'kind_free_text': 'independent RFC reference codec and sequential models (trusted base of the oracles)', 'serves_properties': ['C01','C02','C03','C06','C07','C08','C09','C10','C11','C16']},
        {'name': 'mon', 'path': 'vlib/mon.py', 'kind_free_text': 'sharded child-process runner, three-valued verdict, evidence writer, known-findings classifier', 'serves_properties': [p['id'] for p in props]},
        {'name': 'lab', 'path': 'vlib/lab.py', 'kind_free_text': 'virtual-clock asyncio loop driving the real Reactor/Peer/Protocol over loopback TCP against a scripted remote speaker', 'serves_properties': ['C04','C05','C06','C10','C11','C12','C17']},
    ],
    'checks': checks,
    'not_applicable': na,
    'notes': 'Runtime monitoring only. Every check runs the real ExaBGP code from /repo/src under generated workloads with independent oracles; verdicts are three-valued (exit 0 held / 1 violation / 2 inconclusive). Known findings are keyed by mechanism in known_findings.json.',
}
json.dump(man, open(os.path.join(ROOT, 'MANIFEST.json'), 'w'), indent=1)
print('checks', [c['property_id'] for c in checks], 'n/a', len(na))
