"""reach - sys.monitoring sensors: step counter (PY_START events, a deterministic time proxy), stack depth
high-water mark, hard step budget (raises inside the monitored code), and entry counters for anchored functions.
"""

from __future__ import annotations

import sys

TOOL = 3  # sys.monitoring tool id (0-5 free for tools; 2=profiler by convention, we take 3)


class BudgetExceeded(BaseException):
    """raised from the monitoring callback when the hard step budget is exhausted (BaseException: must not be swallowed)"""


class Steps:
    def __init__(self, prefix: str = '', budget: int = 0) -> None:
        self.steps = 0
        self.depth = 0
        self.max_depth = 0
        self.budget = budget
        self.prefix = prefix
        self.active = False
        self.entered: dict[str, int] = {}
        self.watch: set[str] = set()

    def _start(self, code, offset):
        self.steps += 1
        self.depth += 1
        if self.depth > self.max_depth:
            self.max_depth = self.depth
        if self.watch and code.co_qualname in self.watch:
            self.entered[code.co_qualname] = self.entered.get(code.co_qualname, 0) + 1
        if self.budget and self.steps > self.budget:
            self.budget = 0
            raise BudgetExceeded(f'more than {self.steps} function entries')

    def _resume(self, code, offset):
        self.depth += 1

    def _leave(self, code, offset, retval):
        self.depth -= 1

    def _unwind(self, code, offset, exc):
        self.depth -= 1

    def install(self) -> None:
        m = sys.monitoring
        try:
            m.use_tool_id(TOOL, 'verif-steps')
        except ValueError:
            pass
        E = m.events
        m.register_callback(TOOL, E.PY_START, self._start)
        m.register_callback(TOOL, E.PY_RESUME, self._resume)
        m.register_callback(TOOL, E.PY_RETURN, self._leave)
        m.register_callback(TOOL, E.PY_YIELD, self._leave)
        m.register_callback(TOOL, E.PY_UNWIND, self._unwind)

    def __enter__(self):
        self.steps = 0
        self.depth = 0
        self.max_depth = 0
        E = sys.monitoring.events
        sys.monitoring.set_events(TOOL, E.PY_START | E.PY_RESUME | E.PY_RETURN | E.PY_YIELD | E.PY_UNWIND)
        return self

    def __exit__(self, *a):
        sys.monitoring.set_events(TOOL, 0)
        return False
