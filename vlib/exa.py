"""exa - thin helpers to drive the REAL exabgp code the way production does.

Nothing here re-implements ExaBGP behaviour; it only builds objects through the production
constructors (Configuration text parser, Capabilities().new, Open.make_open, Message.unpack,
Negotiated.sent/received with Direction.IN as Protocol does).
"""

from __future__ import annotations

import os

os.environ.setdefault('exabgp_log_enable', 'false')

_quiet = False


def quiet() -> None:
    global _quiet
    if _quiet:
        return
    from exabgp.environment import getenv
    from exabgp.logger import log

    getenv()
    log.silence()
    production_defaults()
    _quiet = True


def production_defaults() -> None:
    """what application/server.py does at start-up and a harness which imports the modules directly would miss:
    Attribute.caching = env.cache.attributes (true by default: the decoders run with their caches ON in the daemon)"""
    from exabgp.bgp.message.update.attribute import Attribute
    from exabgp.environment import getenv

    Attribute.caching = bool(getenv().cache.attributes)


def loud() -> None:
    """every log call of every level and source evaluates its lazy message, as the real logger does at debug level with
    every source enabled (exabgp.logger.log.logger: msg_str = message(), no exception handler around it); the text is dropped"""
    global _quiet
    import types

    from exabgp.environment import getenv
    from exabgp.logger import log, option

    getenv()
    counter = {'n': 0}

    def evaluate(logger_func, message, source, level):
        counter['n'] += 1
        text = message()
        if not isinstance(text, str):
            raise TypeError(f'log message of source {source!r} is {type(text).__name__}, not str')
        text.split('\n')

    sink = lambda *a, **k: None  # noqa: E731
    option.logger = types.SimpleNamespace(debug=sink, info=sink, warning=sink, error=sink, critical=sink, fatal=sink)
    log.logger = staticmethod(evaluate)
    log.evaluated = counter
    production_defaults()
    _quiet = True


class ConfigError(Exception):
    pass


def load_config(text: str):
    """Parse a configuration text with the real parser. -> Configuration (reload() succeeded)"""
    quiet()
    from exabgp.configuration.configuration import Configuration
    from exabgp.rib import RIB

    # every load_config stands for a fresh process: the Adj-RIB cache is keyed by neighbor name and
    # would otherwise hand the routes of the previous configuration to this one
    RIB._cache.clear()
    conf = Configuration([text], text=True)
    ok = conf.reload()
    if ok is not True:
        raise ConfigError(str(conf.error))
    return conf


def our_open(neighbor, restarted: bool = False):
    """The OPEN production would send for this neighbor (Protocol.new_open)."""
    from exabgp.bgp.message import Open
    from exabgp.bgp.message.open import Version
    from exabgp.bgp.message.open.capability import Capabilities

    return Open.make_open(
        Version(4),
        neighbor.session.local_as,
        neighbor.hold_time,
        neighbor.session.router_id,
        Capabilities().new(neighbor, restarted),
    )


def negotiate(neighbor, peer_open_body: bytes, validate: bool = True):
    """Build Negotiated the way Peer._establish does. -> (negotiated, sent_open, our_open_bytes)

    Raises Notify for a refused peer OPEN (from Message.unpack or Negotiated.validate).
    """
    from exabgp.bgp.message import Message, Notify
    from exabgp.bgp.message.direction import Direction
    from exabgp.bgp.message.open.capability import Negotiated

    neg = Negotiated.make_negotiated(neighbor, Direction.IN)
    sent = our_open(neighbor)
    raw = sent.pack_message(neg)
    neg.sent(sent)
    received = Message.unpack(Message.CODE.OPEN, peer_open_body, neg)
    neg.received(received)
    if validate:
        err = neg.validate(neighbor)
        if err is not None:
            raise Notify(*err)
    return neg, sent, raw


NEIGHBOR_TMPL = """
neighbor {peer} {{
    router-id {rid};
    local-address {local};
    local-as {las};
    peer-as {pas};
    hold-time {hold};
{extra}
    family {{
{families}
    }}
{capability}
{addpath}
{nexthop}
{body}
}}
"""

FAM_TEXT = {
    (1, 1): 'ipv4 unicast',
    (1, 2): 'ipv4 multicast',
    (1, 4): 'ipv4 nlri-mpls',
    (1, 128): 'ipv4 mpls-vpn',
    (1, 133): 'ipv4 flow',
    (1, 134): 'ipv4 flow-vpn',
    (2, 1): 'ipv6 unicast',
    (2, 2): 'ipv6 multicast',
    (2, 4): 'ipv6 nlri-mpls',
    (2, 128): 'ipv6 mpls-vpn',
    (2, 133): 'ipv6 flow',
    (2, 134): 'ipv6 flow-vpn',
    (25, 65): 'l2vpn vpls',
}


def neighbor_text(
    peer='127.0.0.2',
    local='127.0.0.1',
    rid='10.0.0.1',
    las=65000,
    pas=65001,
    hold=180,
    families=((1, 1),),
    asn4=True,
    addpath=0,  # 0 none,1 receive,2 send,3 both
    addpath_families=None,
    nexthop=(),  # [(afi,safi,nhafi)]
    extmsg=True,
    refresh=True,
    graceful=None,
    body='',
    extra='',
    operational=False,
    multisession=False,
) -> str:
    cap = ['    capability {']
    cap.append(f'        asn4 {"enable" if asn4 else "disable"};')
    cap.append(f'        route-refresh {"enable" if refresh else "disable"};')
    cap.append(f'        extended-message {"enable" if extmsg else "disable"};')
    cap.append(f'        operational {"enable" if operational else "disable"};')
    cap.append(f'        multi-session {"enable" if multisession else "disable"};')
    cap.append(f'        nexthop {"enable" if nexthop else "disable"};')
    if graceful is not None:
        cap.append(f'        graceful-restart {graceful};')
    else:
        cap.append('        graceful-restart disable;')
    if addpath:
        cap.append('        add-path {};'.format({1: 'receive', 2: 'send', 3: 'send/receive'}[addpath]))
    cap.append('    }')
    ap = ''
    if addpath:
        fams = addpath_families if addpath_families is not None else families
        ap = '    add-path {\n' + ''.join(f'        {FAM_TEXT[tuple(f)]};\n' for f in fams) + '    }'
    nh = ''
    if nexthop:
        names = {1: 'ipv4', 2: 'ipv6'}
        nh = '    nexthop {\n' + ''.join(f'        {FAM_TEXT[(a, s)]} {names[n]};\n' for a, s, n in nexthop) + '    }'
    return NEIGHBOR_TMPL.format(
        peer=peer,
        local=local,
        rid=rid,
        las=las,
        pas=pas,
        hold=hold,
        extra=extra,
        families=''.join(f'        {FAM_TEXT[tuple(f)]};\n' for f in families),
        capability='\n'.join(cap),
        addpath=ap,
        nexthop=nh,
        body=body,
    )
