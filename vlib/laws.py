"""laws - law-style oracles for C15 and their attachment to the REAL ExaBGP classes.

The oracle of a round-trip property is the algebraic law itself, evaluated on the real objects:

    L1  decode(encode(x)) == x            (ExaBGP's own ==)
    L3  a == b  =>  hash(a) == hash(b) and index(a) == index(b)

L1 and L3 are attached as `icontract` post-conditions to the methods of the classes the
registries hold (`pack_nlri`, `pack_attribute`, `__eq__`), from the harness, so every call made
while the monitor is *armed* evaluates the law at the place it is about.  Conditions are named
functions with an explicit `error=`; nothing under /repo is edited.  A post-condition is only
evaluated when `M.armed` (the harness is exercising a case) and not re-entrantly (the law itself
calls index()/pack_nlri()/==).  Every evaluation is counted per (class label, law): a class with
zero evaluations was not exercised.

L2, L4, L5 compare values the harness holds (bytes, pairs, strings) and are explicit functions.
"""

from __future__ import annotations

import contextlib
import hashlib
import inspect
import struct

import icontract


class LawViolation(AssertionError):
    def __init__(self, key: str, what: str, witness: dict, label: str = '', law: str = '') -> None:
        AssertionError.__init__(self, what)
        self.key = key
        self.what = what
        self.witness = witness
        self.label = label
        self.law = law


class Monitor:
    def __init__(self) -> None:
        self.armed = False
        self.busy = False
        self.evals: dict[str, int] = {}  # 'label:law' -> evaluations
        self.pending: LawViolation | None = None
        self.attached: list[str] = []
        self.not_attached: list[str] = []
        self.info: dict[str, int] = {}
        self.action = None  # Action used by the L1 decoder (ANNOUNCE unless the harness says otherwise)
        self.ticks = 0
        # record-only mode (the repository's own tests run with the contracts on): a broken law is written down and the
        # post-condition answers True, so that the observed test goes on exactly as it would without the monitor
        self.record_only = False
        self.recorded: list[LawViolation] = []

    def count(self, label: str, law: str) -> None:
        k = f'{label}:{law}'
        self.evals[k] = self.evals.get(k, 0) + 1
        self.ticks += 1

    def note(self, name: str) -> None:
        self.info[name] = self.info.get(name, 0) + 1


M = Monitor()


@contextlib.contextmanager
def armed():
    prev = M.armed
    M.armed = True
    try:
        yield M
    finally:
        M.armed = prev


# ------------------------------------------------------------------------------ labels


def nlri_label(x) -> str:
    return 'nlri:%s/%s' % (x.afi, x.safi)


def nlri_sublabel(x) -> str | None:
    """sub-registry entry of a decoded NLRI (EVPN route type, MUP arch/code, MVPN code, BGP-LS nlri type)"""
    name = type(x).__module__
    code = getattr(type(x), 'CODE', None)
    if '.evpn.' in name:
        return 'nlri-sub:evpn/%s' % (code if code not in (None, -1) else 'generic')
    if '.mup.' in name:
        return 'nlri-sub:mup/%s:%s' % (getattr(type(x), 'ARCHTYPE', '?'), code)
    if '.mvpn.' in name:
        return 'nlri-sub:mvpn/%s' % (code if code not in (None, -1) else 'generic')
    if '.bgpls.' in name:
        return 'nlri-sub:bgpls/%s' % (code if code not in (None, -1) else 'generic')
    return None


def attr_label(x) -> str:
    return 'attr:%d' % int(x.ID)


def hx(b) -> str:
    return bytes(b).hex()


def sha(b) -> str:
    return hashlib.sha1(bytes(b)).hexdigest()[:12]


# ------------------------------------------------------------------------------ TLV helpers (harness side)


def split_update(body: bytes):
    """UPDATE body -> (withdrawn, attributes, nlri) byte fields; ValueError when the lengths do not fit"""
    if len(body) < 4:
        raise ValueError('short update')
    wl = struct.unpack('!H', body[:2])[0]
    if 2 + wl + 2 > len(body):
        raise ValueError('withdrawn overrun')
    al = struct.unpack('!H', body[2 + wl : 4 + wl])[0]
    if 4 + wl + al > len(body):
        raise ValueError('attributes overrun')
    return body[2 : 2 + wl], body[4 + wl : 4 + wl + al], body[4 + wl + al :]


def attr_tlvs(data: bytes):
    """path attribute field -> [(flag, code, value, raw tlv)]; ValueError on overrun"""
    out = []
    i = 0
    data = bytes(data)
    while i < len(data):
        if i + 3 > len(data):
            raise ValueError('attribute header overrun')
        flag, code = data[i], data[i + 1]
        if flag & 0x10:
            if i + 4 > len(data):
                raise ValueError('attribute header overrun')
            ln = struct.unpack('!H', data[i + 2 : i + 4])[0]
            h = 4
        else:
            ln = data[i + 2]
            h = 3
        if i + h + ln > len(data):
            raise ValueError('attribute value overrun')
        out.append((flag, code, data[i + h : i + h + ln], data[i : i + h + ln]))
        i += h + ln
    return out


def mp_reach_parts(value: bytes):
    """MP_REACH_NLRI value -> (afi, safi, nexthop bytes, nlri bytes)"""
    afi, safi, nhl = struct.unpack('!HBB', value[:4])
    nh = value[4 : 4 + nhl]
    if 4 + nhl + 1 > len(value):
        raise ValueError('mp reach overrun')
    return afi, safi, nh, value[4 + nhl + 1 :]


def mp_unreach_parts(value: bytes):
    afi, safi = struct.unpack('!HB', value[:3])
    return afi, safi, value[3:]


# ------------------------------------------------------------------------------ L1 NLRI


def has_path_info(x) -> bool | None:
    """True/False when the NLRI class carries a path identifier in its bytes, None when it does not model one"""
    from exabgp.bgp.message.update.nlri.qualifier import PathInfo

    if hasattr(type(x), 'path_info'):
        return x.path_info is not PathInfo.DISABLED
    return None


def decode_one_nlri(afi, safi, data: bytes, addpath: bool, negotiated, action=None):
    """the registry decoder; -> (nlri, consumed bytes, rest)"""
    from exabgp.bgp.message import Action
    from exabgp.bgp.message.update.nlri.nlri import NLRI

    act = action if action is not None else (M.action if M.action is not None else Action.ANNOUNCE)
    y, rest = NLRI.unpack_nlri(afi, safi, memoryview(bytes(data)), act, addpath, negotiated)  # a memoryview, as the UPDATE parser hands it over
    rest = bytes(rest)
    return y, bytes(data)[: len(data) - len(rest)], rest


def check_l1_nlri(x, negotiated, packed) -> tuple[bool, str, dict]:
    """decode(encode(x)) == x under the session. -> (ok, what, witness)"""
    from exabgp.bgp.message.update.nlri.nlri import NLRI

    afi, safi = x.afi, x.safi
    send = bool(negotiated.addpath.send(afi, safi))
    b = bytes(packed)
    wit = {'class': nlri_label(x), 'type': type(x).__name__, 'encoded': hx(b), 'addpath': send, 'object': safe_repr(x)}
    try:
        y, used, rest = decode_one_nlri(afi, safi, b, send, negotiated)
    except Exception as e:  # noqa
        return False, f'ExaBGP cannot decode what it encoded: {type(e).__name__}: {str(e)[:160]}', dict(wit, raises=type(e).__name__)
    if rest:
        return False, f'decoding what ExaBGP encoded leaves {len(rest)} bytes', dict(wit, rest=hx(rest))
    if y is NLRI.INVALID:
        return False, 'decoding what ExaBGP encoded gives NLRI.INVALID', wit
    hp = has_path_info(x)
    representable = hp is None or hp == send
    if not representable:
        # ADD-PATH is a property of the session: an object without a path identifier does not exist on an
        # ADD-PATH session (and the reverse). The law is then asked of the object the session can carry.
        M.note('L1-session-coerced-path-id')
        try:
            b2 = bytes(y.pack_nlri(negotiated))
            z, _, rest2 = decode_one_nlri(afi, safi, b2, send, negotiated)
        except Exception as e:  # noqa
            return False, f'ExaBGP cannot decode what it encoded: {type(e).__name__}: {str(e)[:160]}', dict(wit, raises=type(e).__name__)
        ok = (not rest2) and bool(z == y) and bool(y == z) and b2 == b
        return ok, 'decode(encode(y)) != y for the path-id coerced object', dict(wit, decoded=safe_repr(y), again=safe_repr(z))
    ok = bool(y == x) and bool(x == y)
    if ok and type(y) is not type(x):
        M.note('L1-equal-but-other-type')
    return ok, f'decode(encode(x)) != x: {safe_repr(x)} came back as {safe_repr(y)}', dict(wit, decoded=safe_repr(y), x_index=hx(safe_index(x)), y_index=hx(safe_index(y)))


def nlri_shape(x) -> str:
    """structural discriminator for mechanism keys: a labelled family object without a label stack / without an RD"""
    try:
        if x.safi.has_label():
            lab = getattr(x, 'labels', None)
            if lab is None or not bytes(lab.pack_labels()):
                return ':no-label'
        if x.safi.has_rd() and getattr(x, '_has_rd', True) is False:
            return ':no-rd'
        if '.bgpls.' in type(x).__module__ and getattr(x, 'route_d', None) and not x.safi.has_rd():
            # a BGP-LS object holding a route distinguisher while saying it belongs to the non-VPN family: the recorded
            # 'family and RD lost' mechanism seen from the other side
            return ':rd-held-under-non-vpn-family'
    except Exception:  # noqa
        return ''
    return ''


def safe_repr(x) -> str:
    try:
        return repr(x)[:300]
    except Exception as e:  # noqa
        return f'<repr raises {type(e).__name__}>'


def safe_index(x) -> bytes:
    try:
        return bytes(x.index())
    except Exception:  # noqa
        return b''


def law1_pack_nlri_decodes_back(self, negotiated, result) -> bool:
    from exabgp.bgp.message.open.capability.negotiated import Negotiated

    if not M.armed or M.busy or negotiated is None or negotiated is Negotiated.UNSET:
        return True
    M.busy = True
    try:
        label = nlri_label(self)
        ok, what, wit = check_l1_nlri(self, negotiated, result)
        M.count(label, 'L1')
        sub = nlri_sublabel(self)
        if sub:
            M.count(sub, 'L1')
        if not ok:
            shape = nlri_shape(self)
            key = 'C15/raises:%s%s:%s' % (label, shape, wit['raises']) if 'raises' in wit else 'C15/roundtrip-nlri:%s/%s%s' % (self.afi, self.safi, shape)
            M.pending = LawViolation(key, what, wit, label, 'L1')
        if not ok and M.record_only:
            if M.pending is not None and len(M.recorded) < 2000:
                M.recorded.append(M.pending)
            M.pending = None
            return True
        return ok
    finally:
        M.busy = False


def law_error(self) -> LawViolation:
    v, M.pending = M.pending, None
    return v if v is not None else LawViolation('C15/contract', 'post-condition failed without a witness', {'object': safe_repr(self)})


# ------------------------------------------------------------------------------ L1 attributes


def decode_attr_tlv(flag, code, value, negotiated):
    from exabgp.bgp.message.update.attribute.attribute import Attribute

    return Attribute.unpack(code, flag, memoryview(bytes(value)), negotiated)  # memoryview slices, as AttributeCollection.parse passes them


def decode_attr_collection(data: bytes, negotiated):
    """the production path for a whole attribute field (merges AS4_PATH); the one-entry cache is bypassed"""
    from exabgp.bgp.message.update.attribute.collection import AttributeCollection

    AttributeCollection.previous = b''
    AttributeCollection.cached = None
    return AttributeCollection.unpack(memoryview(bytes(data)), negotiated)


def decode_attr_any(b: bytes, code: int, negotiated):
    """attribute bytes from pack_attribute -> the decoded attribute of that code, through the production decoders:
    the registry decoder for one registered TLV, AttributeCollection.unpack for several TLVs or an unknown code"""
    from exabgp.bgp.message.update.attribute.attribute import Attribute

    tl = attr_tlvs(b)
    if len(tl) == 1 and Attribute.registered(tl[0][1], tl[0][0]):
        flag, c, value, _ = tl[0]
        return decode_attr_tlv(flag, c, value, negotiated)
    if len(tl) > 1:
        M.note('L1-attr-multi-tlv')
    col = decode_attr_collection(b, negotiated)
    if code not in col:
        raise KeyError('attribute %d is missing after decoding what ExaBGP encoded: %s' % (code, safe_repr(col)))
    return col[code]


def session_kind(negotiated) -> str:
    return 'asn4' if negotiated.asn4 else 'asn2'


def attr_key_suffix(code: int, negotiated) -> str:
    return (':' + session_kind(negotiated)) if code in (2, 7, 17, 18) else ''


def check_l1_attr(x, negotiated, packed) -> tuple[bool | None, str, dict]:
    """-> (ok | None when nothing was sent, what, witness)"""
    b = bytes(packed)
    code = int(x.ID)
    wit = {'class': attr_label(x), 'type': type(x).__name__, 'encoded': hx(b), 'session': session_kind(negotiated), 'object': safe_repr(x)}
    if not b:
        return None, 'not sent on this session', wit
    try:
        tl = attr_tlvs(b)
    except ValueError as e:
        return False, f'pack_attribute output is not a sequence of attribute TLVs: {e}', wit
    try:
        # several TLVs = AS_PATH + AS4_PATH / AGGREGATOR + AS4_AGGREGATOR towards an OLD speaker: the production
        # decoder for an attribute field is the one which reconstructs (RFC 6793 4.2.3)
        y = decode_attr_any(b, code, negotiated)
    except Exception as e:  # noqa
        return False, f'ExaBGP cannot decode the attribute it encoded: {type(e).__name__}: {str(e)[:160]}', dict(wit, raises=type(e).__name__)
    try:
        ok = bool(y == x) and bool(x == y)
    except Exception as e:  # noqa
        return False, f'== raises {type(e).__name__}: {str(e)[:120]}', dict(wit, raises=type(e).__name__)
    return ok, f'decode(encode(x)) != x for attribute {code}: {safe_repr(x)[:80]} came back as {safe_repr(y)[:80]} ({type(y).__name__})', dict(wit, decoded=safe_repr(y), decoded_type=type(y).__name__)


def law1_pack_attribute_decodes_back(self, negotiated, result) -> bool:
    from exabgp.bgp.message.open.capability.negotiated import Negotiated

    if not M.armed or M.busy or negotiated is None or negotiated is Negotiated.UNSET:
        return True
    if not hasattr(self, 'ID') or not hasattr(negotiated, 'asn4'):
        return True
    M.busy = True
    try:
        label = attr_label(self)
        ok, what, wit = check_l1_attr(self, negotiated, result)
        if ok is None:
            M.note('L1-attr-not-sent:%d' % int(self.ID))
            return True
        M.count(label, 'L1')
        if not ok:
            code = int(self.ID)
            if 'raises' in wit:
                key = 'C15/raises:%s:%s' % (label, wit['raises'])
            else:
                key = 'C15/roundtrip-attr:%d%s' % (code, attr_key_suffix(code, negotiated))
            M.pending = LawViolation(key, what, wit, label, 'L1')
        if not ok and M.record_only:
            if M.pending is not None and len(M.recorded) < 2000:
                M.recorded.append(M.pending)
            M.pending = None
            return True
        return ok
    finally:
        M.busy = False


# ------------------------------------------------------------------------------ L3


def hashable(x) -> bool:
    return getattr(type(x), '__hash__', None) is not None


def eq_label(x) -> str:
    from exabgp.bgp.message.update.nlri.nlri import NLRI

    if isinstance(x, NLRI):
        return nlri_label(x)
    mod = type(x).__module__
    if '.community.extended' in mod and hasattr(x, '_packed') and len(bytes(x._packed)) in (8, 20) and hasattr(type(x), 'COMMUNITY_TYPE'):
        p = bytes(x._packed)
        return 'extcomm%s:%d/%d' % ('6' if len(p) == 20 else '', p[0] & 0x0F, p[1])
    if hasattr(x, 'ID') and isinstance(getattr(x, 'ID'), int) and '.attribute' in mod:
        return attr_label(x)
    if type(x).__name__ == 'Route':
        return 'route:' + nlri_label(x.nlri).split(':', 1)[1]
    if type(x).__name__ == 'AttributeCollection':
        return 'route:attributes'
    return 'other:' + type(x).__name__


def check_l3(a, b) -> tuple[bool, str, dict, str]:
    """premise a == b holds. -> (ok, what, witness, kind)"""
    wit = {'a': safe_repr(a), 'b': safe_repr(b), 'a_type': type(a).__name__, 'b_type': type(b).__name__}
    for o, n in ((a, 'a'), (b, 'b')):
        p = getattr(o, '_packed', None)
        if isinstance(p, (bytes, bytearray, memoryview)):
            wit[n + '_packed'] = hx(p)
    if hashable(a) and hashable(b):
        try:
            ha, hb = hash(a), hash(b)
        except Exception as e:  # noqa
            return False, f'hash() raises {type(e).__name__}: {str(e)[:100]}', dict(wit, raises=type(e).__name__), 'hash'
        if ha != hb:
            return False, f'a == b but hash(a) != hash(b): {safe_repr(a)[:100]} / {safe_repr(b)[:100]}', wit, 'hash'
    else:
        M.note('L3-unhashable:' + type(a).__name__)
    ia = getattr(a, 'index', None)
    ib = getattr(b, 'index', None)
    if callable(ia) and callable(ib):
        try:
            xa, xb = bytes(ia()), bytes(ib())
        except Exception as e:  # noqa
            return False, f'index() raises {type(e).__name__}: {str(e)[:100]}', dict(wit, raises=type(e).__name__), 'index'
        if xa != xb:
            return False, f'a == b but index(a) != index(b): {safe_repr(a)[:100]} / {safe_repr(b)[:100]}', dict(wit, a_index=hx(xa), b_index=hx(xb)), 'index'
    return True, '', wit, ''


def law3_equal_objects_hash_and_index_alike(self, other, result) -> bool:
    if not M.armed or M.busy or result is not True:
        return True
    if type(other).__name__ in ('NoneType',) or not hasattr(other, '__class__'):
        return True
    M.busy = True
    try:
        label = eq_label(self)
        ok, what, wit, kind = check_l3(self, other)
        M.count(label, 'L3')
        if label.startswith('nlri:'):
            sub = nlri_sublabel(self)
            if sub:
                M.count(sub, 'L3')
        if not ok:
            if 'raises' in wit:
                key = 'C15/raises:%s:%s' % (label, wit['raises'])
            else:
                key = 'C15/eq-%s:%s' % (kind, label) + (':' + type(self).__name__ if label.startswith('nlri:') and nlri_sublabel(self) else '')
            M.pending = LawViolation(key, what, wit, label, 'L3')
        if not ok and M.record_only:
            if M.pending is not None and len(M.recorded) < 2000:
                M.recorded.append(M.pending)
            M.pending = None
            return True
        return ok
    finally:
        M.busy = False


# ------------------------------------------------------------------------------ attachment


def _wrap(cls, name: str, condition, want_params: tuple[str, ...]) -> bool:
    fn = cls.__dict__.get(name)
    tag = f'{cls.__module__.replace("exabgp.bgp.message.update.", "")}.{cls.__name__}.{name}'
    if fn is None or not inspect.isfunction(fn):
        return False
    if getattr(fn, '_c15_contract', False):
        return True
    try:
        params = tuple(inspect.signature(fn).parameters)
    except (TypeError, ValueError):
        M.not_attached.append(tag + ' (no signature)')
        return False
    if params[: len(want_params)] != want_params:
        M.not_attached.append(tag + f' (parameters {params})')
        return False
    try:
        wrapped = icontract.ensure(condition, error=law_error)(fn)
    except Exception as e:  # noqa
        M.not_attached.append(tag + f' ({type(e).__name__}: {e})')
        return False
    wrapped._c15_contract = True
    setattr(cls, name, wrapped)
    M.attached.append(tag)
    return True


def _mro_classes(klasses):
    seen = []
    for k in klasses:
        for c in k.__mro__:
            if c is object or c in seen:
                continue
            if not c.__module__.startswith('exabgp.'):
                continue
            seen.append(c)
    return seen


def registries() -> dict:
    """every registry the statement names, found on the real classes at run time"""
    import exabgp.bgp.message.update  # noqa: F401  (imports every nlri / attribute module)
    from exabgp.bgp.message.update.attribute.attribute import Attribute
    from exabgp.bgp.message.update.attribute.bgpls.linkstate import LinkState
    from exabgp.bgp.message.update.attribute.community.extended.community import ExtendedCommunity, ExtendedCommunityIPv6
    from exabgp.bgp.message.update.attribute.pmsi import PMSI
    from exabgp.bgp.message.update.attribute.sr.prefixsid import PrefixSid
    from exabgp.bgp.message.update.attribute.tunnel_encap.tlv import SubTLV, TunnelTypeTLV
    from exabgp.bgp.message.update.nlri.bgpls.nlri import BGPLS
    from exabgp.bgp.message.update.nlri.evpn.nlri import EVPN
    from exabgp.bgp.message.update.nlri.mup.nlri import MUP
    from exabgp.bgp.message.update.nlri.mvpn.nlri import MVPN
    from exabgp.bgp.message.update.nlri.nlri import NLRI

    reg = {
        'nlri': dict(NLRI.registered_nlri),
        'attr': {int(k[0]): v for k, v in Attribute.registered_attributes.items()},
        'extcomm': dict(ExtendedCommunity.registered_extended),
        'extcomm6': dict(ExtendedCommunityIPv6.registered_extended),
        'bgpls': {int(k): v for k, v in LinkState.registered_lsids.items()},
        'evpn': dict(EVPN.registered_evpn),
        'mup': dict(MUP.registered_mup),
        'mvpn': dict(MVPN.registered_mvpn),
        'bgpls-nlri': dict(BGPLS.registered_bgpls),
        'srid': dict(PrefixSid.registered_srids),
        'tunnel': dict(TunnelTypeTLV.registered_tunnel_types),
        'tunnel-sub': dict(SubTLV.registered_subtypes),
        'pmsi': dict(getattr(PMSI, '_pmsi_known', {}) or getattr(PMSI, 'registered_tunnel_types', {}) or {}),
    }
    return reg


def registry_labels(reg: dict) -> list[str]:
    out = []
    out += ['nlri:' + k for k in sorted(reg['nlri'])]
    out += ['attr:%d' % k for k in sorted(reg['attr'])]
    out += ['extcomm:%d/%d' % k for k in sorted(reg['extcomm'])]
    out += ['extcomm6:%d/%d' % k for k in sorted(reg['extcomm6'])]
    out += ['bgpls:%d' % k for k in sorted(reg['bgpls'])]
    out += ['nlri-sub:evpn/%s' % k for k in sorted(reg['evpn'])]
    out += ['nlri-sub:mup/%s' % k for k in sorted(reg['mup'], key=str)]
    out += ['nlri-sub:mvpn/%s' % k for k in sorted(reg['mvpn'])]
    out += ['nlri-sub:bgpls/%s' % k for k in sorted(reg['bgpls-nlri'])]
    out += ['srid:%s' % k for k in sorted(reg['srid'])]
    out += ['tunnel:%s' % k for k in sorted(reg['tunnel'])]
    out += ['tunnel-sub:%s' % k for k in sorted(reg['tunnel-sub'])]
    return out


_attached = False


def attach() -> dict:
    """attach the post-conditions to the classes the registries hold (and their exabgp bases). idempotent."""
    global _attached
    reg = registries()
    if _attached:
        return reg
    _attached = True
    from exabgp.bgp.message.update.attribute.collection import AttributeCollection
    from exabgp.bgp.message.update.attribute.community.initial.community import Community
    from exabgp.bgp.message.update.attribute.community.large.community import LargeCommunity
    from exabgp.rib.route import Route

    nlri_classes = list(reg['nlri'].values()) + list(reg['evpn'].values()) + list(reg['mup'].values())
    nlri_classes += list(reg['mvpn'].values()) + list(reg['bgpls-nlri'].values())
    try:
        from exabgp.bgp.message.update.nlri.evpn.nlri import GenericEVPN

        nlri_classes.append(GenericEVPN)
    except ImportError:
        pass
    for c in _mro_classes(nlri_classes):
        if c.__name__ == 'Family':
            continue
        _wrap(c, '__eq__', law3_equal_objects_hash_and_index_alike, ('self', 'other'))
        if c.__name__ != 'NLRI':
            _wrap(c, 'pack_nlri', law1_pack_nlri_decodes_back, ('self', 'negotiated'))
    attr_classes = list(reg['attr'].values()) + list(reg['extcomm'].values()) + list(reg['extcomm6'].values())
    attr_classes += [Community, LargeCommunity]
    for c in _mro_classes(attr_classes):
        if c.__name__ == 'Family':
            continue
        _wrap(c, '__eq__', law3_equal_objects_hash_and_index_alike, ('self', 'other'))
        if c in reg['attr'].values() or any(issubclass(r, c) for r in reg['attr'].values()):
            if c.__name__ != 'Attribute':
                _wrap(c, 'pack_attribute', law1_pack_attribute_decodes_back, ('self', 'negotiated'))
    _wrap(Route, '__eq__', law3_equal_objects_hash_and_index_alike, ('self', 'other'))
    _wrap(AttributeCollection, '__eq__', law3_equal_objects_hash_and_index_alike, ('self', 'other'))
    return reg
