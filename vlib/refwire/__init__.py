"""refwire - an independent, deliberately small RFC reference codec.

Written from RFC 4271/4760/7911/6793/8277/4364/8950/4724/5492/9072/8654 text.
It imports NOTHING from exabgp; it is the trusted base of the oracles.
"""

from .wire import *  # noqa: F401,F403
