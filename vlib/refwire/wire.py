"""Independent BGP wire codec (reference). No exabgp imports."""

from __future__ import annotations

import socket
import struct

MARKER = b'\xff' * 16
OPEN, UPDATE, NOTIFICATION, KEEPALIVE, ROUTE_REFRESH, OPERATIONAL = 1, 2, 3, 4, 5, 6

AFI_IPV4, AFI_IPV6, AFI_L2VPN, AFI_BGPLS = 1, 2, 25, 16388
SAFI_UNICAST, SAFI_MULTICAST, SAFI_LABEL, SAFI_VPN, SAFI_FLOW, SAFI_FLOWVPN = 1, 2, 4, 128, 133, 134

AS_TRANS = 23456

# attribute codes
ORIGIN, AS_PATH, NEXT_HOP, MED, LOCAL_PREF, ATOMIC_AGGREGATE, AGGREGATOR = 1, 2, 3, 4, 5, 6, 7
COMMUNITY, ORIGINATOR_ID, CLUSTER_LIST, MP_REACH, MP_UNREACH, EXT_COMMUNITY = 8, 9, 10, 14, 15, 16
AS4_PATH, AS4_AGGREGATOR, PMSI, TUNNEL_ENCAP, IPV6_EXT_COMMUNITY, AIGP, BGP_LS, LARGE_COMMUNITY, PREFIX_SID = (
    17,
    18,
    22,
    23,
    25,
    26,
    29,
    32,
    40,
)

F_OPTIONAL, F_TRANSITIVE, F_PARTIAL, F_EXTLEN = 0x80, 0x40, 0x20, 0x10

# RFC mandated flags (optional, transitive) per attribute
ATTR_FLAGS = {
    ORIGIN: 0x40,
    AS_PATH: 0x40,
    NEXT_HOP: 0x40,
    MED: 0x80,
    LOCAL_PREF: 0x40,
    ATOMIC_AGGREGATE: 0x40,
    AGGREGATOR: 0xC0,
    COMMUNITY: 0xC0,
    ORIGINATOR_ID: 0x80,
    CLUSTER_LIST: 0x80,
    MP_REACH: 0x80,
    MP_UNREACH: 0x80,
    EXT_COMMUNITY: 0xC0,
    AS4_PATH: 0xC0,
    AS4_AGGREGATOR: 0xC0,
    PMSI: 0xC0,
    TUNNEL_ENCAP: 0xC0,
    IPV6_EXT_COMMUNITY: 0xC0,
    AIGP: 0x80,
    BGP_LS: 0x80,
    LARGE_COMMUNITY: 0xC0,
    PREFIX_SID: 0xC0,
}


class RefError(Exception):
    """The reference refuses the input: (code, subcode) of the NOTIFICATION the RFC asks for."""

    def __init__(self, code: int, subcode: int, why: str = '') -> None:
        Exception.__init__(self, f'{code}/{subcode} {why}')
        self.code, self.subcode, self.why = code, subcode, why


# ------------------------------------------------------------------ framing


def message(mtype: int, body: bytes = b'') -> bytes:
    return MARKER + struct.pack('!HB', 19 + len(body), mtype) + body


def keepalive() -> bytes:
    return message(KEEPALIVE)


def notification(code: int, subcode: int, data: bytes = b'') -> bytes:
    return message(NOTIFICATION, bytes([code, subcode]) + data)


TYPE_BOUNDS = {
    OPEN: lambda n: n >= 29,
    UPDATE: lambda n: n >= 23,
    NOTIFICATION: lambda n: n >= 21,
    KEEPALIVE: lambda n: n == 19,
    ROUTE_REFRESH: lambda n: n == 23,
}
KNOWN_TYPES = (OPEN, UPDATE, NOTIFICATION, KEEPALIVE, ROUTE_REFRESH)


def header_fault(header: bytes, maxsize: int, known_types=KNOWN_TYPES):
    """RFC 4271 6.1 on a 19 byte header -> None or (1, subcode)"""
    if header[:16] != MARKER:
        return (1, 1)
    length = struct.unpack('!H', header[16:18])[0]
    mtype = header[18]
    if length < 19 or length > maxsize:
        return (1, 2)
    if mtype in TYPE_BOUNDS and not TYPE_BOUNDS[mtype](length):
        return (1, 2)
    if mtype not in known_types:
        return (1, 3)
    return None


def frame(stream: bytes, maxsize: int, known_types=KNOWN_TYPES):
    """-> (messages [(type, body)], fault (code, sub) | None, leftover bytes)

    The successive length-delimited messages with complete bodies; stops at the first faulty header."""
    out = []
    pos = 0
    while len(stream) - pos >= 19:
        header = stream[pos : pos + 19]
        fault = header_fault(header, maxsize, known_types)
        if fault:
            return out, fault, stream[pos:]
        length = struct.unpack('!H', header[16:18])[0]
        if len(stream) - pos < length:
            break
        out.append((header[18], stream[pos + 19 : pos + length]))
        pos += length
    return out, None, stream[pos:]


# ------------------------------------------------------------------ helpers


def ip4(b: bytes) -> str:
    return socket.inet_ntop(socket.AF_INET, bytes(b))


def ip6(b: bytes) -> str:
    return socket.inet_ntop(socket.AF_INET6, bytes(b))


def ipstr(b: bytes) -> str:
    return ip4(b) if len(b) == 4 else ip6(b)


def ipbytes(s: str) -> bytes:
    return socket.inet_pton(socket.AF_INET6 if ':' in s else socket.AF_INET, s)


# ------------------------------------------------------------------ OPEN

CAP_MP, CAP_REFRESH, CAP_NEXTHOP, CAP_EXTMSG, CAP_GR, CAP_ASN4, CAP_ADDPATH, CAP_ENHANCED = 1, 2, 5, 6, 64, 65, 69, 70
CAP_HOSTNAME, CAP_SOFTWARE, CAP_REFRESH_CISCO, CAP_PATHS_LIMIT, CAP_LLNH = 73, 75, 128, 76, 77


def cap_mp(afi, safi):
    return (CAP_MP, struct.pack('!HBB', afi, 0, safi))


def cap_asn4(asn):
    return (CAP_ASN4, struct.pack('!L', asn))


def cap_addpath(entries):  # [(afi, safi, bits)]
    return (CAP_ADDPATH, b''.join(struct.pack('!HBB', a, s, b) for a, s, b in entries))


def cap_nexthop(entries):  # [(afi, safi, nhafi)]
    return (CAP_NEXTHOP, b''.join(struct.pack('!HHH', a, s, n) for a, s, n in entries))


def cap_gr(flags, time, fams):  # fams [(afi, safi, fflags)]
    return (CAP_GR, struct.pack('!H', (flags << 12) | (time & 0xFFF)) + b''.join(struct.pack('!HBB', a, s, f) for a, s, f in fams))


def cap_hostname(host: bytes, domain: bytes):
    return (CAP_HOSTNAME, bytes([len(host)]) + host + bytes([len(domain)]) + domain)


def enc_params(caps, extended=False, one_param=False):
    """caps: [(code, value)] -> optional parameters field including its length byte(s)"""
    if one_param:
        inner = b''.join(bytes([c, len(v)]) + v for c, v in caps)
        groups = [inner] if inner else []
    else:
        groups = [bytes([c, len(v)]) + v for c, v in caps]
    if extended:
        params = b''.join(struct.pack('!BH', 2, len(g)) + g for g in groups)
        return struct.pack('!BBH', 255, 255, len(params)) + params
    params = b''.join(bytes([2, len(g)]) + g for g in groups)
    if len(params) > 255:
        raise ValueError('classic optional parameters cannot exceed 255 bytes')
    return bytes([len(params)]) + params


def enc_open_body(asn2, hold, rid, caps=(), version=4, extended=False, one_param=False, raw_params=None):
    fixed = struct.pack('!BHH', version, asn2, hold) + ipbytes(rid)
    return fixed + (raw_params if raw_params is not None else enc_params(list(caps), extended, one_param))


def enc_open(*a, **k):
    return message(OPEN, enc_open_body(*a, **k))


def dec_open(body: bytes) -> dict:
    """RFC 4271 4.2 / 5492 / 9072. Raises RefError for what the RFCs refuse."""
    if len(body) < 10:
        raise RefError(1, 2, 'OPEN shorter than 29')
    version, asn, hold = struct.unpack('!BHH', body[:5])
    if version != 4:
        raise RefError(2, 1, 'version')
    rid = ip4(body[5:9])
    optlen = body[9]
    rest = body[10:]
    extended = False
    if optlen == 255 and len(rest) >= 3 and rest[0] == 255:
        extended = True
        optlen = struct.unpack('!H', rest[1:3])[0]
        rest = rest[3:]
    if len(rest) != optlen:
        raise RefError(2, 0, 'optional parameter length disagrees with message length')
    caps = []
    pos = 0
    while pos < len(rest):
        if extended:
            if pos + 3 > len(rest):
                raise RefError(2, 0, 'truncated parameter header')
            ptype = rest[pos]
            plen = struct.unpack('!H', rest[pos + 1 : pos + 3])[0]
            pos += 3
        else:
            if pos + 2 > len(rest):
                raise RefError(2, 0, 'truncated parameter header')
            ptype, plen = rest[pos], rest[pos + 1]
            pos += 2
        if pos + plen > len(rest):
            raise RefError(2, 0, 'parameter overruns')
        pval = rest[pos : pos + plen]
        pos += plen
        if ptype != 2:
            raise RefError(2, 4, 'unsupported optional parameter')
        cp = 0
        while cp < len(pval):
            if cp + 2 > len(pval):
                raise RefError(2, 0, 'truncated capability header')
            code, clen = pval[cp], pval[cp + 1]
            cp += 2
            if cp + clen > len(pval):
                raise RefError(2, 0, 'capability overruns')
            caps.append((code, bytes(pval[cp : cp + clen])))
            cp += clen
    return {'version': version, 'asn': asn, 'hold': hold, 'rid': rid, 'caps': caps, 'extended': extended}


def caps_view(caps) -> dict:
    """Semantic view of a capability list. Malformed capability values -> key 'malformed'."""
    v = {
        'mp': [],
        'asn4': None,
        'addpath': {},
        'nexthop': [],
        'refresh': False,
        'refresh_cisco': False,
        'enhanced': False,
        'extmsg': False,
        'gr': None,
        'hostname': None,
        'unknown': [],
        'malformed': [],
        'codes': [],
    }
    for code, val in caps:
        v['codes'].append(code)
        if code == CAP_MP:
            if len(val) != 4:
                v['malformed'].append(code)
                continue
            afi, _, safi = struct.unpack('!HBB', val)
            if (afi, safi) not in v['mp']:
                v['mp'].append((afi, safi))
        elif code == CAP_ASN4:
            if len(val) != 4:
                v['malformed'].append(code)
                continue
            v['asn4'] = struct.unpack('!L', val)[0]
        elif code == CAP_ADDPATH:
            if len(val) % 4:
                v['malformed'].append(code)
                continue
            for i in range(0, len(val), 4):
                afi, safi, bits = struct.unpack('!HBB', val[i : i + 4])
                v['addpath'][(afi, safi)] = bits
        elif code == CAP_NEXTHOP:
            if len(val) % 6:
                v['malformed'].append(code)
                continue
            for i in range(0, len(val), 6):
                t = struct.unpack('!HHH', val[i : i + 6])
                if t not in v['nexthop']:
                    v['nexthop'].append(t)
        elif code == CAP_REFRESH:
            v['refresh'] = True
        elif code == CAP_REFRESH_CISCO:
            v['refresh_cisco'] = True
        elif code == CAP_ENHANCED:
            v['enhanced'] = True
        elif code == CAP_EXTMSG:
            v['extmsg'] = True
        elif code == CAP_GR:
            if len(val) < 2 or (len(val) - 2) % 4:
                v['malformed'].append(code)
                continue
            w = struct.unpack('!H', val[:2])[0]
            fams = [struct.unpack('!HBB', val[i : i + 4]) for i in range(2, len(val), 4)]
            v['gr'] = {'flags': w >> 12, 'time': w & 0xFFF, 'families': fams}
        elif code == CAP_HOSTNAME:
            try:
                hl = val[0]
                host = val[1 : 1 + hl]
                dl = val[1 + hl]
                dom = val[2 + hl : 2 + hl + dl]
                if len(host) != hl or len(dom) != dl:
                    raise IndexError
                v['hostname'] = (bytes(host), bytes(dom))
            except IndexError:
                v['malformed'].append(code)
        else:
            v['unknown'].append(code)
    return v


def negotiate(ours: dict, theirs: dict) -> dict:
    """RFC function of the two OPENs (dec_open dicts). `ours` is the local speaker."""
    a, b = caps_view(ours['caps']), caps_view(theirs['caps'])
    asn4 = a['asn4'] is not None and b['asn4'] is not None
    # RFC 4760 section 8 / RFC 5492: a speaker that sends no MP capability only does IPv4 unicast
    mp_a = a['mp'] if a['mp'] else [(1, 1)]
    mp_b = b['mp'] if b['mp'] else [(1, 1)]
    families = [f for f in mp_b if f in mp_a]
    send, recv = {}, {}
    for fam in set(a['addpath']) | set(b['addpath']):
        ab, bb = a['addpath'].get(fam, 0), b['addpath'].get(fam, 0)
        send[fam] = bool(ab & 2) and bool(bb & 1)
        recv[fam] = bool(ab & 1) and bool(bb & 2)
    if a['enhanced'] and b['enhanced']:
        refresh = 'enhanced'
    elif a['refresh'] and b['refresh']:
        refresh = 'normal'
    else:
        refresh = 'absent'
    return {
        'asn4': asn4,
        'local_as': a['asn4'] if a['asn4'] is not None else ours['asn'],
        'peer_as': (b['asn4'] if asn4 else theirs['asn']),
        'peer_as_true': b['asn4'] if b['asn4'] is not None else theirs['asn'],
        'families': families,
        'families_strict': [f for f in b['mp'] if f in a['mp']],
        'addpath_send': {f for f, x in send.items() if x},
        'addpath_recv': {f for f, x in recv.items() if x},
        'nexthop': [t for t in b['nexthop'] if t in a['nexthop']],
        'refresh': refresh,
        'msg_size': 65535 if (a['extmsg'] and b['extmsg']) else 4096,
        'hold': min(ours['hold'], theirs['hold']),
    }


# ------------------------------------------------------------------ NLRI


def _plen_bytes(bits: int) -> int:
    return (bits + 7) // 8


def nlri_key(n: dict) -> tuple:
    """canonical hashable form of an NLRI dict"""
    return (
        n['afi'],
        n['safi'],
        n.get('pathid'),
        tuple(n.get('labels') or ()),
        n.get('rd'),
        n['prefix'],
    )


def mk_nlri(afi, safi, prefix, pathid=None, labels=(), rd=None) -> dict:
    return {'afi': afi, 'safi': safi, 'prefix': prefix, 'pathid': pathid, 'labels': tuple(labels), 'rd': rd}


def _prefix_str(afi: int, bits: int, data: bytes) -> str:
    size = 4 if afi == AFI_IPV4 else 16
    if bits > size * 8:
        raise RefError(3, 10, 'prefix length too large')
    padded = bytes(data) + b'\0' * (size - len(data))
    return f'{ipstr(padded)}/{bits}'


def dec_nlri(afi: int, safi: int, data: bytes, addpath: bool, withdraw: bool = False):
    """decode one NLRI of an IP family -> (dict, rest). Raises RefError(3,10) when malformed."""
    pos = 0
    pathid = None
    if addpath:
        if len(data) < 4:
            raise RefError(3, 10, 'truncated path id')
        pathid = struct.unpack('!L', data[:4])[0]
        pos = 4
    if pos >= len(data):
        raise RefError(3, 10, 'missing length')
    bits = data[pos]
    pos += 1
    labels = []
    rd = None
    if safi in (SAFI_LABEL, SAFI_VPN):
        while True:
            if bits < 24 or pos + 3 > len(data):
                raise RefError(3, 10, 'truncated label')
            raw = int.from_bytes(data[pos : pos + 3], 'big')
            pos += 3
            bits -= 24
            if withdraw and raw in (0x800000, 0x000000):
                labels.append(raw >> 4)
                break
            labels.append(raw >> 4)
            if raw & 1:
                break
        if safi == SAFI_VPN:
            if bits < 64 or pos + 8 > len(data):
                raise RefError(3, 10, 'truncated rd')
            rd = bytes(data[pos : pos + 8]).hex()
            pos += 8
            bits -= 64
    nb = _plen_bytes(bits)
    if pos + nb > len(data):
        raise RefError(3, 10, 'truncated prefix')
    prefix = _prefix_str(afi, bits, data[pos : pos + nb])
    pos += nb
    return mk_nlri(afi, safi, prefix, pathid, labels, rd), data[pos:]


def dec_nlris(afi, safi, data, addpath, withdraw=False):
    out = []
    while data:
        n, data = dec_nlri(afi, safi, data, addpath, withdraw)
        out.append(n)
    return out


def enc_nlri(n: dict, addpath: bool, withdraw_label: bool = False) -> bytes:
    addr, bits = n['prefix'].split('/')
    bits = int(bits)
    raw = ipbytes(addr)[: _plen_bytes(bits)]
    out = b''
    if addpath:
        out += struct.pack('!L', n.get('pathid') or 0)
    body = b''
    total = bits
    if n['safi'] in (SAFI_LABEL, SAFI_VPN):
        labels = list(n.get('labels') or ())
        if withdraw_label:
            body += b'\x80\x00\x00'
            total += 24
        else:
            for i, lab in enumerate(labels):
                v = (lab << 4) | (1 if i == len(labels) - 1 else 0)
                body += v.to_bytes(3, 'big')
                total += 24
        if n['safi'] == SAFI_VPN:
            body += bytes.fromhex(n['rd'])
            total += 64
    return out + bytes([total]) + body + raw


# ------------------------------------------------------------------ attributes


def enc_attr(flags: int, code: int, value: bytes, force_ext: bool = False) -> bytes:
    if len(value) > 255 or force_ext:
        return bytes([flags | F_EXTLEN, code]) + struct.pack('!H', len(value)) + value
    return bytes([flags & ~F_EXTLEN & 0xFF, code, len(value)]) + value


def v_aspath(segments, asn4: bool) -> bytes:
    out = b''
    fmt = '!L' if asn4 else '!H'
    for stype, asns in segments:
        out += bytes([stype, len(asns)]) + b''.join(struct.pack(fmt, a) for a in asns)
    return out


def d_aspath(value: bytes, asn4: bool):
    size = 4 if asn4 else 2
    segs = []
    pos = 0
    while pos < len(value):
        if pos + 2 > len(value):
            raise RefError(3, 11, 'truncated segment header')
        stype, count = value[pos], value[pos + 1]
        pos += 2
        if stype not in (1, 2, 3, 4):
            raise RefError(3, 11, 'segment type')
        if pos + count * size > len(value):
            raise RefError(3, 11, 'segment overrun')
        asns = [int.from_bytes(value[pos + i * size : pos + (i + 1) * size], 'big') for i in range(count)]
        pos += count * size
        segs.append((stype, asns))
    return segs


def path_len(segs) -> int:
    n = 0
    for t, asns in segs:
        if t == 2:
            n += len(asns)
        elif t == 1:
            n += 1
    return n


def merge_as4(as_path, as4_path):
    """RFC 6793 4.2.3 -> merged segment list (adjacent same-type sequences joined)."""
    n2, n4 = path_len(as_path), path_len(as4_path)
    if n2 < n4:
        return normalise_path(as_path)
    need = n2 - n4
    lead = []
    for t, asns in as_path:
        if need <= 0:
            break
        if t == 2:
            take = asns[:need]
            lead.append((2, list(take)))
            need -= len(take)
        elif t == 1:
            lead.append((1, list(asns)))
            need -= 1
        else:
            lead.append((t, list(asns)))
    return normalise_path(lead + [(t, list(a)) for t, a in as4_path])


def normalise_path(segs):
    out = []
    for t, asns in segs:
        if not asns:
            continue
        if out and out[-1][0] == t == 2:
            out[-1] = (2, out[-1][1] + list(asns))
        else:
            out.append((t, list(asns)))
    return out


def dec_attr_tlvs(block: bytes):
    """walk the path attribute block -> [(flags, code, value, raw_header_len)] ; RefError(3,1) if structure bad"""
    out = []
    pos = 0
    while pos < len(block):
        if pos + 3 > len(block):
            raise RefError(3, 1, 'truncated attribute header')
        flags, code = block[pos], block[pos + 1]
        if flags & F_EXTLEN:
            if pos + 4 > len(block):
                raise RefError(3, 1, 'truncated attribute header')
            length = struct.unpack('!H', block[pos + 2 : pos + 4])[0]
            hl = 4
        else:
            length = block[pos + 2]
            hl = 3
        if pos + hl + length > len(block):
            raise RefError(3, 1, 'attribute overruns block')
        out.append((flags, code, bytes(block[pos + hl : pos + hl + length])))
        pos += hl + length
    return out


def dec_mp_nexthop(afi, safi, nh: bytes):
    """-> list of next hop strings (global first, link-local second)"""
    if safi in (SAFI_VPN,):
        if len(nh) in (12, 24, 48):
            step = 12 if len(nh) == 12 else 24
            return [ipstr(nh[i + 8 : i + step]) for i in range(0, len(nh), step)]
    if len(nh) == 4:
        return [ip4(nh)]
    if len(nh) == 16:
        return [ip6(nh)]
    if len(nh) == 32:
        return [ip6(nh[:16]), ip6(nh[16:])]
    if len(nh) == 0:
        return []
    raise RefError(3, 9, f'mp next hop length {len(nh)}')


def enc_mp_nexthop(safi, hops) -> bytes:
    out = b''
    for h in hops:
        if safi == SAFI_VPN:
            out += b'\0' * 8
        out += ipbytes(h)
    return out


def enc_mp_reach(afi, safi, hops, nlris, addpath, force_ext=False, flags=0x80) -> bytes:
    nh = enc_mp_nexthop(safi, hops)
    val = struct.pack('!HBB', afi, safi, len(nh)) + nh + b'\0' + b''.join(enc_nlri(n, addpath) for n in nlris)
    return enc_attr(flags, MP_REACH, val, force_ext)


def enc_mp_unreach(afi, safi, nlris, addpath, force_ext=False, flags=0x80) -> bytes:
    val = struct.pack('!HB', afi, safi) + b''.join(enc_nlri(n, addpath, n['safi'] in (SAFI_LABEL, SAFI_VPN)) for n in nlris)
    return enc_attr(flags, MP_UNREACH, val, force_ext)


def enc_update_body(withdrawn: bytes, attrs: bytes, nlri: bytes) -> bytes:
    return struct.pack('!H', len(withdrawn)) + withdrawn + struct.pack('!H', len(attrs)) + attrs + nlri


def enc_update(withdrawn: bytes, attrs: bytes, nlri: bytes) -> bytes:
    return message(UPDATE, enc_update_body(withdrawn, attrs, nlri))


def split_update(body: bytes):
    if len(body) < 4:
        raise RefError(1, 2, 'UPDATE shorter than 23')
    wl = struct.unpack('!H', body[:2])[0]
    if 2 + wl + 2 > len(body):
        raise RefError(3, 1, 'withdrawn length')
    al = struct.unpack('!H', body[2 + wl : 4 + wl])[0]
    if 4 + wl + al > len(body):
        raise RefError(3, 1, 'attribute length')
    return body[2 : 2 + wl], body[4 + wl : 4 + wl + al], body[4 + wl + al :]


def sess(asn4=True, addpath=(), msg_size=4096, **kw) -> dict:
    """receive-side session parameters for dec_update: addpath = set of (afi, safi) that carry path ids"""
    d = {'asn4': asn4, 'addpath': set(addpath), 'msg_size': msg_size}
    d.update(kw)
    return d


def dec_attr_value(code: int, value: bytes, asn4: bool):
    """semantic value of the attributes the reference speaks; None for the others"""
    if code == ORIGIN:
        if len(value) != 1 or value[0] > 2:
            raise RefError(3, 6, 'origin')
        return value[0]
    if code in (AS_PATH, AS4_PATH):
        return d_aspath(value, asn4 or code == AS4_PATH)
    if code == NEXT_HOP:
        if len(value) != 4:
            raise RefError(3, 8, 'next hop length')
        return ip4(value)
    if code in (MED, LOCAL_PREF):
        if len(value) != 4:
            raise RefError(3, 5, 'length')
        return struct.unpack('!L', value)[0]
    if code == ATOMIC_AGGREGATE:
        if len(value) != 0:
            raise RefError(3, 5, 'length')
        return True
    if code == AGGREGATOR:
        if len(value) == 8 and asn4:
            return (struct.unpack('!L', value[:4])[0], ip4(value[4:]))
        if len(value) == 6 and not asn4:
            return (struct.unpack('!H', value[:2])[0], ip4(value[2:]))
        raise RefError(3, 5, 'aggregator length')
    if code == AS4_AGGREGATOR:
        if len(value) != 8:
            raise RefError(3, 5, 'as4 aggregator length')
        return (struct.unpack('!L', value[:4])[0], ip4(value[4:]))
    if code == COMMUNITY:
        if len(value) % 4 or not value:
            raise RefError(3, 5, 'community length')
        return [struct.unpack('!HH', value[i : i + 4]) for i in range(0, len(value), 4)]
    if code == ORIGINATOR_ID:
        if len(value) != 4:
            raise RefError(3, 5, 'originator length')
        return ip4(value)
    if code == CLUSTER_LIST:
        if len(value) % 4 or not value:
            raise RefError(3, 5, 'cluster list length')
        return [ip4(value[i : i + 4]) for i in range(0, len(value), 4)]
    if code == EXT_COMMUNITY:
        if len(value) % 8 or not value:
            raise RefError(3, 5, 'ext community length')
        return [bytes(value[i : i + 8]).hex() for i in range(0, len(value), 8)]
    if code == LARGE_COMMUNITY:
        if len(value) % 12 or not value:
            raise RefError(3, 5, 'large community length')
        return [struct.unpack('!LLL', value[i : i + 12]) for i in range(0, len(value), 12)]
    if code == AIGP:
        return bytes(value).hex()
    return None


def dec_update(body: bytes, s: dict) -> dict:
    """Reference decode of an UPDATE body for the IP families.

    -> {'eor': (afi,safi)|None, 'withdraw': [nlri], 'announce': [(nlri, [nexthops])],
        'attrs': {code: semantic}, 'raw': {code: (flags, bytes)}, 'order': [codes], 'as_path': merged segments}
    """
    wd, ab, nl = split_update(body)
    asn4 = s['asn4']
    ap = s['addpath']
    res = {'eor': None, 'withdraw': [], 'announce': [], 'attrs': {}, 'raw': {}, 'order': [], 'as_path': None}
    if not wd and not ab and not nl:
        res['eor'] = (1, 1)
        return res
    res['withdraw'] += dec_nlris(1, 1, wd, (1, 1) in ap, True)
    tlvs = dec_attr_tlvs(ab)
    reach = unreach = None
    for flags, code, value in tlvs:
        res['order'].append(code)
        if code in res['raw']:
            if code in (MP_REACH, MP_UNREACH):
                raise RefError(3, 1, 'duplicate MP attribute')
            continue  # RFC 7606: all but the first are discarded
        res['raw'][code] = (flags, value)
        if code == MP_REACH:
            reach = value
        elif code == MP_UNREACH:
            unreach = value
        else:
            sem = dec_attr_value(code, value, asn4)
            if sem is not None:
                res['attrs'][code] = sem
    if unreach is not None:
        if len(unreach) < 3:
            raise RefError(3, 9, 'short MP_UNREACH')
        afi, safi = struct.unpack('!HB', unreach[:3])
        rest = unreach[3:]
        if not rest and len(tlvs) == 1 and not wd and not nl:
            res['eor'] = (afi, safi)
            return res
        res['withdraw'] += dec_nlris(afi, safi, rest, (afi, safi) in ap, True)
    if reach is not None:
        if len(reach) < 5:
            raise RefError(3, 9, 'short MP_REACH')
        afi, safi, nhl = struct.unpack('!HBB', reach[:4])
        if 4 + nhl + 1 > len(reach):
            raise RefError(3, 9, 'MP_REACH next hop overrun')
        hops = dec_mp_nexthop(afi, safi, reach[4 : 4 + nhl])
        rest = reach[4 + nhl + 1 :]
        for n in dec_nlris(afi, safi, rest, (afi, safi) in ap):
            res['announce'].append((n, hops))
    if nl:
        nh = res['attrs'].get(NEXT_HOP)
        for n in dec_nlris(1, 1, nl, (1, 1) in ap):
            res['announce'].append((n, [nh] if nh else []))
    if AS_PATH in res['attrs']:
        if not asn4 and AS4_PATH in res['attrs']:
            res['as_path'] = merge_as4(res['attrs'][AS_PATH], res['attrs'][AS4_PATH])
        else:
            res['as_path'] = normalise_path(res['attrs'][AS_PATH])
    return res


# ------------------------------------------------------------------ models


class PeerTable:
    """what a peer holds after applying UPDATEs in order (withdrawals first within a message)"""

    def __init__(self) -> None:
        self.routes: dict[tuple, dict] = {}

    def apply(self, upd: dict) -> None:
        for n in upd['withdraw']:
            self.routes.pop(nlri_key(n), None)
        for n, hops in upd['announce']:
            self.routes[nlri_key(n)] = {'nexthop': tuple(hops), 'attrs': canon_attrs(upd)}

    def snapshot(self):
        return dict(self.routes)


def canon_attrs(upd: dict) -> tuple:
    """hashable attribute view independent of attribute order; MP attrs and NEXT_HOP left out"""
    out = []
    for code in sorted(upd['raw']):
        if code in (MP_REACH, MP_UNREACH, NEXT_HOP, AS4_PATH):
            continue
        if code == AS_PATH:
            out.append((code, repr(upd['as_path'])))
        elif code in upd['attrs']:
            out.append((code, repr(upd['attrs'][code])))
        else:
            out.append((code, upd['raw'][code][1].hex()))
    return tuple(out)


FSM_STATES = ('IDLE', 'ACTIVE', 'CONNECT', 'OPENSENT', 'OPENCONFIRM', 'ESTABLISHED')

# RFC 4271 8.2.2 transition relation (self loops allowed), written out from the RFC text
_FSM = {
    'IDLE': {'IDLE', 'CONNECT', 'ACTIVE'},
    'CONNECT': {'CONNECT', 'ACTIVE', 'OPENSENT', 'IDLE'},
    'ACTIVE': {'ACTIVE', 'CONNECT', 'OPENSENT', 'IDLE'},
    'OPENSENT': {'OPENSENT', 'ACTIVE', 'OPENCONFIRM', 'IDLE'},
    'OPENCONFIRM': {'OPENCONFIRM', 'ESTABLISHED', 'IDLE'},
    'ESTABLISHED': {'ESTABLISHED', 'IDLE'},
}


def fsm_allowed(src: str, dst: str) -> bool:
    return dst in _FSM.get(src, ())


class Hysteresis:
    """rise/fall automaton: state flips to up after `rise` consecutive successes, down after `fall` failures"""

    def __init__(self, rise: int, fall: int, initial: str = 'init') -> None:
        self.rise, self.fall = rise, fall
        self.state = initial
        self.run_ok = 0
        self.run_ko = 0

    def feed(self, ok: bool) -> str:
        if ok:
            self.run_ok += 1
            self.run_ko = 0
            if self.run_ok >= self.rise:
                self.state = 'up'
        else:
            self.run_ko += 1
            self.run_ok = 0
            if self.run_ko >= self.fall:
                self.state = 'down'
        return self.state
