"""refwire.flow - independent FlowSpec codec written from RFC 8955 (IPv4) and RFC 8956 (IPv6).

Imports NOTHING from exabgp. Explicit bit layouts only.

NLRI (RFC 8955 4.1)      : length, then the value. length < 240 -> one octet; otherwise two octets
                           0xFnnn (most significant nibble 0xF, 12 bit length), maximum 4095.
flow-vpn (RFC 8955 8)    : SAFI 134, the value starts with an 8 octet route distinguisher and the
                           length covers it.
value (RFC 8955 4.2)     : components <type, value...> in strictly increasing type order, every type
                           at most once. "An NLRI value not encoded as specified here, including an
                           NLRI that contains an unknown component type, is considered malformed."
types                    : 1 destination prefix, 2 source prefix, 3 ip protocol / next header, 4 port,
                           5 destination port, 6 source port, 7 icmp type, 8 icmp code, 9 tcp flags
                           (bitmask_op), 10 packet length, 11 dscp, 12 fragment (bitmask_op),
                           13 flow label (RFC 8956 only).
IPv4 prefix (8955 4.2.2.1): <type, length, ceil(length/8) octets>, trailing bits irrelevant.
IPv6 prefix (8956 3.1)   : <type, length, offset, pattern, padding>; the pattern holds (length-offset)
                           bits: the address bits offset..length-1, left aligned; padding to the octet
                           boundary MUST be 0 on encoding and ignored on decoding. length = offset = 0
                           matches everything, otherwise offset < length < 129 or malformed.
numeric_op (8955 4.2.1.1): e(0x80) a(0x40) len(0x30: 1 << len octets) 0(0x08) lt(0x04) gt(0x02) eq(0x01)
bitmask_op (8955 4.2.1.2): e(0x80) a(0x40) len(0x30)              0 0(0x0C)  not(0x02) m(0x01)
                           reserved bits: MUST be 0 on encoding, MUST be ignored on decoding.
                           the AND bit of the first operator MUST be unset on encoding and is treated
                           as unset on decoding.

Canonical rule
    {'afi': 1|2, 'safi': 133|134, 'rd': bytes(8)|None, 'comps': [(type, payload), ...]}
    payload for types 1, 2 : ('prefix', length, offset, pattern_int)    (offset 0 for IPv4)
    payload for types 3..13: [(and_bit, op_bits, value, width), ...]      and_bit of the first is 0
    dec_* add 'notes': list of tolerated irregularities (reserved bits set, first AND set,
    non zero padding) - legal to receive, illegal to send.
"""

from __future__ import annotations

import struct

AFI_IPV4, AFI_IPV6 = 1, 2
SAFI_FLOW, SAFI_FLOW_VPN = 133, 134

T_DST, T_SRC, T_PROTO, T_PORT, T_DPORT, T_SPORT, T_ICMP_TYPE, T_ICMP_CODE = 1, 2, 3, 4, 5, 6, 7, 8
T_TCP_FLAGS, T_LENGTH, T_DSCP, T_FRAGMENT, T_FLOW_LABEL = 9, 10, 11, 12, 13

NAMES = {
    1: 'destination',
    2: 'source',
    3: 'protocol',
    4: 'port',
    5: 'destination-port',
    6: 'source-port',
    7: 'icmp-type',
    8: 'icmp-code',
    9: 'tcp-flags',
    10: 'packet-length',
    11: 'dscp',
    12: 'fragment',
    13: 'flow-label',
}
PREFIX_TYPES = (1, 2)
BITMASK_TYPES = (9, 12)

# widths the RFC lets a *sender* use for each component (8955 4.2.2.3 - 4.2.2.12, 8956 3.7)
SEND_WIDTHS = {
    3: (1,),
    4: (1, 2),
    5: (1, 2),
    6: (1, 2),
    7: (1,),
    8: (1,),
    9: (1, 2),
    10: (1, 2),
    11: (1,),
    12: (1,),
    13: (1, 2, 4),
}

E_BIT, A_BIT, LEN_MASK = 0x80, 0x40, 0x30
NUM_OP_MASK, NUM_RESERVED = 0x07, 0x08
BIT_OP_MASK, BIT_RESERVED = 0x03, 0x0C

MAX_SHORT = 239  # lengths below 240 use one octet
MAX_LENGTH = 4095


class RefFlowError(Exception):
    """the bytes are not a well formed RFC 8955/8956 NLRI. kind is structural:

    length-truncated, length-overrun, rd-truncated, undefined-type, order, duplicate,
    truncated (a value, prefix or operator is cut by the end of the NLRI), prefix-length,
    missing-eol, too-long
    """

    def __init__(self, kind: str, msg: str = '', pos: int = -1, partial=None, current=None):
        Exception.__init__(self, f'{kind}: {msg} @{pos}')
        self.kind = kind
        self.pos = pos
        self.partial = partial if partial is not None else []  # complete components before the fault
        self.current = current  # (type, ops so far) of the component the fault is in


def defined_types(afi: int) -> tuple:
    return tuple(range(1, 14)) if afi == AFI_IPV6 else tuple(range(1, 13))


def min_send_width(ctype: int, value: int) -> int:
    """shortest width the RFC allows a sender for this component and value"""
    for w in SEND_WIDTHS[ctype]:
        if value < (1 << (8 * w)):
            return w
    raise ValueError(f'value {value} does not fit component {ctype}')


def min_width(value: int) -> int:
    for w in (1, 2, 4, 8):
        if value < (1 << (8 * w)):
            return w
    raise ValueError('value too large')


# ------------------------------------------------------------------ length


def enc_length(n: int) -> bytes:
    if n < 0 or n > MAX_LENGTH:
        raise RefFlowError('too-long', f'{n} octets cannot be expressed')
    if n < 240:
        return bytes([n])
    return bytes([0xF0 | (n >> 8), n & 0xFF])


def dec_length(data: bytes) -> tuple:
    """-> (length, header octets)"""
    if len(data) < 1:
        raise RefFlowError('length-truncated', 'no length octet', 0)
    first = data[0]
    if first < 0xF0:
        return first, 1
    if len(data) < 2:
        raise RefFlowError('length-truncated', 'second length octet missing', 1)
    return ((first & 0x0F) << 8) | data[1], 2


# ------------------------------------------------------------------ route distinguisher (RFC 4364 4.2)


def enc_rd(kind: int, admin, assigned: int) -> bytes:
    if kind == 0:  # 2 octet AS : 4 octet number
        return struct.pack('!HHL', 0, admin, assigned)
    if kind == 1:  # IPv4 : 2 octet number
        return struct.pack('!H', 1) + bytes(int(x) for x in admin.split('.')) + struct.pack('!H', assigned)
    if kind == 2:  # 4 octet AS : 2 octet number
        return struct.pack('!HLH', 2, admin, assigned)
    raise ValueError(kind)


# ------------------------------------------------------------------ components


def _prefix_bytes(nbits: int) -> int:
    return (nbits + 7) // 8


def enc_prefix(afi: int, ctype: int, length: int, offset: int, pattern: int) -> bytes:
    nbits = length - offset
    nbytes = _prefix_bytes(nbits)
    raw = (pattern << (8 * nbytes - nbits)).to_bytes(nbytes, 'big') if nbytes else b''
    if afi == AFI_IPV4:
        return bytes([ctype, length]) + raw
    return bytes([ctype, length, offset]) + raw


def enc_op(ctype: int, last: bool, and_bit: int, op_bits: int, value: int, width: int, reserved: int = 0) -> bytes:
    lenbits = {1: 0, 2: 1, 4: 2, 8: 3}[width]
    mask = BIT_OP_MASK if ctype in BITMASK_TYPES else NUM_OP_MASK
    b = (E_BIT if last else 0) | (A_BIT if and_bit else 0) | (lenbits << 4) | (op_bits & mask) | reserved
    return bytes([b]) + value.to_bytes(width, 'big')


def enc_component(afi: int, ctype: int, payload, eol_on_last: bool = True) -> bytes:
    if ctype in PREFIX_TYPES:
        _, length, offset, pattern = payload
        return enc_prefix(afi, ctype, length, offset, pattern)
    out = [bytes([ctype])]
    n = len(payload)
    for i, (and_bit, op_bits, value, width) in enumerate(payload):
        out.append(enc_op(ctype, eol_on_last and i == n - 1, and_bit, op_bits, value, width))
    return b''.join(out)


def enc_body(rule: dict) -> bytes:
    """the NLRI value (RD + components, in the order given), without the length"""
    out = []
    if rule['safi'] == SAFI_FLOW_VPN:
        out.append(rule['rd'])
    for ctype, payload in rule['comps']:
        out.append(enc_component(rule['afi'], ctype, payload))
    return b''.join(out)


def enc_nlri(rule: dict) -> bytes:
    body = enc_body(rule)
    return enc_length(len(body)) + body


def canonical(rule: dict) -> dict:
    """the encoding the RFC asks a sender for: ascending order, shortest allowed width"""
    comps = []
    for ctype, payload in sorted(rule['comps'], key=lambda c: c[0]):
        if ctype in PREFIX_TYPES:
            comps.append((ctype, tuple(payload)))
        else:
            ops = []
            for i, (a, o, v, _w) in enumerate(payload):
                ops.append((0 if i == 0 else a, o, v, min_send_width(ctype, v)))
            comps.append((ctype, ops))
    return {'afi': rule['afi'], 'safi': rule['safi'], 'rd': rule.get('rd'), 'comps': comps}


# ------------------------------------------------------------------ decoding


def dec_body(afi: int, safi: int, body: bytes) -> dict:
    notes = []
    pos = 0
    end = len(body)
    rd = None
    if safi == SAFI_FLOW_VPN:
        if end < 8:
            raise RefFlowError('rd-truncated', f'{end} octets cannot hold a route distinguisher', 0)
        rd = bytes(body[:8])
        pos = 8
    comps = []
    last_type = 0
    known = defined_types(afi)
    while pos < end:
        ctype = body[pos]
        if ctype not in known:
            raise RefFlowError('undefined-type', f'component type {ctype} is not defined for afi {afi}', pos, comps)
        if ctype == last_type:
            raise RefFlowError('duplicate', f'component type {ctype} twice', pos, comps)
        if ctype < last_type:
            raise RefFlowError('order', f'component type {ctype} after {last_type}', pos, comps)
        pos += 1
        if ctype in PREFIX_TYPES:
            if pos >= end:
                raise RefFlowError('truncated', 'prefix length missing', pos, comps, (ctype, []))
            length = body[pos]
            pos += 1
            offset = 0
            if afi == AFI_IPV6:
                if pos >= end:
                    raise RefFlowError('truncated', 'prefix offset missing', pos, comps, (ctype, []))
                offset = body[pos]
                pos += 1
                if not (length == 0 and offset == 0) and not (offset < length < 129):
                    raise RefFlowError('prefix-length', f'length {length} offset {offset}', pos, comps, (ctype, []))
            elif length > 32:
                raise RefFlowError('prefix-length', f'length {length}', pos, comps, (ctype, []))
            nbits = length - offset
            nbytes = _prefix_bytes(nbits)
            if pos + nbytes > end:
                raise RefFlowError('truncated', f'prefix needs {nbytes} octets, {end - pos} left', pos, comps, (ctype, []))
            raw = int.from_bytes(body[pos : pos + nbytes], 'big') if nbytes else 0
            pad = 8 * nbytes - nbits
            if pad and raw & ((1 << pad) - 1):
                notes.append('padding-not-zero')
            pos += nbytes
            comps.append((ctype, ('prefix', length, offset, raw >> pad)))
        else:
            ops = []
            mask, reserved = (BIT_OP_MASK, BIT_RESERVED) if ctype in BITMASK_TYPES else (NUM_OP_MASK, NUM_RESERVED)
            while True:
                if pos >= end:
                    raise RefFlowError('missing-eol', f'component {ctype} has no end-of-list operator', pos, comps, (ctype, ops))
                b = body[pos]
                pos += 1
                width = 1 << ((b & LEN_MASK) >> 4)
                if pos + width > end:
                    raise RefFlowError('truncated', f'component {ctype}: {width} octet value, {end - pos} left', pos, comps, (ctype, ops))
                value = int.from_bytes(body[pos : pos + width], 'big')
                pos += width
                and_bit = 1 if b & A_BIT else 0
                if not ops and and_bit:
                    notes.append('first-and-set')
                    and_bit = 0
                if b & reserved:
                    notes.append('reserved-bits-set')
                ops.append((and_bit, b & mask, value, width))
                if b & E_BIT:
                    break
            comps.append((ctype, ops))
        last_type = ctype
    return {'afi': afi, 'safi': safi, 'rd': rd, 'comps': comps, 'notes': notes}


def dec_nlri(afi: int, safi: int, data: bytes) -> tuple:
    """-> (rule, rest). rule['length_form'] is 1 or 2 (octets used by the length)."""
    length, hdr = dec_length(data)
    if hdr + length > len(data):
        raise RefFlowError('length-overrun', f'length {length}, {len(data) - hdr} octets available', hdr)
    rule = dec_body(afi, safi, bytes(data[hdr : hdr + length]))
    rule['length'] = length
    rule['length_form'] = hdr
    return rule, bytes(data[hdr + length :])


def same_rule(a: dict, b: dict, widths: bool = False) -> bool:
    return rule_key(a, widths) == rule_key(b, widths)


def rule_key(rule: dict, widths: bool = False):
    comps = []
    for ctype, payload in rule['comps']:
        if ctype in PREFIX_TYPES:
            comps.append((ctype, tuple(payload)))
        else:
            comps.append((ctype, tuple((a, o, v, w) if widths else (a, o, v) for a, o, v, w in payload)))
    return (rule['afi'], rule['safi'], rule.get('rd'), tuple(comps))


# ------------------------------------------------------------------ text rendering of operators (for witnesses)

NUM_OP_TEXT = {0: 'false', 1: '=', 2: '>', 3: '>=', 4: '<', 5: '<=', 6: '!=', 7: 'true'}
BIT_OP_TEXT = {0: '', 1: '=', 2: '!', 3: '!='}


# ------------------------------------------------------------------ traffic actions (RFC 8955 7, RFC 8956 6, RFC 7674)
#
# 0x8006 traffic-rate-bytes   : 2 octet AS (informational), 4 octet IEEE 754 float, bytes per second
# 0x800c traffic-rate-packets : same layout, packets per second
# 0x8007 traffic-action       : 6 octet bitmask, bit 47 (least significant) Terminal, bit 46 Sample
# 0x8008 rt-redirect AS-2     : 2 octet AS, 4 octet value
# 0x8108 rt-redirect IPv4     : 4 octet IPv4, 2 octet value
# 0x8208 rt-redirect AS-4     : 4 octet AS, 2 octet value
# 0x8009 traffic-marking      : 5 zero octets, then 2 zero bits and the 6 bit DSCP
# 0x0800 redirect to next hop : draft-simpson-idr-flowspec-redirect, 6 octets, least significant bit = copy
# 0x010c redirect to IPv4     : draft-ietf-idr-flowspec-redirect-ip, 4 octet address, 2 octets, lsb = copy


def act_rate_bytes(rate: float, asn: int = 0) -> bytes:
    return struct.pack('!BBHf', 0x80, 0x06, asn, rate)


def act_rate_packets(rate: float, asn: int = 0) -> bytes:
    return struct.pack('!BBHf', 0x80, 0x0C, asn, rate)


def act_action(sample: bool, terminal: bool) -> bytes:
    return bytes([0x80, 0x07, 0, 0, 0, 0, 0, (0x02 if sample else 0) | (0x01 if terminal else 0)])


def act_redirect_as2(asn: int, value: int) -> bytes:
    return struct.pack('!BBHL', 0x80, 0x08, asn, value)


def act_redirect_ip4(ip: str, value: int) -> bytes:
    return bytes([0x81, 0x08]) + bytes(int(x) for x in ip.split('.')) + struct.pack('!H', value)


def act_redirect_as4(asn: int, value: int) -> bytes:
    return struct.pack('!BBLH', 0x82, 0x08, asn, value)


def act_mark(dscp: int) -> bytes:
    return bytes([0x80, 0x09, 0, 0, 0, 0, 0, dscp & 0x3F])


def act_nexthop(copy: bool) -> bytes:
    return bytes([0x08, 0x00, 0, 0, 0, 0, 0, 1 if copy else 0])


def act_nexthop_ietf4(ip: str, copy: bool) -> bytes:
    return bytes([0x01, 0x0C]) + bytes(int(x) for x in ip.split('.')) + bytes([0, 1 if copy else 0])


def dec_path_attribute(data: bytes) -> tuple:
    """one path attribute -> (flags, code, value, rest) (RFC 4271 4.3)"""
    if len(data) < 3:
        raise RefFlowError('truncated', 'attribute header')
    flags, code = data[0], data[1]
    if flags & 0x10:
        if len(data) < 4:
            raise RefFlowError('truncated', 'attribute extended length')
        n = (data[2] << 8) | data[3]
        hdr = 4
    else:
        n = data[2]
        hdr = 3
    if hdr + n > len(data):
        raise RefFlowError('truncated', 'attribute value')
    return flags, code, bytes(data[hdr : hdr + n]), bytes(data[hdr + n :])


def dec_extended_communities(data: bytes) -> list:
    """EXTENDED COMMUNITIES attribute (code 16, RFC 4360) bytes incl. header -> list of 8 octet values"""
    flags, code, value, rest = dec_path_attribute(data)
    if code != 16 or rest or len(value) % 8:
        raise RefFlowError('truncated', f'not one extended communities attribute (code {code}, {len(value)} octets)')
    return [value[i : i + 8] for i in range(0, len(value), 8)]
