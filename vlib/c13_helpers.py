"""c13_helpers - input builders, canaries, sensors and the independent oracles of C13.

Nothing here computes an expected value with ExaBGP code: the oracles are the JSON grammar (json.loads with a
duplicate-key rejecting hook, in vlib.norm), an envelope schema written from the documented event layout,
line / character rules for the text encoders, and a shape comparison (non-interference).
"""

from __future__ import annotations

import re
import struct
import sys
import types

from vlib import refwire as rw

# ------------------------------------------------------------------------------------------------ canaries

BENIGN = b'benign'

CANARIES: list[tuple[str, bytes]] = [
    ('json-key-forge', b'", "forged": "x'),
    ('json-object-forge', b'"}, {"a":"b'),
    ('json-close-all', b'"}}}}\n{"forged":"x'),
    ('newline-event', b'a\nneighbor 9.9.9.9 down'),
    ('crlf-event', b'a\r\nneighbor 9.9.9.9 down - forged'),
    ('cr', b'a\rneighbor 9.9.9.9 up'),
    ('tab', b'a\tb'),
    ('nul', b'a\x00b'),
    ('del', b'a\x7fb'),
    ('esc', b'a\x1b[31mb'),
    ('vt-ff', b'a\x0bb\x0cc'),
    ('u2028', 'a\u2028neighbor 9.9.9.9 down'.encode()),
    ('u2029', 'a\u2029neighbor 9.9.9.9 down'.encode()),
    ('nel', 'a\u0085neighbor 9.9.9.9 down'.encode()),
    ('lone-surrogate', b'a\xed\xa0\x80b'),
    ('bad-utf8-c328', b'a\xc3\x28b'),
    ('bad-utf8-fffe', b'a\xff\xfeb'),
    ('long', b'A' * 4000),
    ('long-quotes', b'"\\' * 2000),
    ('backslash-quote', b'a\\"b\\'),
    ('trailing-backslash', b'ab\\'),
    ('literal-u0000', b'a\\u0000b'),
    ('latin1-printable', 'héllo wörld'.encode()),
    ('cjk-emoji', '東京\U0001f600'.encode()),
    ('text-structure', b'x) forged(y), software(z'),
    ('bracket-structure', b'x ] next-hop 9.9.9.9 [ y'),
    ('empty', b''),
]
# tokens which must never become a key / a line prefix
MARKERS = ('forged', '9.9.9.9')


# ------------------------------------------------------------------------------------------------ shape


def shape(obj):
    """structure of a parsed JSON value: key paths, value types, list lengths (strings and numbers are opaque)"""
    if isinstance(obj, dict):
        return ('obj', tuple(sorted((k, shape(v)) for k, v in obj.items())))
    if isinstance(obj, list):
        return ('list', tuple(shape(v) for v in obj))
    if isinstance(obj, bool):
        return 'bool'
    if isinstance(obj, (int, float)):
        return 'num'
    if obj is None:
        return 'null'
    return 'str'


def key_paths(obj, prefix=''):
    out = set()
    if isinstance(obj, dict):
        for k, v in obj.items():
            out.add(f'{prefix}/{k}')
            out |= key_paths(v, f'{prefix}/{k}')
    elif isinstance(obj, list):
        for i, v in enumerate(obj):
            out |= key_paths(v, f'{prefix}[{i}]')
    return out


def all_keys(obj):
    if isinstance(obj, dict):
        for k, v in obj.items():
            yield k
            yield from all_keys(v)
    elif isinstance(obj, list):
        for v in obj:
            yield from all_keys(v)


def strings_with(obj, token):
    n = 0
    if isinstance(obj, dict):
        for v in obj.values():
            n += strings_with(v, token)
    elif isinstance(obj, list):
        for v in obj:
            n += strings_with(v, token)
    elif isinstance(obj, str) and token in obj:
        n += 1
    return n


def shape_effect(base, variant) -> str:
    """which kind of interference two parsed events show"""
    kb, kv = key_paths(base), key_paths(variant)
    if kv - kb:
        return 'key-added'
    if kb - kv:
        return 'key-removed'
    return 'value-split'


# ------------------------------------------------------------------------------------------------ envelope

NUM = (int, float)


def _typed(obj, key, typ, errs, where=''):
    if not isinstance(obj, dict) or key not in obj:
        errs.append(f'missing:{where}{key}')
        return None
    v = obj[key]
    if isinstance(v, bool) or not isinstance(v, typ):
        errs.append(f'mistyped:{where}{key}')
        return None
    return v


def envelope_errors(ev, version: str, etype: str, neighbor_event: bool, direction: str | None, peer_ip: str, local_ip: str, las: int, pas: int, header: bool, body: bool, content_key: str | None):
    """-> list of structural error names (empty = documented envelope present and typed)

    Layout documented by reactor/api/response/json.py (_header/_neighbor) and doc: every event is one object with
    exabgp (version string), time (number), host, pid, ppid, type; events about a neighbor add counter and
    neighbor { address { local, peer }, asn { local, peer }, [router-id] }, message events add direction, and
    header/body (hex strings) when raw packets are requested.
    """
    errs: list[str] = []
    if not isinstance(ev, dict):
        return ['not-an-object']
    v = _typed(ev, 'exabgp', str, errs)
    if v is not None and v != version:
        errs.append('value:exabgp')
    _typed(ev, 'time', NUM, errs)
    _typed(ev, 'host', str, errs)
    _typed(ev, 'pid', int, errs)
    _typed(ev, 'ppid', int, errs)
    t = _typed(ev, 'type', str, errs)
    if t is not None and t != etype:
        errs.append('value:type')
    if header:
        _typed(ev, 'header', str, errs)
    if body:
        _typed(ev, 'body', str, errs)
    if not neighbor_event:
        if content_key and content_key not in ev:
            errs.append(f'missing:{content_key}')
        return errs
    _typed(ev, 'counter', int, errs)
    nb = _typed(ev, 'neighbor', dict, errs)
    if nb is None:
        return errs
    addr = _typed(nb, 'address', dict, errs, 'neighbor.')
    if addr is not None:
        lo = _typed(addr, 'local', str, errs, 'neighbor.address.')
        pe = _typed(addr, 'peer', str, errs, 'neighbor.address.')
        if lo is not None and lo != local_ip:
            errs.append('value:neighbor.address.local')
        if pe is not None and pe != peer_ip:
            errs.append('value:neighbor.address.peer')
    asn = _typed(nb, 'asn', dict, errs, 'neighbor.')
    if asn is not None:
        lo = _typed(asn, 'local', int, errs, 'neighbor.asn.')
        pe = _typed(asn, 'peer', int, errs, 'neighbor.asn.')
        if lo is not None and lo != las:
            errs.append('value:neighbor.asn.local')
        if pe is not None and pe != pas:
            errs.append('value:neighbor.asn.peer')
    if direction:
        d = _typed(nb, 'direction', str, errs, 'neighbor.')
        if d is not None and d != direction:
            errs.append('value:neighbor.direction')
    elif 'direction' in nb:
        errs.append('unexpected:neighbor.direction')
    if content_key and content_key not in nb:
        errs.append(f'missing:neighbor.{content_key}')
    return errs


# ------------------------------------------------------------------------------------------------ text rules

RAW_LINE = re.compile(r'^ header 0x[0-9A-Fa-f]*( body 0x[0-9A-Fa-f]*)?$|^ body 0x[0-9A-Fa-f]*$')


def split_record(data: bytes):
    """queued bytes of one text event -> (lines, trailing_blank, problems)

    Processes.write appends one '\\n' to what the encoder returned; the encoders end their own lines with '\\n',
    so a record normally ends with one empty line (long standing wire format of the text API, tolerated and
    counted).  Anything else empty, or a missing terminator, is a problem.
    """
    problems = []
    if not data.endswith(b'\n'):
        problems.append('unterminated')
    parts = data.split(b'\n')
    if parts and parts[-1] == b'':
        parts.pop()
    blank = 0
    if parts and parts[-1] == b'':
        parts.pop()
        blank = 1
    if any(p == b'' for p in parts):
        problems.append('empty-line-inside')
    return parts, blank, problems


def control_bytes(line: bytes):
    return sorted({b for b in line if b < 0x20 or b == 0x7F or b >= 0x80})


def line_prefix(line: str, ntok: int) -> str:
    return ' '.join(line.split(' ')[:ntok])


# ------------------------------------------------------------------------------------------------ reach sensor

WATCHED_NAMES = {'json', '__str__', 'extensive', '_generate_json', '_generate_text', 'v4_json'}
TOOL = 4


class ReachSet:
    """which rendering functions under exabgp.bgp.message were entered (sys.monitoring, PY_START, disabled per code
    object after the first hit so the sensor costs one callback per function)"""

    def __init__(self) -> None:
        self.universe: dict = {}
        self.entered: set[str] = set()

    def discover(self) -> None:
        import importlib
        import inspect
        import pkgutil

        import exabgp.bgp.message as M

        base = 'exabgp.bgp.message.'
        for mi in pkgutil.walk_packages(M.__path__, base):
            try:
                mod = importlib.import_module(mi.name)
            except Exception:  # noqa
                continue
            for cls in list(vars(mod).values()):
                if not (inspect.isclass(cls) and cls.__module__ == mod.__name__):
                    continue
                stack = [cls]
                seen = set()
                while stack:
                    c = stack.pop()
                    if id(c) in seen:
                        continue
                    seen.add(id(c))
                    for k, v in list(vars(c).items()):
                        if inspect.isclass(v) and v.__module__ == mod.__name__ and v.__qualname__.startswith(c.__qualname__ + '.'):
                            stack.append(v)
                        f = v.__func__ if isinstance(v, (classmethod, staticmethod)) else v
                        if isinstance(f, types.FunctionType) and k in WATCHED_NAMES:
                            self.universe[f.__code__] = f'{mod.__name__[len(base):]}:{f.__qualname__}'

    def _start(self, code, offset):
        name = self.universe.get(code)
        if name is not None:
            self.entered.add(name)
        return sys.monitoring.DISABLE

    def install(self) -> None:
        m = sys.monitoring
        try:
            m.use_tool_id(TOOL, 'verif-c13-reach')
        except ValueError:
            pass
        m.register_callback(TOOL, m.events.PY_START, self._start)
        m.set_events(TOOL, m.events.PY_START)

    def stop(self) -> None:
        sys.monitoring.set_events(TOOL, 0)


# ------------------------------------------------------------------------------------------------ builders

OPEN, UPDATE, NOTIFICATION, KEEPALIVE, REFRESH, OPERATIONAL = 1, 2, 3, 4, 5, 6
TNAME = {1: 'open', 2: 'update', 3: 'notification', 4: 'keepalive', 5: 'refresh', 6: 'operational'}


def open_body(caps, asn=65001, hold=90, rid='10.0.0.2'):
    caps = [rw.cap_mp(1, 1), rw.cap_mp(2, 1), rw.cap_asn4(asn)] + list(caps)
    size = sum(4 + len(v) for _, v in caps)
    return rw.enc_open_body(asn if asn < 65536 else rw.AS_TRANS, hold, rid, caps, extended=size > 250)


def base_attrs(asn4=True):
    return rw.enc_attr(0x40, 1, b'\0') + rw.enc_attr(0x40, 2, rw.v_aspath([(2, [65001])], asn4)) + rw.enc_attr(0x40, 3, bytes([192, 0, 2, 1]))


def update_with(attr_tlvs: bytes, asn4=True, nlri=bytes([24, 10, 0, 0])):
    return rw.enc_update_body(b'', base_attrs(asn4) + attr_tlvs, nlri)


def tlv16(t, v):
    return struct.pack('!HH', t, len(v)) + v


def tlv8_16(t, v):
    return bytes([t]) + struct.pack('!H', len(v)) + v


def subtlv_tunnel(t, v):
    if t < 128:
        return bytes([t, len(v)]) + v
    return bytes([t]) + struct.pack('!H', len(v)) + v


SID = bytes.fromhex('20010db8000100000000000000000001')


def srv6_sidinfo(subsub: bytes) -> bytes:
    # reserved(1) sid(16) flags(1) behavior(2) reserved(1) + sub-sub-TLVs
    return tlv8_16(1, b'\0' + SID + b'\0' + struct.pack('!H', 0x13) + b'\0' + subsub)


def srv6_service(tlv: int, subtlvs: bytes) -> bytes:
    return tlv8_16(tlv, b'\0' + subtlvs)


SID_STRUCTURE = tlv8_16(1, bytes([40, 24, 16, 0, 16, 64]))


def operational(what: int, payload: bytes) -> bytes:
    return struct.pack('!HH', what, len(payload)) + payload


def _cap(n):
    return lambda p: p[:n]


# name -> (message type, max payload, builder(payload)->body)
def XA(flags, code, value):
    # extended length always: the flag octet (part of the JSON key of an unknown attribute) must not depend on the payload
    return rw.enc_attr(flags, code, value, True)


FIELDS: dict[str, tuple[int, int, object]] = {
    'open:hostname': (OPEN, 240, lambda p: open_body([rw.cap_hostname(p, b'example.net')])),
    'open:domainname': (OPEN, 240, lambda p: open_body([rw.cap_hostname(b'router', p)])),
    'open:software': (OPEN, 254, lambda p: open_body([(75, bytes([len(p)]) + p)])),
    'open:unknown-capability': (OPEN, 255, lambda p: open_body([(200, p)])),
    'notification:shutdown-communication': (NOTIFICATION, 255, lambda p: bytes([6, 2, len(p)]) + p),
    'notification:reset-communication': (NOTIFICATION, 255, lambda p: bytes([6, 4, len(p)]) + p),
    'notification:shutdown-short-communication': (NOTIFICATION, 120, lambda p: bytes([6, 2, len(p)]) + p),
    'notification:shutdown-trailing-data': (NOTIFICATION, 3000, lambda p: bytes([6, 2, 3]) + b'abc' + p),
    'notification:shutdown-underrun': (NOTIFICATION, 100, lambda p: bytes([6, 2, 200]) + p),
    'notification:data-update-error': (NOTIFICATION, 3000, lambda p: bytes([3, 1]) + p),
    'notification:data-unknown-code': (NOTIFICATION, 3000, lambda p: bytes([9, 9]) + p),
    'operational:adm-advisory': (OPERATIONAL, 3000, lambda p: operational(1, struct.pack('!HB', 1, 1) + p)),
    'operational:asm-advisory': (OPERATIONAL, 3000, lambda p: operational(2, struct.pack('!HB', 2, 1) + p)),
    'operational:unknown-type-data': (OPERATIONAL, 3000, lambda p: operational(0x99, p)),
    'update:unknown-attribute': (UPDATE, 3000, lambda p: update_with(XA(0xC0, 99, p))),
    'update:unknown-attribute-nontransitive': (UPDATE, 3000, lambda p: update_with(XA(0x80, 150, p))),
    'update:unknown-attribute-partial': (UPDATE, 3000, lambda p: update_with(XA(0xE0, 254, p))),
    'update:bgpls-node-name': (UPDATE, 255, lambda p: update_with(XA(0x80, 29, tlv16(1026, p)))),
    'update:bgpls-link-name': (UPDATE, 255, lambda p: update_with(XA(0x80, 29, tlv16(1098, p)))),
    'update:bgpls-node-opaque': (UPDATE, 3000, lambda p: update_with(XA(0x80, 29, tlv16(1025, p)))),
    'update:bgpls-link-opaque': (UPDATE, 3000, lambda p: update_with(XA(0x80, 29, tlv16(1097, p)))),
    'update:bgpls-prefix-opaque': (UPDATE, 3000, lambda p: update_with(XA(0x80, 29, tlv16(1157, p)))),
    'update:bgpls-unknown-tlv': (UPDATE, 3000, lambda p: update_with(XA(0x80, 29, tlv16(9999, p)))),
    'update:bgpls-names-together': (UPDATE, 255, lambda p: update_with(XA(0x80, 29, tlv16(1026, p) + tlv16(1098, p) + tlv16(1025, p) + tlv16(9999, p)))),
    'update:prefixsid-unknown-tlv': (UPDATE, 3000, lambda p: update_with(XA(0xC0, 40, tlv8_16(77, p)))),
    'update:srv6-l3-unknown-subtlv': (UPDATE, 3000, lambda p: update_with(XA(0xC0, 40, srv6_service(5, tlv8_16(9, p))))),
    'update:srv6-l2-unknown-subtlv': (UPDATE, 3000, lambda p: update_with(XA(0xC0, 40, srv6_service(6, tlv8_16(9, p))))),
    'update:srv6-sid-unknown-subsubtlv': (UPDATE, 3000, lambda p: update_with(XA(0xC0, 40, srv6_service(5, srv6_sidinfo(SID_STRUCTURE + tlv8_16(9, p)))))),
    'update:tunnel-unknown-type': (UPDATE, 3000, lambda p: update_with(XA(0xC0, 23, tlv16(999, p)))),
    'update:srpolicy-unknown-subtlv': (UPDATE, 255, lambda p: update_with(XA(0xC0, 23, tlv16(15, subtlv_tunnel(77, p))))),
    'update:srpolicy-unknown-long-subtlv': (UPDATE, 3000, lambda p: update_with(XA(0xC0, 23, tlv16(15, subtlv_tunnel(200, p))))),
    'update:srpolicy-policy-name': (UPDATE, 3000, lambda p: update_with(XA(0xC0, 23, tlv16(15, subtlv_tunnel(130, b'\0' + p))))),
    'update:srpolicy-candidate-path-name': (UPDATE, 3000, lambda p: update_with(XA(0xC0, 23, tlv16(15, subtlv_tunnel(129, b'\0' + p))))),
    'update:extcommunity-opaque': (UPDATE, 6, lambda p: update_with(XA(0xC0, 16, bytes([0x43, 0x99]) + p.ljust(6, b'\0')))),
    'update:pmsi-unknown-tunnel-id': (UPDATE, 200, lambda p: update_with(XA(0xC0, 22, bytes([0, 99, 0, 0, 0]) + p))),
    'update:aigp-unknown-tlv': (UPDATE, 200, lambda p: update_with(XA(0x80, 26, bytes([1]) + struct.pack('!HQ', 11, 7) + bytes([9]) + struct.pack('!H', 3 + len(p)) + p))),
}


def build_field(name: str, payload: bytes):
    mtype, maxlen, fn = FIELDS[name]
    return mtype, fn(payload[:maxlen])


def repeated_cases() -> list[tuple[str, int, bytes]]:
    """RFC-shaped messages whose elements repeat (same TLV / sub-TLV / capability / attribute more than once)"""
    out = []
    A = rw.enc_attr
    # tunnel encapsulation: RFC 9012 3.1 allows several TLVs of the same tunnel type
    out.append(('update:tunnel-same-type-twice', UPDATE, update_with(A(0xC0, 23, tlv16(999, b'\1\2') + tlv16(999, b'\3\4')))))
    out.append(('update:tunnel-two-known-types', UPDATE, update_with(A(0xC0, 23, tlv16(8, subtlv_tunnel(77, b'\1')) + tlv16(8, subtlv_tunnel(77, b'\2'))))))
    out.append(('update:srpolicy-two-tunnels', UPDATE, update_with(A(0xC0, 23, tlv16(15, subtlv_tunnel(12, b'\0\0' + struct.pack('!L', 100))) + tlv16(15, subtlv_tunnel(12, b'\0\0' + struct.pack('!L', 200)))))))
    out.append(('update:srpolicy-preference-twice', UPDATE, update_with(A(0xC0, 23, tlv16(15, subtlv_tunnel(12, b'\0\0' + struct.pack('!L', 100)) * 2)))))
    out.append(('update:srpolicy-unknown-subtlv-twice', UPDATE, update_with(A(0xC0, 23, tlv16(15, subtlv_tunnel(77, b'\1') + subtlv_tunnel(77, b'\2'))))))
    out.append(('update:srpolicy-name-twice', UPDATE, update_with(A(0xC0, 23, tlv16(15, subtlv_tunnel(130, b'\0one') + subtlv_tunnel(130, b'\0two'))))))
    out.append(('update:srpolicy-cpname-twice', UPDATE, update_with(A(0xC0, 23, tlv16(15, subtlv_tunnel(129, b'\0one') + subtlv_tunnel(129, b'\0two'))))))
    out.append(('update:srpolicy-priority-twice', UPDATE, update_with(A(0xC0, 23, tlv16(15, subtlv_tunnel(15, b'\5\0') * 2)))))
    out.append(('update:srpolicy-bsid-twice', UPDATE, update_with(A(0xC0, 23, tlv16(15, subtlv_tunnel(13, b'\0\0' + struct.pack('!L', 1000 << 12)) * 2)))))
    seg = subtlv_tunnel(128, b'\0' + subtlv_tunnel(9, b'\0\0\0\0') + subtlv_tunnel(1, b'\0\0' + struct.pack('!L', 16 << 12)))
    out.append(('update:srpolicy-two-segment-lists', UPDATE, update_with(A(0xC0, 23, tlv16(15, seg + seg)))))
    seg2 = subtlv_tunnel(128, b'\0' + subtlv_tunnel(9, b'\0\0\0\1') + subtlv_tunnel(9, b'\0\0\0\2') + subtlv_tunnel(1, b'\0\0' + struct.pack('!L', 16 << 12)) * 2)
    out.append(('update:srpolicy-weight-twice', UPDATE, update_with(A(0xC0, 23, tlv16(15, seg2)))))
    seg3 = subtlv_tunnel(128, b'\0' + subtlv_tunnel(99, b'\1\2') + subtlv_tunnel(99, b'\3\4'))
    out.append(('update:srpolicy-segment-unknown-twice', UPDATE, update_with(A(0xC0, 23, tlv16(15, seg3)))))
    # prefix-SID
    out.append(('update:prefixsid-unknown-tlv-twice', UPDATE, update_with(A(0xC0, 40, tlv8_16(77, b'\1') + tlv8_16(77, b'\2')))))
    li = tlv8_16(1, b'\0\0\0' + struct.pack('!L', 5))
    out.append(('update:prefixsid-label-index-twice', UPDATE, update_with(A(0xC0, 40, li + li))))
    srgb = tlv8_16(3, b'\0\0' + (16000).to_bytes(3, 'big') + (8000).to_bytes(3, 'big'))
    out.append(('update:prefixsid-srgb-twice', UPDATE, update_with(A(0xC0, 40, li + srgb + srgb))))
    l3 = srv6_service(5, srv6_sidinfo(SID_STRUCTURE))
    out.append(('update:srv6-l3-service', UPDATE, update_with(A(0xC0, 40, l3))))
    out.append(('update:srv6-l3-service-twice', UPDATE, update_with(A(0xC0, 40, l3 + l3))))
    out.append(('update:srv6-l2-service-twice', UPDATE, update_with(A(0xC0, 40, srv6_service(6, srv6_sidinfo(SID_STRUCTURE)) * 2))))
    out.append(('update:srv6-l2-and-l3', UPDATE, update_with(A(0xC0, 40, l3 + srv6_service(6, srv6_sidinfo(SID_STRUCTURE))))))
    out.append(('update:srv6-two-sid-information', UPDATE, update_with(A(0xC0, 40, srv6_service(5, srv6_sidinfo(SID_STRUCTURE) + srv6_sidinfo(b''))))))
    out.append(('update:srv6-sid-structure-twice', UPDATE, update_with(A(0xC0, 40, srv6_service(5, srv6_sidinfo(SID_STRUCTURE + SID_STRUCTURE))))))
    out.append(('update:srv6-unknown-subsubtlv', UPDATE, update_with(A(0xC0, 40, srv6_service(5, srv6_sidinfo(tlv8_16(9, b'\1\2')))))))
    out.append(('update:srv6-unknown-subsubtlv-twice', UPDATE, update_with(A(0xC0, 40, srv6_service(5, srv6_sidinfo(tlv8_16(9, b'\1') + tlv8_16(9, b'\2')))))))
    out.append(('update:srv6-unknown-subtlv-twice', UPDATE, update_with(A(0xC0, 40, srv6_service(5, tlv8_16(9, b'\1') + tlv8_16(9, b'\2'))))))
    # BGP-LS attribute on a plain route (dispatched by code)
    out.append(('update:bgpls-unknown-tlv-twice', UPDATE, update_with(A(0x80, 29, tlv16(9999, b'\1') + tlv16(9999, b'\2')))))
    out.append(('update:bgpls-two-unknown-tlvs', UPDATE, update_with(A(0x80, 29, tlv16(9999, b'\1') + tlv16(9998, b'\2')))))
    out.append(('update:bgpls-node-name-twice', UPDATE, update_with(A(0x80, 29, tlv16(1026, b'one') + tlv16(1026, b'two')))))
    out.append(('update:bgpls-router-id-v4-v6', UPDATE, update_with(A(0x80, 29, tlv16(1028, bytes([10, 0, 0, 1])) + tlv16(1029, SID) + tlv16(1028, bytes([10, 0, 0, 2]))))))
    out.append(('update:bgpls-srlg-adjsid-repeated', UPDATE, update_with(A(0x80, 29, tlv16(1099, b'\x30\0\0\0' + b'\x00\x03\xe8') * 2 + tlv16(1096, struct.pack('!LL', 1, 2))))))
    # the same attribute code twice, AGGREGATOR + AS4_AGGREGATOR, communities of every kind
    out.append(('update:unknown-attribute-twice', UPDATE, update_with(A(0xC0, 99, b'\1') + A(0xC0, 99, b'\2'))))
    out.append(('update:aggregator-and-as4-aggregator', UPDATE, update_with(A(0xC0, 7, struct.pack('!H', 23456) + bytes([192, 0, 2, 200])) + A(0xC0, 18, struct.pack('!L', 70000) + bytes([192, 0, 2, 200])), asn4=False)))
    # a NEW (4-byte) speaker has no reason to send AS4_AGGREGATOR next to its 8 octet AGGREGATOR, nothing stops it either (RFC 6793 6)
    out.append(('update:aggregator8-and-as4-aggregator', UPDATE, update_with(A(0xC0, 7, struct.pack('!L', 65001) + bytes([192, 0, 2, 200])) + A(0xC0, 18, struct.pack('!L', 4200000000) + bytes([192, 0, 2, 201])))))
    out.append(('update:aspath4-and-as4-path', UPDATE, update_with(A(0xC0, 17, rw.v_aspath([(2, [70000, 80000])], True)) + A(0xC0, 18, struct.pack('!L', 70000) + bytes([192, 0, 2, 200])))))
    out.append(('update:as4-aggregator-alone', UPDATE, update_with(A(0xC0, 18, struct.pack('!L', 70000) + bytes([192, 0, 2, 200])))))
    out.append(('update:as4-path-on-asn4-session', UPDATE, update_with(A(0xC0, 17, rw.v_aspath([(2, [70000])], True)))))
    out.append(('update:ext-communities-twice', UPDATE, update_with(A(0xC0, 16, bytes([0, 2]) + struct.pack('!HL', 65000, 1)) + A(0xC0, 16, bytes([0, 2]) + struct.pack('!HL', 65000, 2)))))
    out.append(('update:traffic-rate-nan', UPDATE, update_with(A(0xC0, 16, bytes([0x80, 6, 0, 0]) + bytes.fromhex('7fc00000') + bytes([0x80, 6, 0, 0]) + bytes.fromhex('7f800000') + bytes([0x80, 6, 0, 0]) + bytes.fromhex('ff800000')))))
    out.append(('update:ipv6-ext-community', UPDATE, update_with(A(0xC0, 25, bytes([0, 2]) + SID + b'\0\1'))))
    out.append(('update:pmsi', UPDATE, update_with(A(0xC0, 22, bytes([0, 6, 0, 0, 0]) + bytes([10, 0, 0, 1])))))
    out.append(('update:aigp', UPDATE, update_with(A(0x80, 26, bytes([1]) + struct.pack('!HQ', 11, 2**64 - 1)))))
    # OPEN: capabilities repeated
    out.append(('open:hostname-twice', OPEN, open_body([rw.cap_hostname(b'one', b'a'), rw.cap_hostname(b'two', b'b')])))
    out.append(('open:unknown-capability-twice', OPEN, open_body([(200, b'\1'), (200, b'\2'), (201, b'')])))
    out.append(('open:mp-same-family-twice', OPEN, open_body([rw.cap_mp(1, 1), rw.cap_mp(1, 1), rw.cap_mp(99, 99)])))
    out.append(('open:addpath-gr-nexthop', OPEN, open_body([rw.cap_addpath([(1, 1, 3), (1, 1, 1), (9, 9, 3)]), rw.cap_gr(8, 120, [(1, 1, 0x80), (1, 1, 0), (9, 9, 0x80)]), rw.cap_nexthop([(1, 1, 2), (1, 1, 2)]), (2, b''), (70, b''), (6, b''), (71, struct.pack('!HBBH', 1, 1, 0x80, 0)[:7])])))
    out.append(('open:software-twice', OPEN, open_body([(75, b'\3abc'), (75, b'\3def')])))
    return out


# ------------------------------------------------------------------------------------------------ sweeps
# candidate messages built around a registry of TLV codes with payload sizes the formats use; whatever the real decoder
# accepts goes through the oracles (the sweep knows nothing about the expected rendering)

LS_CODES = (
    [258, 263, 264, 265, 266]
    + list(range(1024, 1040))
    + list(range(1088, 1101))
    + [1105, 1106, 1107, 1108]
    + list(range(1114, 1123))
    + list(range(1152, 1175))
    + [1250, 1251, 1252, 9999]
)
SIZES = [0, 1, 2, 3, 4, 5, 6, 7, 8, 9, 10, 11, 12, 14, 16, 18, 20, 22, 24, 26, 28, 30, 32, 34, 38, 42, 46, 50, 58, 66]


def loose_bytes(r, n):
    return bytes(r.choice([0, 0, 0, 1, 2, 0x10, 0x80, 0xC0, 0xFF, r.getrandbits(8)]) for _ in range(n))


def sweep_update(r):
    """-> (name, UPDATE body) one candidate"""
    A = rw.enc_attr
    t = r.randrange(9)
    if t == 0:
        tl = b''.join(tlv16(r.choice(LS_CODES), loose_bytes(r, r.choice(SIZES))) for _ in range(r.choice([1, 1, 2, 3, 5])))
        return 'sweep-bgpls-attribute', update_with(A(0x80, 29, tl))
    if t == 1:
        # BGP-LS SRv6 End.X style TLVs with sub-TLVs
        code = r.choice([1106, 1107, 1108, 1162, 1038, 1250, 1252, 1099, 1100, 1158, 1034, 1035])
        inner = b''.join(tlv16(r.choice([1252, 1250, 1161, 9, 1]), loose_bytes(r, r.choice([0, 4, 8]))) for _ in range(r.choice([0, 1, 2])))
        base = loose_bytes(r, r.choice([4, 6, 7, 8, 12, 22, 24, 28, 29, 30]))
        return 'sweep-bgpls-srv6', update_with(A(0x80, 29, tlv16(code, base + inner)))
    if t == 2:
        # SR policy segment lists: every segment type with the sizes the RFC gives
        segs = b''
        for _ in range(r.choice([1, 1, 2, 4])):
            st = r.choice([1, 2, 3, 4, 5, 6, 7, 8, 9, 10, 11, 12, 13, 14, 15, 16, 17, 99])
            segs += subtlv_tunnel(st, loose_bytes(r, r.choice([2, 6, 10, 14, 18, 22, 26, 34, 38, 42, 46, 50, 58, 66])))
        sl = subtlv_tunnel(128, b'\0' + segs)
        other = b''
        if r.random() < 0.5:
            other += subtlv_tunnel(r.choice([12, 13, 14, 15, 20, 129, 130, 77]), loose_bytes(r, r.choice([1, 2, 6, 18, 20])))
        return 'sweep-srpolicy-segments', update_with(A(0xC0, 23, tlv16(15, other + sl * r.choice([1, 1, 2]))))
    if t == 3:
        tt = r.choice(list(range(0, 20)) + [999])
        subs = b''.join(subtlv_tunnel(r.choice(list(range(1, 16)) + [128, 129, 130, 200]), loose_bytes(r, r.choice([0, 1, 2, 4, 6, 8, 18]))) for _ in range(r.choice([0, 1, 2, 3])))
        return 'sweep-tunnel-encap', update_with(A(0xC0, 23, tlv16(tt, subs)))
    if t == 4:
        tl = b''
        for _ in range(r.choice([1, 1, 2, 3])):
            code = r.choice([1, 3, 4, 5, 6, 7, 77])
            if code in (5, 6) and r.random() < 0.8:
                subsub = b''.join(tlv8_16(r.choice([1, 1, 2, 9]), loose_bytes(r, r.choice([0, 4, 6, 8]))) for _ in range(r.choice([0, 1, 2])))
                subs = b''.join(r.choice([srv6_sidinfo(subsub), tlv8_16(r.choice([1, 2, 9]), loose_bytes(r, r.choice([0, 4, 21, 30])))]) for _ in range(r.choice([1, 1, 2])))
                tl += srv6_service(code, subs)
            else:
                tl += tlv8_16(code, loose_bytes(r, r.choice([0, 2, 7, 8, 14, 20])))
        return 'sweep-prefix-sid', update_with(A(0xC0, 40, tl))
    if t == 5:
        comms = b''.join(bytes([r.choice([0, 1, 2, 3, 6, 0x40, 0x41, 0x42, 0x43, 0x80, 0x81, 0x82, 0x90, r.getrandbits(8)]), r.choice(list(range(0, 16)) + [0x80, r.getrandbits(8)])]) + loose_bytes(r, 6) for _ in range(r.choice([1, 2, 5])))
        return 'sweep-ext-community', update_with(A(0xC0, 16, comms))
    if t == 6:
        comms = b''.join(bytes([r.choice([0, 0x40, 0x80]), r.choice([2, 3, 0x0B, 0x0C, 0x0D, r.getrandbits(8)])]) + loose_bytes(r, 18) for _ in range(r.choice([1, 2])))
        return 'sweep-ipv6-ext-community', update_with(A(0xC0, 25, comms))
    if t == 7:
        tid = loose_bytes(r, r.choice([0, 4, 8, 9, 12, 17, 24]))
        return 'sweep-pmsi', update_with(A(0xC0, 22, bytes([r.choice([0, 1]), r.choice([0, 1, 2, 3, 4, 5, 6, 7, 8, 9, 10, 11, 99])]) + loose_bytes(r, 3) + tid))
    # several optional attributes of every code at once
    tl = b''
    for code in r.sample([6, 7, 8, 9, 10, 11, 12, 13, 16, 17, 18, 20, 21, 22, 23, 25, 26, 27, 28, 29, 32, 33, 34, 35, 40, 128, 129, 241, 242, 243, 255], r.choice([1, 2, 4])):
        tl += A(r.choice([0xC0, 0x80, 0xC0, 0x40]), code, loose_bytes(r, r.choice([0, 1, 4, 6, 8, 12, 16])))
    return 'sweep-attribute-codes', update_with(tl)


def mp_reach_raw(afi, safi, nh: bytes, nlri: bytes) -> bytes:
    return rw.enc_attr(0x80, 14, struct.pack('!HBB', afi, safi, len(nh)) + nh + b'\0' + nlri, len(nlri) > 200)


def mp_unreach_raw(afi, safi, nlri: bytes) -> bytes:
    return rw.enc_attr(0x80, 15, struct.pack('!HB', afi, safi) + nlri, len(nlri) > 200)


def _rd(r):
    return r.choice([struct.pack('!HHL', 0, 65000, r.randrange(100)), struct.pack('!H', 1) + bytes([192, 0, 2, 1]) + struct.pack('!H', 7), struct.pack('!HLH', 2, 70000, 9)])


def _ip(r):
    return r.choice([b'\x00', b'\x20' + bytes([10, 0, 0, r.randrange(256)]), b'\x80' + SID])


def evpn_route(r) -> bytes:
    t = r.choice([1, 2, 2, 3, 4, 5, 5, 6, 9])
    esi = r.choice([bytes(10), loose_bytes(r, 10)])
    etag = struct.pack('!L', r.choice([0, 1, 2**32 - 1]))
    label = (r.choice([16, 1000, 2**20 - 1]) << 4 | 1).to_bytes(3, 'big')
    if t == 1:
        p = _rd(r) + esi + etag + label
    elif t == 2:
        p = _rd(r) + esi + etag + b'\x30' + loose_bytes(r, 6) + _ip(r) + label + (label if r.random() < 0.3 else b'')
    elif t == 3:
        p = _rd(r) + etag + r.choice([b'\x20' + bytes([10, 0, 0, 1]), b'\x80' + SID])
    elif t == 4:
        p = _rd(r) + esi + r.choice([b'\x20' + bytes([10, 0, 0, 1]), b'\x80' + SID])
    elif t == 5:
        v6 = r.random() < 0.4
        p = _rd(r) + esi + etag + bytes([r.choice([0, 24, 32] if not v6 else [0, 64, 128])]) + (SID + SID if v6 else bytes([10, 1, 2, 0, 10, 0, 0, 254])) + label
    else:
        p = loose_bytes(r, r.choice([0, 4, 12, 25]))
    return bytes([t, len(p)]) + p


def bgpls_nlri(r) -> bytes:
    node = tlv16(256, tlv16(512, struct.pack('!L', 65001)) + tlv16(513, bytes(4)) + r.choice([tlv16(515, bytes([10, 0, 0, 1])), tlv16(515, loose_bytes(r, 6)), tlv16(515, loose_bytes(r, 7)), tlv16(515, bytes([10, 0, 0, 1, 10, 0, 0, 2])), tlv16(514, bytes(4)) + tlv16(515, bytes([10, 0, 0, 1]))]))
    remote = tlv16(257, tlv16(512, struct.pack('!L', 65002)) + tlv16(513, bytes(4)) + tlv16(515, bytes([10, 0, 0, 2])))
    t = r.choice([1, 2, 3, 3, 4, 4, 6, 6, 9])
    proto = bytes([r.choice([1, 2, 3, 4, 5, 6, 7, 99])]) + struct.pack('!Q', r.choice([0, 1, 2**64 - 1]))
    if t == 1:
        body = node
    elif t == 2:
        link = b''.join(
            r.sample(
                [tlv16(258, struct.pack('!LL', 1, 2)), tlv16(259, bytes([10, 0, 0, 1])), tlv16(260, bytes([10, 0, 0, 2])), tlv16(261, SID), tlv16(262, SID), tlv16(263, struct.pack('!H', 2))],
                r.choice([0, 1, 2, 4]),
            )
        )
        body = node + remote + link
    elif t in (3, 4):
        if t == 3:
            reach = tlv16(265, r.choice([bytes([24, 10, 0, 0]), bytes([32, 10, 0, 0, 1]), bytes([0])]))
        else:
            reach = tlv16(265, r.choice([bytes([64]) + SID[:8], bytes([128]) + SID, bytes([0])]))
        pre = b''
        if r.random() < 0.5:
            pre += tlv16(263, struct.pack('!H', r.choice([0, 2, 4095])))
        if r.random() < 0.5:
            pre += tlv16(264, bytes([r.choice([1, 2, 3, 4, 5, 6, 9])]))
        body = node + pre + reach
    elif t == 6:
        body = node + tlv16(518, SID) + (tlv16(263, struct.pack('!H', 2)) if r.random() < 0.3 else b'')
    else:
        body = loose_bytes(r, r.choice([0, 5, 20]))
    return struct.pack('!HH', t, len(proto + body)) + proto + body


def sweep_family(r):
    """-> (name, UPDATE body): EVPN / BGP-LS NLRI built to the sizes the RFCs give, content loose"""
    asn4 = True
    pa = rw.enc_attr(0x40, 1, b'\0') + rw.enc_attr(0x40, 2, rw.v_aspath([(2, [65001])], asn4)) + rw.enc_attr(0x40, 5, struct.pack('!L', 100))
    if r.random() < 0.5:
        nl = b''.join(evpn_route(r) for _ in range(r.choice([1, 1, 2, 4])))
        if r.random() < 0.8:
            return 'sweep-evpn', rw.enc_update_body(b'', pa + mp_reach_raw(25, 70, bytes([10, 0, 0, 9]), nl), b'')
        return 'sweep-evpn-withdraw', rw.enc_update_body(b'', mp_unreach_raw(25, 70, nl), b'')
    vpn = r.random() < 0.25

    def one():
        n = bgpls_nlri(r)
        if not vpn:
            return n
        # BGP-LS VPN (SAFI 72): the route distinguisher follows type and length, which counts it
        t, ln = struct.unpack('!HH', n[:4])
        return struct.pack('!HH', t, ln + 8) + _rd(r) + n[4:]

    nl = b''.join(one() for _ in range(r.choice([1, 1, 2])))
    ls = b''
    if r.random() < 0.5:
        ls = rw.enc_attr(0x80, 29, b''.join(tlv16(r.choice(LS_CODES), loose_bytes(r, r.choice(SIZES))) for _ in range(r.choice([1, 2]))))
    return ('sweep-bgpls-vpn-nlri' if vpn else 'sweep-bgpls-nlri'), rw.enc_update_body(b'', pa + ls + mp_reach_raw(16388, 72 if vpn else 71, bytes([10, 0, 0, 9]), nl), b'')
