"""scen - scenario engine on top of the lab: a JSON case (configuration + scripted remote steps) is played in a
forked child against the real reactor; the child returns a JSON observation record (event log, bytes the remote
received with virtual timestamps, API helper traffic). Monitors are pure functions over records, so a witness
file replays by re-running the same case.
"""

from __future__ import annotations

import asyncio
import os

from vlib import exa
from vlib import lab as L
from vlib import refwire as rw


def config_text(c: dict, port: int, routes=None) -> str:
    """c keys: las, pas, hold, families, passive, gr (None|int), api (bool), adjout (bool), routes (int),
    asn4, extmsg, manual_eor, group_updates, rid, extra_body"""
    fams = c.get('families', [(1, 1)])
    body = ''
    routes = c.get('route_texts')
    if routes is None:
        n = c.get('routes', 0)
        routes = [f'route 10.{(i >> 8) & 255}.{i & 255}.0/24 next-hop 192.0.2.1 med {i % 7};' for i in range(n)]
    if routes:
        body += '    static {\n' + ''.join('        ' + t + '\n' for t in routes) + '    }\n'
    extra = f'    connect {port};\n'
    if c.get('passive'):
        extra += '    passive true;\n'
    else:
        extra += '    passive false;\n'
    if c.get('adjout', True):
        extra += '    adj-rib-out true;\n'
    else:
        extra += '    adj-rib-out false;\n'
    if c.get('adjin'):
        extra += '    adj-rib-in true;\n'
    elif c.get('adjin') is False:
        extra += '    adj-rib-in false;\n'
    if c.get('manual_eor'):
        extra += '    manual-eor true;\n'
    if c.get('group_updates') is False:
        extra += '    group-updates false;\n'
    if c.get('rate_limit'):
        extra += f'    rate-limit {c["rate_limit"]};\n'
    if c.get('api'):
        body += (
            '    api {\n        processes [ helper ];\n        neighbor-changes;\n'
            + ('        receive { parsed; update; notification; open; keepalive; refresh; }\n' if c.get('api_receive') else '')
            + ('        send { parsed; update; }\n' if c.get('api_send') else '')
            + '    }\n'
        )
    body += c.get('extra_body', '')
    text = ''
    if c.get('api'):
        text += 'process helper {\n    run /bin/true;\n    encoder %s;\n}\n' % c.get('encoder', 'json')
    text += exa.neighbor_text(
        peer='127.0.0.1',
        local='127.0.0.1',
        rid=c.get('rid', '10.0.0.1'),
        las=c.get('las', 65000),
        pas=c.get('pas', 65001),
        hold=c.get('hold', 90),
        families=fams,
        asn4=c.get('asn4', True),
        extmsg=c.get('extmsg', False),
        refresh=c.get('refresh', True),
        graceful=c.get('gr'),
        addpath=c.get('addpath', 0),
        addpath_families=c.get('addpath_families'),
        extra=extra,
        body=body,
    )
    return text


def remote_open(c: dict, o: dict | None = None) -> bytes:
    o = o or {}
    pas = o.get('asn', c.get('pas', 65001))
    fams = o.get('families', c.get('families', [(1, 1)]))
    extra = []
    if o.get('addpath'):
        extra.append(rw.cap_addpath([(a, s, o['addpath']) for a, s in fams]))
    if o.get('gr') is not None:
        extra.append(rw.cap_gr(0, o['gr'], [(a, s, 0) for a, s in fams]))
    return L.peer_open(
        pas,
        hold=o.get('hold', c.get('peer_hold', c.get('hold', 90))),
        rid=o.get('rid', '10.0.0.2'),
        families=[tuple(f) for f in fams],
        asn4=o.get('asn4', True),
        refresh=o.get('refresh', True),
        extmsg=o.get('extmsg', c.get('extmsg', False)),
        extra_caps=extra,
    )


async def play(lab: L.Lab, case: dict, port: int, bind_port: int | None, ports: list | None = None) -> dict:
    c = case['config']
    ports = ports or [port]
    cur: L.RemoteSession | None = None
    notes: list = []
    step_times: list = []
    helper = None
    for i, step in enumerate(case['steps']):
        op, args = step[0], step[1:]
        step_times.append(round(lab.clock.now, 4))
        lab.event('step', index=i, op=op)
        if op == 'accept':
            cur = await lab.accept(ports[args[1]] if len(args) > 1 else port, args[0] if args else 30.0)
            if cur is None:
                notes.append((i, 'no-connection'))
                break
        elif op == 'policy':
            lab.accept_policy[port] = args[0]
        elif op == 'connect':
            cur = await lab.connect(bind_port)
            if cur is None:
                notes.append((i, 'connect-failed'))
        elif op == 'sleep':
            await asyncio.sleep(args[0])
        elif op == 'wait_msg':
            ok = await cur.wait_message(args[0], args[1] if len(args) > 1 else 10.0, args[2] if len(args) > 2 else 1) if cur else False
            if not ok:
                notes.append((i, f'no-message-{args[0]}'))
        elif op == 'wait_more':
            # args[2] MORE messages of type args[0] than have been received so far
            base = sum(1 for t, _ in cur.messages()[0] if t == args[0]) if cur else 0
            ok = await cur.wait_message(args[0], args[1], base + args[2]) if cur else False
            if not ok:
                notes.append((i, f'no-more-message-{args[0]}'))
        elif op == 'wait_closed':
            ok = await cur.wait_closed(args[0] if args else 10.0) if cur else False
            if not ok:
                notes.append((i, 'not-closed'))
        elif op == 'wait_quiet':
            # wait until nothing has been received for args[0] virtual seconds (bounded by args[1])
            quiet, bound = args[0], args[1] if len(args) > 1 else 30.0
            end = lab.clock.now + bound
            while lab.clock.now < end and cur is not None:
                last = cur.rx_log[-1][0] if cur.rx_log else 0.0
                if lab.clock.now - last >= quiet or cur.closed:
                    break
                await asyncio.sleep(0.05)
        elif op == 'open':
            if cur:
                await cur.send(remote_open(c, args[0] if args else None))
        elif op == 'ka':
            if cur:
                await cur.send(rw.keepalive())
        elif op == 'keepalives':
            # the remote keeps the session alive from now on: a KEEPALIVE every args[0] virtual seconds until it is closed
            if cur:

                async def _kas(sess=cur, every=float(args[0])):
                    try:
                        while not sess.closed:
                            await asyncio.sleep(every)
                            if sess.closed:
                                break
                            await sess.send(rw.keepalive())
                    except Exception:  # noqa
                        pass

                asyncio.ensure_future(_kas())
        elif op == 'establish':
            if cur:
                ok = await L.establish(cur, remote_open(c, args[0] if args else None), 10.0)
                if not ok:
                    notes.append((i, 'not-established'))
                elif c.get('peer_eor', True):
                    # a real peer ends its (here empty) initial table with an End-of-RIB marker per family (RFC 4724)
                    import struct as _struct

                    fams = (args[0] or {}).get('families', c.get('families', [(1, 1)])) if args else c.get('families', [(1, 1)])
                    for a, s_ in fams:
                        if (a, s_) == (1, 1):
                            await cur.send(rw.message(rw.UPDATE, b'\0\0\0\0'))
                        else:
                            await cur.send(rw.message(rw.UPDATE, rw.enc_update_body(b'', rw.enc_attr(0x80, 15, _struct.pack('!HB', a, s_)), b'')))
                    lab.event('remote-eor', session=cur.id, families=[list(f) for f in fams])
        elif op == 'send':
            if cur:
                await cur.send(bytes.fromhex(args[0]))
        elif op == 'sendseg':
            # args[0] = [hex, delay, hex, delay, ...]
            if cur:
                for j in range(0, len(args[0]), 2):
                    await cur.send(bytes.fromhex(args[0][j]))
                    if j + 1 < len(args[0]) and args[0][j + 1] > 0:
                        await asyncio.sleep(args[0][j + 1])
        elif op == 'eof':
            if cur:
                cur.close()
        elif op == 'rst':
            if cur:
                cur.reset()
        elif op == 'stop_reading':
            if cur:
                cur.reading = False
        elif op == 'throttle':
            if cur:
                cur.read_rate = args[0] or None
        elif op == 'resume_reading':
            if cur:
                cur.reading = True
        elif op == 'sndbuf':
            # the operating system's send buffer for ExaBGP's established sockets (a host tuned with small buffers)
            import socket as _socket

            for p_ in lab.peers():
                io = getattr(getattr(p_.proto, 'connection', None), 'io', None) if p_.proto else None
                if io is not None:
                    io.setsockopt(_socket.SOL_SOCKET, _socket.SO_SNDBUF, args[0])
                    lab.event('sndbuf', value=io.getsockopt(_socket.SOL_SOCKET, _socket.SO_SNDBUF))
        elif op == 'api':
            helper = helper or lab.helper()
            if helper is None:
                notes.append((i, 'no-helper'))
            else:
                helper.send((args[0] + '\n').encode())
        elif op == 'failpoint':
            arm_failpoint(lab, int(args[0]), args[1] if len(args) > 1 else 'RuntimeError')
        elif op == 'reload':
            if args:
                with open(lab.config_path, 'w') as f:
                    f.write(subst_ports(args[0], ports))
            from exabgp.reactor.interrupt import Signal

            lab.reactor.signal.received = Signal.RELOAD
        elif op == 'reload_changed':
            import re

            text = open(lab.config_path).read()
            m = re.search(r'hold-time (\d+);', text)
            cur_h = int(m.group(1)) if m else 90
            text = re.sub(r'hold-time \d+;', f'hold-time {cur_h + 7};', text, count=1)
            with open(lab.config_path, 'w') as f:
                f.write(text)
            from exabgp.reactor.interrupt import Signal

            lab.reactor.signal.received = Signal.RELOAD
        elif op == 'shutdown':
            await lab.shutdown_reactor(args[0] if args else 5.0)
        elif op == 'snapshot':
            r_ = lab.reactor
            snap = {'neighbors': sorted(r_.configuration.neighbors.keys()), 'peers': sorted(r_._peers.keys()), 'fsm': {k: p.fsm.name() for k, p in r_._peers.items()}, 'routes': {}, 'rib_out': {}, 'reload_error': str(r_.configuration.error)[-300:]}
            for k, nb in r_.configuration.neighbors.items():
                snap['routes'][k] = sorted(str(x) for x in nb.routes)
            for k, p in r_._peers.items():
                try:
                    snap['rib_out'][k] = sorted(str(x) for x in p.neighbor.rib.outgoing.cached_routes())
                except Exception as e:  # noqa
                    snap['rib_out'][k] = ['<' + type(e).__name__ + '>']
            lab.event('snapshot', name=args[0], snap=snap)
        elif op == 'write_config':
            with open(lab.config_path, 'w') as f:
                f.write(args[0].replace('@PORT@', str(port)))
        elif op == 'remove_config':
            os.rename(lab.config_path, lab.config_path + '.gone')
        elif op == 'restore_config':
            os.rename(lab.config_path + '.gone', lab.config_path)
        elif op == 'chmod_config':
            os.chmod(lab.config_path, args[0])
        elif op == 'mark':
            lab.event('mark', name=args[0], session=cur.id if cur else None, writes_started=lab.writes_started, writes_done=lab.writes_done, last_write_done=round(lab.last_write_done, 4))
        else:
            raise ValueError('unknown step ' + op)
    helper = helper or lab.helper()
    helper_rx = helper.drain().decode('ascii', 'replace') if helper else ''
    sessions = []
    for s in lab.sessions:
        sessions.append(
            {
                'id': s.id,
                'origin': s.origin,
                'eof_at': s.eof_at,
                'closed_local_at': s.closed_local_at,
                'reset': s.reset_seen,
                'rx': [[round(t, 4), ty, body.hex() if len(body) <= case.get('rx_limit', 256) else body[:256].hex() + f'..+{len(body) - 256}'] for t, ty, body in s.timed_messages()],
                'rx_len': len(s.rx),
                'rx_tail': s.messages()[1].hex()[:80],
                'tx': [[round(t, 4), len(d), d[18] if len(d) > 18 else -1] for t, d in s.tx_log],
                'tx_opens': [[round(t, 4), d.hex()] for t, d in s.tx_log if len(d) > 18 and d[:16] == b'\xff' * 16 and d[18] == 1],
            }
        )
    peers = []
    for p in lab.peers():
        peers.append({'fsm': p.fsm.name(), 'proto': p.proto is not None, 'restart': p._restart, 'teardown': p._teardown})
    return {
        'events': lab.events,
        'sessions': sessions,
        'notes': notes,
        'step_times': step_times,
        'end': round(lab.clock.now, 4),
        'helper_rx': helper_rx[-200000:],
        'peers': peers,
        'iterations': lab.clock.iterations,
        'log_evaluated': _log_evaluated(),
    }


class InjectedFault(RuntimeError):
    pass


class InjectedKeyError(KeyError):
    pass


def arm_failpoint(lab, k: int, exc: str = 'RuntimeError') -> None:
    """source-free failpoint: during the NEXT Configuration._reload() raise at the k-th statement executed in a file under
    exabgp/configuration/ (k = 0: count only). One shot. The recovery code of Configuration.reload() runs outside
    _reload() and is never hit."""
    import sys

    from exabgp.configuration.configuration import Configuration

    mon = sys.monitoring
    tool = 4
    orig = Configuration._reload
    state = {'n': 0, 'fired': None}
    klass = InjectedKeyError if exc == 'KeyError' else InjectedFault

    def line_cb(code, line):
        if '/exabgp/configuration/' not in code.co_filename:
            return mon.DISABLE
        state['n'] += 1
        if state['n'] == k:
            state['fired'] = f'{code.co_filename.split("/exabgp/")[-1]}:{line}:{code.co_name}'
            raise klass('injected failpoint')
        return None

    def _reload(cfg):
        Configuration._reload = orig  # one shot
        mon.use_tool_id(tool, 'verif-failpoint')
        mon.register_callback(tool, mon.events.LINE, line_cb)
        mon.set_events(tool, mon.events.LINE)
        try:
            return orig(cfg)
        finally:
            mon.set_events(tool, 0)
            mon.register_callback(tool, mon.events.LINE, None)
            mon.free_tool_id(tool)
            mon.restart_events()
            lab.event('failpoint', lines=state['n'], fired=state['fired'], k=k)

    Configuration._reload = _reload


def _log_evaluated() -> int:
    from exabgp.logger import log

    return getattr(log, 'evaluated', {'n': 0})['n']


def subst_ports(text: str, ports: list) -> str:
    for i, p_ in enumerate(ports):
        text = text.replace('@PORT%s@' % ('' if i == 0 else i + 1), str(p_))
    return text


def _child(case: dict):
    srv = L.Lab.reserve_listener(case.get('rcvbuf'))
    port = srv.getsockname()[1]
    extra = []
    for _ in range(case.get('extra_listeners', 0)):
        # listeners for further neighbors (their peer addresses are other loopback addresses: bound to any)
        import socket as _socket

        s2 = _socket.socket(_socket.AF_INET, _socket.SOCK_STREAM)
        s2.setsockopt(_socket.SOL_SOCKET, _socket.SO_REUSEADDR, 1)
        s2.bind(('0.0.0.0', 0))
        s2.listen(16)
        s2.setblocking(False)
        extra.append(s2)
    ports = [port] + [x.getsockname()[1] for x in extra]
    c = case['config']
    bind_port = L.Lab.free_port() if c.get('listen') else None
    env = dict(case.get('env', {}))
    text = subst_ports(case['config_text'], ports) if case.get('config_text') else config_text(c, port)
    lab = L.Lab(text, quantum=case.get('quantum', 0.0002), env=env, bind_port=bind_port, loud=bool(case.get('loud')))
    lab.listen(port, case.get('policy', 'accept'), case.get('rcvbuf'), srv=srv)
    for x in extra:
        lab.listen(x.getsockname()[1], 'accept', None, srv=x)

    async def scenario(lab):
        return await play(lab, case, port, bind_port, ports)

    rec = lab.run(scenario, vtimeout=case.get('vtimeout', 400.0), wall_timeout=case.get('wall', 60.0))
    rec['config_text'] = text
    return rec


RETRIES = {'n': 0}


def run_case(case: dict, wall_timeout: float | None = None):
    """-> ('ok', record) | ('timeout', None) | ('crash', text).

    Faults of the machine, not of the code under test, are retried (another lab took the port ExaBGP's own listener was
    given; the wall-clock watchdog fired on a loaded host): the case is deterministic in virtual time, a re-run observes the
    same thing. What still fails after three attempts is reported as it is (inconclusive for that case)."""
    out = ('crash', 'not run')
    for attempt in range(3):
        out = L.run_forked(_child, case, (wall_timeout or case.get('wall', 60.0) + 15) * (1 + attempt))
        if out[0] == 'ok':
            notes = out[1].get('notes') or []
            first = notes[0] if notes else None
            if first and first[0] == 0 and first[1] in ('connect-failed', 'no-connection') and attempt < 2:
                # the very first connection never came about: ExaBGP's own listener may have lost its port to another lab
                RETRIES['n'] += 1
                continue
            return out
        if out[0] == 'crash' and 'Address already in use' not in str(out[1]) and 'LabTimeout: wall' not in str(out[1]):
            return out
        RETRIES['n'] += 1
    return out


# ---------------------------------------------------------------- helpers for monitors


def sent_after(rec: dict, session_id: int, t: float):
    """messages the remote received on a session at/after virtual time t"""
    s = rec['sessions'][session_id]
    return [m for m in s['rx'] if m[0] >= t]


def fsm_trace(rec: dict):
    return [(e['src'], e['dst'], e['t']) for e in rec['events'] if e['kind'] == 'fsm']


def simple_update(i: int, nh: str = '192.0.2.9') -> bytes:
    attrs = rw.enc_attr(0x40, 1, b'\0') + rw.enc_attr(0x40, 2, rw.v_aspath([(2, [65001])], True)) + rw.enc_attr(0x40, 3, rw.ipbytes(nh))
    return rw.enc_update(b'', attrs, bytes([24, 172, (i >> 8) & 255, i & 255]))
