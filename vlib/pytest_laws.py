"""pytest plugin: the repository's own unit tests run with the C15 law contracts attached to the real classes, in record-only
mode (a broken law is written down, the observed test goes on unchanged).  Loaded with `-p vlib.pytest_laws`; every xdist
worker writes $VERIF_LAWS_OUT/<worker>.json at the end of its session.  Nothing under /repo is edited.
"""

from __future__ import annotations

import json
import os


def pytest_configure(config):
    from vlib import laws

    try:
        laws.attach()
    except Exception as e:  # noqa
        laws.M.info['attach-failed:' + type(e).__name__] = 1
    laws.M.record_only = True
    laws.M.armed = True


def pytest_sessionfinish(session, exitstatus):
    from vlib import laws

    out = os.environ.get('VERIF_LAWS_OUT')
    if not out:
        return
    os.makedirs(out, exist_ok=True)
    worker = os.environ.get('PYTEST_XDIST_WORKER', 'main')
    rec = []
    seen = {}
    for v in laws.M.recorded:
        n = seen.get(v.key, 0)
        seen[v.key] = n + 1
        if n < 3:
            rec.append({'key': v.key, 'what': v.what[:300], 'witness': {k: (str(x)[:300]) for k, x in (v.witness or {}).items()}, 'label': v.label, 'law': v.law})
    with open(os.path.join(out, worker + '.json'), 'w') as f:
        json.dump({'evals': laws.M.evals, 'attached': len(laws.M.attached), 'violations': rec, 'counts': seen, 'info': laws.M.info}, f)
