"""daemon - the REAL exabgp process (python -m exabgp server <file>), a REAL helper process on its pipes, and a scripted
BGP peer on a blocking socket.

The session lab (lab.py) runs Reactor/Peer/Protocol in-process under a virtual clock with the helper replaced by taps; what
it cannot show is that the harness itself is faithful: environment defaults applied by the application entry point, the
forked helper and its pipes, the JSON as it leaves the process.  This level trades the virtual clock for fidelity: nothing of
ExaBGP is imported in the observing process, the only observations are octets on the TCP connection and lines the helper
received or was answered.  Wall-clock waits are bounded and their expiry is INCONCLUSIVE, never a violation.
"""

from __future__ import annotations

import os
import shutil
import signal
import socket
import struct
import subprocess
import tempfile
import time

from vlib import refwire as rw

REPO = os.environ.get('VERIF_REPO', '/repo')
PY = '/venv/bin/python'

SINK = """import sys
out = open(sys.argv[1], 'a', buffering=1)
for line in sys.stdin:
    out.write(line)
"""

# a helper which plays a script: each line of the script file is a command written to ExaBGP; after each it waits for the
# acknowledgement (one line 'done' / 'error' / a JSON answer terminated by 'done') and logs ("sent"/"got", text, monotonic)
PLAYER = """import sys, time, json, os, select
script, log = sys.argv[1], open(sys.argv[2], 'a', buffering=1)
fd = sys.stdin.fileno()
buf = b''
def readline(deadline):
    global buf
    while b'\\n' not in buf:
        left = deadline - time.monotonic()
        if left <= 0:
            return None
        r, _, _ = select.select([fd], [], [], left)
        if not r:
            return None
        chunk = os.read(fd, 65536)
        if not chunk:
            return None
        buf += chunk
    line, buf = buf.split(b'\\n', 1)
    return line.decode('utf-8', 'replace')
for raw in open(script):
    cmd = raw.rstrip('\\n')
    if cmd.startswith('#sleep '):
        time.sleep(float(cmd.split()[1])); continue
    if cmd.startswith('#wait '):
        # released by the observer: it creates the named file next to the script
        log.write(json.dumps(['wait', cmd.split()[1]]) + '\\n')
        gate = os.path.join(os.path.dirname(script), cmd.split()[1])
        t_end = time.monotonic() + 120
        while not os.path.exists(gate) and time.monotonic() < t_end:
            time.sleep(0.02)
        continue
    if cmd.startswith('#drain'):
        # everything ExaBGP writes until it has been silent for the given time is logged (events, late answers)
        quiet = float(cmd.split()[1])
        while True:
            l = readline(time.monotonic() + quiet)
            if l is None: break
            log.write(json.dumps(['got', l]) + '\\n')
        continue
    log.write(json.dumps(['sent', cmd]) + '\\n')
    sys.stdout.write(cmd + '\\n'); sys.stdout.flush()
    while True:
        l = readline(time.monotonic() + 20)
        if l is None:
            log.write(json.dumps(['timeout', cmd]) + '\\n'); break
        log.write(json.dumps(['got', l]) + '\\n')
        # an error is reported as 'error: <text>' (payload) followed by the terminal line 'error'
        if l.strip() in ('done', 'error', 'shutdown in progress') or '"answer": "done"' in l or '"answer": "error"' in l:
            break
log.write(json.dumps(['end', '']) + '\\n')
while True:
    l = readline(time.monotonic() + 3600)
    if l is None: break
    log.write(json.dumps(['got', l]) + '\\n')
"""


class Inconclusive(Exception):
    pass


def skipped(res, msg: str) -> None:
    """a bounded wait ran out in one daemon case (a loaded machine, a port race): the case is not judged and is counted.  The
    class every daemon level must reach (REQUIRED_CLASSES 'daemon:...') decides whether enough cases were judged; a daemon which
    cannot start at all therefore still ends INCONCLUSIVE, never HELD"""
    res.count('daemon-case-not-judged')
    res.extra.setdefault('daemon_cases_not_judged', []).append(msg[:300])


class Daemon:
    def __init__(self, conf_text: str, env: dict | None = None, files: dict | None = None, more_addrs: tuple = ()) -> None:
        self.dir = tempfile.mkdtemp(prefix='exaverif-daemon-', dir='/var/tmp')
        os.chmod(self.dir, 0o755)
        self.proc = None
        for attempt in range(20):
            self.listener = socket.socket(socket.AF_INET, socket.SOCK_STREAM)
            self.listener.setsockopt(socket.SOL_SOCKET, socket.SO_REUSEADDR, 1)
            self.listener.bind(('127.0.0.2', 0))
            self.listener.listen(8)
            self.port = self.listener.getsockname()[1]
            # the daemon knows one destination port for all its neighbors: further peers listen on the same number
            self.more = {}
            try:
                for a in more_addrs:
                    ls = socket.socket(socket.AF_INET, socket.SOCK_STREAM)
                    ls.setsockopt(socket.SOL_SOCKET, socket.SO_REUSEADDR, 1)
                    ls.bind((a, self.port))
                    ls.listen(8)
                    self.more[a] = ls
                break
            except OSError:
                self.listener.close()
                for ls in self.more.values():
                    ls.close()
        for name, text in dict({'sink.py': SINK, 'player.py': PLAYER}, **(files or {})).items():
            with open(os.path.join(self.dir, name), 'w') as f:
                f.write(text)
        with open(os.path.join(self.dir, 'conf'), 'w') as f:
            f.write(conf_text.replace('@DIR@', self.dir).replace('@PY@', PY))
        self.env = dict(os.environ)
        self.env.update(
            {
                'PYTHONPATH': os.path.join(REPO, 'src'),
                'exabgp_tcp_port': str(self.port),
                'exabgp_tcp_bind': '',
                'exabgp_daemon_drop': 'false',
                # started as root ExaBGP switches to exabgp.daemon.user (nobody) whatever daemon.drop says; the interpreter of
                # this sandbox lives under /root (0700), so a reload, which checks every `run` program again, would refuse it
                'exabgp_daemon_user': 'root',
                'exabgp_daemon_daemonize': 'false',
                'exabgp_api_cli': 'false',
                'exabgp_log_enable': 'true',
                'exabgp_log_destination': 'stderr',
                'exabgp_log_level': 'WARNING',
                'exabgp_bgp_openwait': '60',
            }
        )
        self.env.pop('exabgp_log_enable', None) if False else None
        self.env.update(env or {})

    def path(self, name: str) -> str:
        return os.path.join(self.dir, name)

    def start(self) -> None:
        self.stderr = open(self.path('stderr'), 'w')
        def _die_with_parent():  # a shard killed by its watchdog must not leave a daemon behind
            try:
                import ctypes

                ctypes.CDLL('libc.so.6', use_errno=True).prctl(1, 9)  # PR_SET_PDEATHSIG, SIGKILL
            except Exception:  # noqa
                pass

        self.proc = subprocess.Popen([PY, '-m', 'exabgp', 'server', self.path('conf')], env=self.env, stdout=self.stderr, stderr=self.stderr, cwd=self.dir, start_new_session=True, preexec_fn=_die_with_parent)

    def accept(self, timeout: float = 60.0, addr: str | None = None) -> 'Peer':
        listener = self.more[addr] if addr else self.listener
        listener.settimeout(timeout)
        try:
            conn, _ = listener.accept()
        except (socket.timeout, TimeoutError):
            raise Inconclusive('the daemon never connected: ' + self.tail())
        return Peer(conn)

    def alive(self) -> bool:
        return self.proc is not None and self.proc.poll() is None

    def tail(self, n: int = 600) -> str:
        out = ''
        for name in ('stderr', 'log'):
            try:
                with open(self.path(name)) as f:
                    out += f.read()[-n:]
            except OSError:
                pass
        return out.replace('\n', ' | ')

    def lines(self, name: str) -> list:
        try:
            with open(self.path(name)) as f:
                return f.read().split('\n')[:-1]
        except OSError:
            return []

    def wait_lines(self, name: str, pred, timeout: float = 30.0) -> list:
        end = time.monotonic() + timeout
        while True:
            ls = self.lines(name)
            if pred(ls):
                return ls
            if time.monotonic() > end:
                raise Inconclusive(f'{name}: what was waited for never arrived within {timeout}s ({len(ls)} lines); ' + self.tail(300))
            if not self.alive():
                ls = self.lines(name)
                if pred(ls):
                    return ls
                raise Inconclusive(f'the daemon exited (rc {self.proc.returncode}) before {name} was complete: ' + self.tail(300))
            time.sleep(0.05)

    def release(self, name: str) -> None:
        with open(self.path(name), 'w') as f:
            f.write('go')

    def signal(self, sig: int) -> None:
        if self.alive():
            os.kill(self.proc.pid, sig)

    def rewrite_conf(self, conf_text: str) -> None:
        tmp = self.path('conf.new')
        with open(tmp, 'w') as f:
            f.write(conf_text.replace('@DIR@', self.dir).replace('@PY@', PY))
        os.replace(tmp, self.path('conf'))

    def stop(self) -> None:
        if self.proc is not None and self.proc.poll() is None:
            try:
                os.killpg(self.proc.pid, signal.SIGKILL)
            except OSError:
                pass
            try:
                self.proc.wait(5)
            except Exception:  # noqa
                pass
        try:
            self.listener.close()
            for ls in self.more.values():
                ls.close()
        except OSError:
            pass
        try:
            self.stderr.close()
        except Exception:  # noqa
            pass
        shutil.rmtree(self.dir, ignore_errors=True)


class Peer:
    """the scripted remote speaker: blocking socket, whole messages"""

    def __init__(self, conn: socket.socket) -> None:
        self.conn = conn
        self.conn.settimeout(40.0)
        self.buf = b''
        self.rx = []  # (type, body)

    def read_message(self, timeout: float = 40.0):
        self.conn.settimeout(timeout)
        try:
            while True:
                if len(self.buf) >= 19:
                    ln = struct.unpack('!H', self.buf[16:18])[0]
                    if len(self.buf) >= ln:
                        msg, self.buf = self.buf[:ln], self.buf[ln:]
                        self.rx.append((msg[18], msg[19:]))
                        return msg[18], msg[19:]
                chunk = self.conn.recv(65536)
                if not chunk:
                    return None, b''
                self.buf += chunk
        except (socket.timeout, TimeoutError):
            return 'timeout', b''
        except OSError:
            return None, b''

    def send(self, mtype: int, body: bytes = b'') -> None:
        self.conn.sendall(b'\xff' * 16 + struct.pack('!HB', 19 + len(body), mtype) + body)

    def establish(self, peer_as: int, peer_asn4: bool = True, rid: str = '10.0.0.2', hold: int = 180, peer_body: bytes | None = None) -> dict:
        """read the daemon's OPEN, answer with its own capabilities mirrored (as corpus.mirror_session does in-process) or
        with the given OPEN body"""
        t, body = self.read_message()
        if t != 1:
            raise Inconclusive(f'expected an OPEN, got {t}')
        d = rw.dec_open(body)
        self.open_body = bytes(body)
        if peer_body is not None:
            self.send(1, peer_body)
            self.send(4)
            t, body = self.read_message()
            if t != 4:
                raise Inconclusive(f'expected a KEEPALIVE after the OPENs, got {t} {body.hex()[:40]}')
            return d
        caps = []
        for code, val in d['caps']:
            if code == rw.CAP_ASN4:
                if not peer_asn4:
                    continue
                val = struct.pack('!L', peer_as)
            if code == rw.CAP_ADDPATH:
                val = b''.join(val[i : i + 3] + bytes([{0: 0, 1: 2, 2: 1, 3: 3}[val[i + 3]]]) for i in range(0, len(val), 4))
            caps.append((code, val))
        self.send(1, rw.enc_open_body(peer_as if peer_as < 65536 else rw.AS_TRANS, hold, rid, caps, extended=d['extended']))
        self.send(4)
        t, body = self.read_message()
        if t != 4:
            raise Inconclusive(f'expected a KEEPALIVE after the OPENs, got {t} {body.hex()[:40]}')
        return d

    def drain(self, quiet: float = 0.5, limit: float = 20.0) -> list:
        """messages until the daemon has been silent for `quiet` seconds"""
        out = []
        end = time.monotonic() + limit
        while time.monotonic() < end:
            t, body = self.read_message(quiet)
            if t == 'timeout':
                break
            if t is None:
                out.append((None, b''))
                break
            out.append((t, body))
        return out

    def close(self) -> None:
        try:
            self.conn.close()
        except OSError:
            pass
