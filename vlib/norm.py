"""norm - normalisers mapping ExaBGP's API JSON (v6) to the canonical values refwire uses.

Part of the trusted base: exercised by the refwire self-consistency counters of C02/C08.
"""

from __future__ import annotations

import json
import socket
import struct

from vlib import refwire as rw

FAMILY_NAMES = {
    'ipv4 unicast': (1, 1),
    'ipv4 multicast': (1, 2),
    'ipv4 nlri-mpls': (1, 4),
    'ipv4 mpls-vpn': (1, 128),
    'ipv6 unicast': (2, 1),
    'ipv6 multicast': (2, 2),
    'ipv6 nlri-mpls': (2, 4),
    'ipv6 mpls-vpn': (2, 128),
}
ORIGIN = {'igp': 0, 'egp': 1, 'incomplete': 2}
SEG = {'as-set': 1, 'as-sequence': 2, 'as-confed-sequence': 3, 'as-confed-set': 4}


class DupKey(ValueError):
    pass


def strict_loads(text: str):
    """json.loads rejecting duplicate keys at any depth"""

    def hook(pairs):
        d = {}
        for k, v in pairs:
            if k in d:
                raise DupKey(k)
            d[k] = v
        return d

    return json.loads(text, object_pairs_hook=hook)


def rd_text(rdhex: str) -> str:
    raw = bytes.fromhex(rdhex)
    t = struct.unpack('!H', raw[:2])[0]
    if t == 0:
        a, n = struct.unpack('!HL', raw[2:])
        return f'{a}:{n}'
    if t == 1:
        return f'{socket.inet_ntoa(raw[2:6])}:{struct.unpack("!H", raw[6:])[0]}'
    if t == 2:
        a, n = struct.unpack('!LH', raw[2:])
        return f'{a}:{n}'
    return rdhex


def pathid_text(pid: int) -> str:
    return socket.inet_ntoa(struct.pack('!L', pid))


def canon_prefix(p: str) -> str:
    addr, ml = p.split('/')
    fam = socket.AF_INET6 if ':' in addr else socket.AF_INET
    return f'{socket.inet_ntop(fam, socket.inet_pton(fam, addr))}/{int(ml)}'


def nlri_expected(n: dict, withdraw: bool = False) -> tuple:
    """canonical tuple for a refwire nlri dict, in the vocabulary of the JSON API"""
    labels = tuple(n.get('labels') or ())
    if withdraw and n['safi'] in (4, 128):
        labels = ('*',)  # withdrawn labels carry no meaning (RFC 8277 2.4)
    return (
        (n['afi'], n['safi']),
        canon_prefix(n['prefix']),
        pathid_text(n['pathid']) if n.get('pathid') is not None else None,
        labels,
        rd_text(n['rd']) if n.get('rd') else None,
    )


def nlri_observed(fam: tuple, item, withdraw: bool = False) -> tuple:
    if isinstance(item, str):
        item = {'nlri': item}  # exabgp.api.compact: an NLRI with no qualifier is its prefix alone
    labels = tuple(x[0] for x in item.get('label', []))
    if withdraw and fam[1] in (4, 128):
        labels = ('*',)
    return (
        fam,
        canon_prefix(item['nlri']),
        item.get('path-information'),
        labels,
        item.get('rd'),
    )


def update_observed(ev: dict) -> dict:
    """event (parsed JSON of Response.JSON.update) -> {'announce': sorted list, 'withdraw': sorted list, 'eor':, 'attrs': dict}"""
    msg = ev['neighbor']['message']
    out = {'announce': [], 'withdraw': [], 'eor': None, 'attrs': {}, 'unknown_families': []}
    if 'eor' in msg:
        e = msg['eor']
        out['eor'] = FAMILY_NAMES.get(f'{e["afi"]} {e["safi"]}', (e['afi'], e['safi']))
        return out
    upd = msg.get('update', {})
    for famname, hops in upd.get('announce', {}).items():
        fam = FAMILY_NAMES.get(famname)
        if fam is None:
            out['unknown_families'].append(famname)
            continue
        for nh, items in hops.items():
            for item in items:
                if isinstance(item, dict) and 'eor' in item:
                    out['eor'] = fam
                    continue
                out['announce'].append((nlri_observed(fam, item), nh))
    for famname, items in upd.get('withdraw', {}).items():
        fam = FAMILY_NAMES.get(famname)
        if fam is None:
            out['unknown_families'].append(famname)
            continue
        for item in items:
            out['withdraw'].append(nlri_observed(fam, item, True))
    out['announce'].sort(key=repr)
    out['withdraw'].sort(key=repr)
    out['attrs'] = attrs_observed(upd.get('attribute', {}))
    return out


def attrs_observed(a: dict) -> dict:
    o: dict = {}
    for k, v in a.items():
        if k == 'origin':
            o['origin'] = ORIGIN.get(v, v)
        elif k == 'as-path':
            segs = [(SEG.get(v[i]['element'], v[i]['element']), list(v[i]['value'])) for i in sorted(v, key=int)]
            o['as_path'] = rw.normalise_path(segs)
        elif k == 'med':
            o['med'] = v
        elif k == 'local-preference':
            o['local_pref'] = v
        elif k == 'atomic-aggregate':
            if v:
                o['atomic'] = True
        elif k == 'aggregator':
            asn, ip = v.split(':', 1)
            o['aggregator'] = (int(asn), ip)
        elif k == 'community':
            o['communities'] = sorted(tuple(x) for x in v)
        elif k == 'originator-id':
            o['originator'] = v
        elif k == 'cluster-list':
            o['cluster_list'] = list(v)
        elif k == 'extended-community':
            o['ext_communities'] = sorted(struct.pack('!Q', x['value']).hex() for x in v)
        elif k == 'large-community':
            o['large_communities'] = sorted(tuple(x) for x in v)
        elif k == 'aigp':
            o['aigp'] = v
        elif k == 'next-hop':
            o['next_hop'] = v
        elif k.startswith('attribute-0x'):
            code = int(k.split('-')[1], 16)
            o.setdefault('unknown', []).append((code, str(v).lower().replace('0x', '')))
        else:
            o.setdefault('other', {})[k] = v
    if 'unknown' in o:
        o['unknown'].sort()
    return o


def attrs_expected(a: dict | None, transitive_only_unknown: bool = True) -> dict:
    """intent attribute dict (gen_wire.rand_attrs) -> same canonical form as attrs_observed"""
    if not a:
        return {}
    o: dict = {}
    for k in ('origin', 'med', 'local_pref', 'originator'):
        if k in a:
            o[k] = a[k]
    if 'as_path' in a:
        o['as_path'] = rw.normalise_path(a['as_path'])
    if a.get('atomic'):
        o['atomic'] = True
    if 'aggregator' in a:
        o['aggregator'] = tuple(a['aggregator'])
    if 'communities' in a:
        o['communities'] = sorted(tuple(x) for x in a['communities'])
    if 'cluster_list' in a:
        o['cluster_list'] = list(a['cluster_list'])
    if 'ext_communities' in a:
        o['ext_communities'] = sorted(a['ext_communities'])
    if 'large_communities' in a:
        o['large_communities'] = sorted(tuple(x) for x in a['large_communities'])
    unk = [(code, bytes(val).hex()) for code, flags, val in a.get('unknown', []) if (flags & 0x40) or not transitive_only_unknown]
    if unk:
        o['unknown'] = sorted(unk)
    return o
