"""hc_helpers - harness for the REAL healthcheck helper and the REAL daemon-side API command path.

Nothing here re-implements ExaBGP behaviour.

* `run_healthcheck` calls the production `exabgp.application.healthcheck.main()` (so `parse()`, the
  `--start-ip` rotation, `--deaggregate-networks` and `loop()`/`one()`/`exabgp()` are the real code) with
  only the environment replaced: `check()` answers from a script, `time.sleep` is a virtual clock that
  ends the script with KeyboardInterrupt or a real SIGTERM, `sys.stdout`/`sys.stdin` are captured/stubbed,
  the disable file is created/removed between rounds, `subprocess` is a tripwire (no command is ever run)
  and `setup_logging` is a no-op (there is no /dev/log in the sandbox).
* `Daemon` hands a text line to the production `API.process()` (v6 or v4 dispatcher, handler, `api_route`,
  `Configuration.partial`) on top of a recording reactor stub and a real parsed `Configuration`, and returns
  what reached `configuration.announce_route/withdraw_route`: the selected peers and the parsed `Route`
  read back field by field (attribute wire bytes decoded with struct, not with ExaBGP printers).
"""

from __future__ import annotations

import logging
import os
import signal
import struct
import sys
import types


class HarnessAbort(BaseException):
    pass


class _NoHandler(BaseException):
    pass


class _Out:
    def __init__(self) -> None:
        self.buf: list[str] = []
        self.total = 0

    def write(self, s: str) -> int:
        self.buf.append(s)
        self.total += len(s)
        if self.total > 4_000_000:
            raise HarnessAbort('output flood')
        return len(s)

    def flush(self) -> None:
        pass

    def isatty(self) -> bool:
        return False

    def take(self) -> str:
        text = ''.join(self.buf)
        self.buf = []
        return text


class _In:
    def __init__(self) -> None:
        self.reads = 0

    def readline(self) -> str:
        self.reads += 1
        return 'done\n'


class _Tripwire:
    """stands in for the `subprocess` module inside healthcheck: any use is recorded and refused"""

    def __init__(self, used: list) -> None:
        self._used = used

    def __getattr__(self, name: str):
        self._used.append(name)

        def refuse(*a, **k):
            raise RuntimeError(f'harness: healthcheck tried to run a command through subprocess.{name} {a!r}')

        return refuse


class _LogTap(logging.Handler):
    def __init__(self, st) -> None:
        logging.Handler.__init__(self, level=logging.DEBUG)
        self.st = st

    def emit(self, record: logging.LogRecord) -> None:
        try:
            msg = record.getMessage()
        except Exception as e:  # noqa
            msg = f'<unformattable log record {e!r}>'
        if msg.startswith('Transition to '):
            self.st.transitions.append((self.st.k, msg[len('Transition to ') :].split('.')[-1].strip()))
        if record.levelno >= logging.ERROR:
            text = msg
            if record.exc_info:
                import traceback

                text += ' | ' + ''.join(traceback.format_exception(*record.exc_info))[-1500:]
            self.st.errors.append(text)


def run_healthcheck(argv: list[str], rounds: list[tuple[bool, bool]], term: str, disable_path: str | None) -> dict:
    """Run the real healthcheck main() over a script.

    rounds: [(disable file present during the round, result of the check in the round)]
    term:   'int'  -> KeyboardInterrupt raised by the sleep that follows the last round
            'term' -> a real SIGTERM sent to ourselves inside that sleep
    -> {'blocks': [text written in round k], 'exit': text written after termination was delivered,
        'outcome': ..., 'sleeps': [...], 'check_calls': [...], 'transitions': [(round, state)],
        'errors': [...], 'subprocess': [...], 'acks': n}
    """
    import exabgp.application.healthcheck as hc

    st = types.SimpleNamespace(k=0, blocks=[], sleeps=[], check_calls=[0] * len(rounds), terminated=False, transitions=[], errors=[], subprocess=[])
    out, inp = _Out(), _In()

    def set_disable(flag: bool) -> None:
        if disable_path is None:
            return
        if flag:
            with open(disable_path, 'w'):
                pass
        else:
            try:
                os.unlink(disable_path)
            except FileNotFoundError:
                pass

    def no_handler(signum, frame):
        raise _NoHandler()

    def fake_sleep(duration) -> None:
        if st.terminated:
            raise HarnessAbort('loop kept running after termination was delivered')
        st.blocks.append(out.take())
        st.sleeps.append(duration)
        st.k += 1
        if st.k >= len(rounds):
            st.terminated = True
            if term == 'int':
                raise KeyboardInterrupt
            os.kill(os.getpid(), signal.SIGTERM)
            for _ in range(100000):
                pass
            raise HarnessAbort('SIGTERM handler returned without ending the helper')
        set_disable(rounds[st.k][0])

    def fake_check(cmd, timeout) -> bool:
        if st.k >= len(rounds):
            raise HarnessAbort('check() called after the end of the script')
        st.check_calls[st.k] += 1
        return bool(rounds[st.k][1])

    logger = logging.getLogger('healthcheck')
    tap = _LogTap(st)
    saved = {
        'stdout': sys.stdout,
        'stdin': sys.stdin,
        'argv': sys.argv,
        'time': hc.time,
        'check': hc.check,
        'subprocess': hc.subprocess,
        'setup_logging': hc.setup_logging,
        'sigterm': signal.getsignal(signal.SIGTERM),
        'level': logger.level,
        'propagate': logger.propagate,
    }
    outcome = 'unknown'
    try:
        set_disable(rounds[0][0])
        logger.addHandler(tap)
        logger.setLevel(logging.DEBUG)
        logger.propagate = False
        signal.signal(signal.SIGTERM, no_handler)
        hc.time = types.SimpleNamespace(sleep=fake_sleep)
        hc.check = fake_check
        hc.subprocess = _Tripwire(st.subprocess)
        hc.setup_logging = lambda *a, **k: None
        sys.argv = ['healthcheck'] + list(argv)
        sys.stdout, sys.stdin = out, inp
        try:
            hc.main()
            outcome = 'returned'
        except SystemExit as e:
            outcome = f'exit:{e.code}'
        except KeyboardInterrupt:
            outcome = 'keyboardinterrupt-escaped'
        except _NoHandler:
            outcome = 'no-sigterm-handler'
        except HarnessAbort as e:
            outcome = 'abort:' + str(e)
    finally:
        sys.stdout, sys.stdin, sys.argv = saved['stdout'], saved['stdin'], saved['argv']
        hc.time, hc.check, hc.subprocess, hc.setup_logging = saved['time'], saved['check'], saved['subprocess'], saved['setup_logging']
        signal.signal(signal.SIGTERM, saved['sigterm'])
        logger.removeHandler(tap)
        logger.setLevel(saved['level'])
        logger.propagate = saved['propagate']
        set_disable(False)
    return {
        'blocks': st.blocks,
        'exit': out.take(),
        'outcome': outcome,
        'terminated': st.terminated,
        'sleeps': st.sleeps,
        'check_calls': st.check_calls,
        'transitions': st.transitions,
        'errors': st.errors,
        'subprocess': st.subprocess,
        'acks': inp.reads,
    }


# ----------------------------------------------------------------------------- daemon side


def _tlv(raw: bytes) -> tuple[int, int, bytes]:
    flags, code = raw[0], raw[1]
    if flags & 0x10:
        (ln,) = struct.unpack('!H', raw[2:4])
        body = raw[4:]
    else:
        ln = raw[2]
        body = raw[3:]
    if ln != len(body):
        raise ValueError(f'attribute {code} length {ln} != {len(body)}')
    return flags, code, body


def summarise(route) -> dict:
    """read a parsed Route back into plain values"""
    n = route.nlri
    afi, safi = n.family().afi_safi()
    pi = bytes(n.path_info.pack_path())
    d: dict = {
        'prefix': str(n.cidr.prefix()),
        'family': (int(afi), int(safi)),
        'path_id': struct.unpack('!L', pi)[0] if pi else None,
        'next_hop': str(route.nexthop),
        'med': None,
        'local_preference': None,
        'community': None,
        'extended_community': None,
        'large_community': None,
        'as_path': None,
        'other': [],
    }
    for code, attr in route.attributes.items():
        code = int(code)
        if code == 3:
            continue
        if code == 2:
            d['as_path'] = [(int(seg.ID), [int(a) for a in seg]) for seg in attr.aspath]
            continue
        _, c, body = _tlv(bytes(attr.pack_attribute(None)))
        if c != code:
            raise ValueError(f'attribute stored as {code} packs as {c}')
        if code == 4:
            (d['med'],) = struct.unpack('!L', body)
        elif code == 5:
            (d['local_preference'],) = struct.unpack('!L', body)
        elif code == 8:
            d['community'] = sorted(struct.unpack('!L', body[i : i + 4])[0] for i in range(0, len(body), 4))
        elif code == 16:
            d['extended_community'] = sorted(body[i : i + 8].hex() for i in range(0, len(body), 8))
        elif code == 32:
            d['large_community'] = sorted(list(struct.unpack('!LLL', body[i : i + 12])) for i in range(0, len(body), 12))
        else:
            d['other'].append(code)
    return d


class _Procs:
    def __init__(self) -> None:
        self.log: list = []

    def answer_error_sync(self, service, message: str = '') -> None:
        self.log.append(('error', str(message)))

    def answer_done_sync(self, service) -> None:
        self.log.append(('done', ''))

    async def answer_error(self, service, message: str = '') -> None:
        self.log.append(('error', str(message)))

    async def answer_done(self, service) -> None:
        self.log.append(('done', ''))

    def get_sync(self, service) -> bool:
        return False


class _Now:
    """runs a scheduled API callback to completion at once (the reactor would run it on its next turns)"""

    def schedule(self, service, command, coro) -> None:
        try:
            for _ in range(10000):
                coro.send(None)
            raise RuntimeError('api callback did not finish')
        except StopIteration:
            pass


class _RecordingConfiguration:
    def __init__(self, real) -> None:
        self.real = real
        self.calls: list = []

    # The verdict stops at the parsed Route handed over with the selected peers.  Whether a given neighbor
    # can carry it (e.g. `next-hop self` for an IPv6 prefix on an IPv4 session) is a property of the
    # deployment, not of the command text: the real RIB call is made and its outcome only recorded.
    def _real(self, name, peers, route):
        try:
            return bool(getattr(self.real, name)(peers, route))
        except Exception as e:  # noqa
            return f'{type(e).__name__}: {e}'

    def announce_route(self, peers, route):
        self.calls.append(('announce', list(peers), route, self._real('announce_route', peers, route)))
        return True

    def withdraw_route(self, peers, route):
        self.calls.append(('withdraw', list(peers), route, self._real('withdraw_route', peers, route)))
        return True


class _Reactor:
    def __init__(self, conf) -> None:
        self.configuration = _RecordingConfiguration(conf)
        self.processes = _Procs()
        self.asynchronous = _Now()
        self._peers: dict = {}
        self.names = list(conf.neighbors)

    def peers(self, service: str = '') -> list[str]:
        return list(self.names)


class Daemon:
    """The daemon side of the API pipe: real Configuration (one neighbor per peer address, IPv4+IPv6
    unicast), real API.process(); `feed` returns what the command did."""

    def __init__(self, peers: list[str]) -> None:
        from vlib import exa

        exa.quiet()
        text = ''.join(
            exa.neighbor_text(peer=p, local=('2001:db8::1' if ':' in p else '127.0.0.1'), families=((1, 1), (2, 1))) for p in peers
        )
        self.conf = exa.load_config(text)
        from exabgp.reactor.api import API

        self.reactor = _Reactor(self.conf)
        self.api = API(self.reactor)
        self.cache: dict = {}

    def feed(self, line: str, version: int = 6) -> dict:
        key = (version, line)
        if key in self.cache:
            return self.cache[key]
        from exabgp.environment import getenv

        r = self.reactor
        r.configuration.calls.clear()
        r.processes.log.clear()
        getenv().api.version = version
        res: dict = {'ok': False, 'error': '', 'calls': []}
        try:
            ret = self.api.process(r, 'healthcheck', line)
        except Exception as e:  # noqa
            res['error'] = f'raised {type(e).__name__}: {e}'
            self.cache[key] = res
            return res
        finally:
            getenv().api.version = 6
        answers = list(r.processes.log)
        errors = [m for k, m in answers if k == 'error']
        try:
            for action, peers, route, accepted in r.configuration.calls:
                res['calls'].append({'action': action, 'peers': sorted(p.split()[1] for p in peers), 'rib': accepted, **summarise(route)})
        except Exception as e:  # noqa
            res['error'] = f'parsed route unreadable: {type(e).__name__}: {e}'
            self.cache[key] = res
            return res
        if ret is not True or errors or ('done', '') not in answers:
            res['error'] = 'refused: ' + ('; '.join(errors) or f'process() returned {ret!r}, answers {answers!r}')
        elif len(res['calls']) != 1:
            res['error'] = f'{len(res["calls"])} routes reached the RIB interface'
        elif not res['calls'][0]['peers']:
            res['error'] = 'no peer selected'
        else:
            res['ok'] = True
        self.cache[key] = res
        return res
