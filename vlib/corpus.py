"""corpus - seed messages read as DATA from the repository's qa/ directory, and an 'everything
negotiated' session built through the production constructors.

qa/encoding/*.ci lines `N:raw:<marker>:<len>:<type>:<body hex>` and qa/decoding/* (line 1 kind,
line 2 hex) are the only families-beyond-IP source: they are SEEDS (inputs), never oracles.
"""

from __future__ import annotations

import glob
import os

from vlib import exa

REPO = os.environ.get('VERIF_REPO', '/repo')


def qa_messages() -> list[dict]:
    """-> [{'src': file, 'type': int, 'body': bytes, 'conf': str|None}] deduplicated"""
    out, seen = [], set()
    for path in sorted(glob.glob(os.path.join(REPO, 'qa', 'encoding', '*.ci'))):
        conf = None
        for line in open(path, errors='replace'):
            line = line.strip()
            if line.startswith('option:file:'):
                conf = line.split(':', 2)[2]
            parts = line.split(':')
            if len(parts) >= 6 and parts[1] == 'raw':
                try:
                    mtype = int(parts[4], 16)
                    body = bytes.fromhex(parts[5])
                except ValueError:
                    continue
                key = (mtype, body)
                if key in seen:
                    continue
                seen.add(key)
                out.append({'src': os.path.basename(path), 'type': mtype, 'body': body, 'conf': conf})
    for path in sorted(glob.glob(os.path.join(REPO, 'qa', 'decoding', '*'))):
        lines = open(path, errors='replace').read().split('\n')
        if len(lines) < 2:
            continue
        kind = lines[0].split()
        try:
            raw = bytes.fromhex(lines[1].strip().replace(':', ''))
        except ValueError:
            continue
        if not kind:
            continue
        if raw.startswith(b'\xff' * 16) and len(raw) >= 19:
            mtype, body = raw[18], raw[19:]
        elif kind[0] == 'update':
            mtype, body = 2, raw
        elif kind[0] == 'open':
            mtype, body = 1, raw
        else:
            continue  # bare nlri
        key = (mtype, body)
        if key in seen:
            continue
        seen.add(key)
        out.append({'src': os.path.basename(path), 'type': mtype, 'body': body, 'conf': None})
    return out


ALL_FAMILIES_TEXT = """
        ipv4 unicast; ipv4 multicast; ipv4 nlri-mpls; ipv4 mpls-vpn; ipv4 mcast-vpn; ipv4 flow; ipv4 flow-vpn; ipv4 mup; ipv4 sr-policy;
        ipv6 unicast; ipv6 nlri-mpls; ipv6 mpls-vpn; ipv6 mcast-vpn; ipv6 mup; ipv6 sr-policy; ipv6 flow; ipv6 flow-vpn;
        l2vpn vpls; l2vpn evpn; bgp-ls bgp-ls; bgp-ls bgp-ls-vpn;
"""


def all_families_neighbor(las=65533, pas=65533, asn4=True, addpath=0, adj_rib_in=False, extra=''):
    """A neighbor (real configuration parser) with every family ExaBGP can configure."""
    conf = exa.load_config(all_families_text(las, pas, asn4, addpath, adj_rib_in, extra))
    return list(conf.neighbors.values())[0]


def all_families_text(las=65533, pas=65533, asn4=True, addpath=0, adj_rib_in=False, extra=''):
    cap = f'asn4 {"enable" if asn4 else "disable"}; route-refresh enable; extended-message enable; operational enable; nexthop enable;'
    ap = ''
    if addpath:
        cap += ' add-path {};'.format({1: 'receive', 2: 'send', 3: 'send/receive'}[addpath])
        ap = 'add-path { ipv4 unicast; ipv6 unicast; ipv4 nlri-mpls; ipv6 nlri-mpls; ipv4 mpls-vpn; ipv6 mpls-vpn; }'
    text = f"""
neighbor 127.0.0.2 {{
    router-id 10.0.0.1;
    local-address 127.0.0.1;
    local-as {las};
    peer-as {pas};
    adj-rib-in {"true" if adj_rib_in else "false"};
    {extra}
    family {{ {ALL_FAMILIES_TEXT} }}
    capability {{ {cap} }}
    {ap}
    nexthop {{ ipv4 unicast ipv6; ipv4 multicast ipv6; ipv4 nlri-mpls ipv6; ipv4 mpls-vpn ipv6; }}
}}
"""
    return text


def mirror_session(neighbor, peer_rid='10.0.0.2', peer_as=None, peer_asn4=True, hold=180):
    """Negotiated (production path) against a peer that mirrors our own capabilities.

    The peer OPEN is OUR OPEN's capability bytes with the fixed fields replaced, so every family /
    add-path / extended next hop we configured is negotiated."""
    import struct

    from vlib import refwire as rw

    ours = exa.our_open(neighbor).pack_message(None)
    d = rw.dec_open(ours[19:])
    pas = int(neighbor.session.peer_as) if peer_as is None else peer_as
    caps = []
    for code, val in d['caps']:
        if code == rw.CAP_ASN4:
            if not peer_asn4:
                continue
            val = struct.pack('!L', pas)
        if code == rw.CAP_ADDPATH:
            # swap nothing: bits 3 on both sides negotiate both directions; send-only/receive-only mirror
            val = b''.join(val[i : i + 3] + bytes([{0: 0, 1: 2, 2: 1, 3: 3}[val[i + 3]]]) for i in range(0, len(val), 4))
        caps.append((code, val))
    body = rw.enc_open_body(pas if pas < 65536 else rw.AS_TRANS, hold, peer_rid, caps, extended=d['extended'])
    neg, sent, raw = exa.negotiate(neighbor, body)
    return neg
