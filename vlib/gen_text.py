"""gen_text - route definitions from a grammar written from the documentation (static route syntax of
etc/exabgp/*.conf and configuration/static/route.py `definition`), each draw returning the text AND the intended
meaning (plain dict). Boundary pools per field; `legal` says whether every value is inside what the wire / RFCs allow.
"""

from __future__ import annotations

import random
import struct

from vlib import gen_wire as gw
from vlib import refwire as rw

ORIGINS = {'igp': 0, 'egp': 1, 'incomplete': 2}


def rd_choice(r: random.Random):
    t = r.choice([0, 1, 2])
    if t == 0:
        a, n = r.choice([1, 65000, 65535]), r.choice([0, 1, 100, 2**32 - 1])
        return f'{a}:{n}', struct.pack('!HHL', 0, a, n).hex()
    if t == 1:
        ip, n = r.choice(['192.0.2.1', '10.0.0.1']), r.choice([0, 5, 65535])
        return f'{ip}:{n}', (struct.pack('!H', 1) + rw.ipbytes(ip) + struct.pack('!H', n)).hex()
    a, n = r.choice([65536, 4200000000]), r.choice([0, 9, 65535])
    return f'{a}:{n}', struct.pack('!HLH', 2, a, n).hex()


def gen_route(r: random.Random, afi: int, kind: str, rich: float = 0.6, with_pathid: bool = False, nexthop_pool=None, allow_self: bool = True):
    """kind in unicast|label|vpn -> (text without trailing ';', intent)"""
    prefix = gw.rand_prefix(r, afi)
    while (afi == 1 and int(prefix.split('.')[0]) >= 224) or (afi == 2 and prefix.lower().startswith('ff')):
        prefix = gw.rand_prefix(r, afi)  # ExaBGP files class D / ff00::/8 prefixes under the multicast SAFI
    if afi == 1 and prefix.endswith('/0') and kind != 'unicast':
        prefix = '10.0.0.0/8'
    intent: dict = {'afi': afi, 'safi': {'unicast': 1, 'label': 4, 'vpn': 128}[kind], 'prefix': prefix, 'attrs': {}}
    words = [f'route {prefix}']
    pool = nexthop_pool or (['192.0.2.1', '10.0.0.254', '203.0.113.9'] if afi == 1 else ['2001:db8::ff', '2001:db8:1::1'])
    if allow_self and r.random() < 0.25:
        words.append('next-hop self')
        intent['nexthop'] = 'self'
    else:
        nh = r.choice(pool)
        words.append(f'next-hop {nh}')
        intent['nexthop'] = nh
    if with_pathid:
        pid = r.choice([0, 1, 7, 2**32 - 1])
        words.append(f'path-information {rw.ip4(struct.pack("!L", pid))}')
        intent['pathid'] = pid
    if kind in ('label', 'vpn'):
        labels = [r.choice([16, 17, 100, 1000, 2**20 - 1]) for _ in range(r.choice([1, 1, 2, 3]))]
        bits = int(prefix.split('/')[1])
        while len(labels) > 1 and bits + 24 * len(labels) + (64 if kind == 'vpn' else 0) > 255:
            labels.pop()
        words.append('label [ ' + ' '.join(str(x) for x in labels) + ' ]' if len(labels) > 1 or r.random() < 0.5 else f'label {labels[0]}')
        intent['labels'] = tuple(labels)
    if kind == 'vpn':
        txt, hx = rd_choice(r)
        words.append(f'rd {txt}')
        intent['rd'] = hx
    a = intent['attrs']
    opts = []
    if r.random() < rich:
        o = r.choice(list(ORIGINS))
        opts.append(f'origin {o}')
        a['origin'] = ORIGINS[o]
    if r.random() < rich:
        n = r.choice([0, 1, 2, 4, 12])
        asns = [r.choice(gw.ASN2 + gw.ASN4) for _ in range(n)]
        segs = [(2, asns)] if asns else []
        txt = '[ ' + ' '.join(str(x) for x in asns) + ' ]'
        if asns and r.random() < 0.3:
            # several segments: '[ sequence ] ( set )' as configuration/static/parser.py as_path reads it
            sset = [r.choice(gw.ASN2 + gw.ASN4) for _ in range(r.choice([1, 3]))]
            if r.random() < 0.5:
                sset = [x for x in sset if x <= 65535] or [64512]  # only the sequence holds the 4-byte AS numbers
            txt += ' ( ' + ' '.join(str(x) for x in sset) + ' )'
            segs.append((1, sset))
            a['as_path_has_set'] = True
            if r.random() < 0.3:
                tail = [r.choice(gw.ASN2) for _ in range(r.choice([1, 2]))]
                txt += ' [ ' + ' '.join(str(x) for x in tail) + ' ]'
                segs.append((2, tail))
        opts.append(f'as-path {txt}')
        a['as_path'] = segs
    if r.random() < rich:
        v = r.choice([0, 1, 100, 65535, 65536, 2**32 - 1])
        opts.append(f'med {v}')
        a['med'] = v
    if r.random() < rich:
        v = r.choice([0, 1, 100, 200, 65536, 2**32 - 1])
        opts.append(f'local-preference {v}')
        a['local_pref'] = v
    if r.random() < rich * 0.4:
        opts.append('atomic-aggregate')
        a['atomic'] = True
    if r.random() < rich * 0.4:
        asn = r.choice(gw.ASN2 + gw.ASN4)
        form = r.choice(['{}:{}', '( {}:{} )', '({}:{})'])
        opts.append('aggregator ' + form.format(asn, '192.0.2.200'))
        a['aggregator'] = (asn, '192.0.2.200')
    if r.random() < rich:
        cs = [(r.choice([0, 1, 65000, 65535]), r.choice([0, 1, 666, 65535])) for _ in range(r.choice([1, 2, 5, 30]))]
        names = {(65535, 65281): 'no-export', (65535, 65282): 'no-advertise'}
        if r.random() < 0.15:
            cs.append((65535, 65281))
        opts.append('community [ ' + ' '.join(names.get(c, f'{c[0]}:{c[1]}') if r.random() < 0.7 else f'{c[0]}:{c[1]}' for c in cs) + ' ]')
        a['communities'] = sorted(set(cs))
    if r.random() < rich * 0.6:
        es = []
        txts = []
        for _ in range(r.choice([1, 2, 4])):
            k = r.choice(['target', 'origin'])
            asn, num = r.choice([1, 65000, 65535]), r.choice([0, 1, 2**32 - 1])
            txts.append(f'{k}:{asn}:{num}')
            es.append((bytes([0x00, 0x02 if k == 'target' else 0x03]) + struct.pack('!HL', asn, num)).hex())
        opts.append('extended-community [ ' + ' '.join(txts) + ' ]')
        a['ext_communities'] = sorted(set(es))
    if r.random() < rich * 0.6:
        ls = [(r.choice(gw.ASN2 + gw.ASN4), r.choice([0, 5, 2**32 - 1]), r.choice([0, 9, 2**32 - 1])) for _ in range(r.choice([1, 2, 4]))]
        opts.append('large-community [ ' + ' '.join(f'{x}:{y}:{z}' for x, y, z in ls) + ' ]')
        a['large_communities'] = sorted(set(ls))
    if r.random() < rich * 0.3:
        opts.append('originator-id 10.9.9.9')
        a['originator'] = '10.9.9.9'
        cl = ['10.8.8.8', '10.8.8.7', '10.8.8.6'][: r.choice([1, 2, 3])]
        opts.append('cluster-list [ ' + ' '.join(cl) + ' ]' if len(cl) > 1 or r.random() < 0.5 else f'cluster-list {cl[0]}')
        a['cluster_list'] = cl
    if r.random() < rich * 0.3:
        code, flags, val = r.choice([99, 150, 200]), r.choice([0xC0, 0xC0, 0x80, 0xE0]), bytes(r.getrandbits(8) for _ in range(r.choice([1, 4, 20])))
        opts.append(f'attribute [ 0x{code:02x} 0x{flags:02x} 0x{val.hex()} ]')
        a['unknown'] = [(code, flags, val)]
    r.shuffle(opts)
    return ' '.join(words + opts), intent


def expected_wire(intent: dict, s: dict) -> dict:
    """what the RFCs + the statement's defaults say must be on the wire for this route on session s.

    s: {'ibgp', 'local_as', 'asn4' (negotiated), 'local_addr', 'addpath_send': set of fams}
    -> {'nlri': refwire nlri dict, 'nexthop': str, 'attrs': canonical dict (vlib.norm vocabulary)}"""
    a = dict(intent['attrs'])
    fam = (intent['afi'], intent['safi'])
    out_attrs: dict = {}
    out_attrs['origin'] = a.get('origin', 0)
    if 'as_path' in a and not a['as_path']:
        out_attrs['as_path'] = '*empty-or-default*'  # an explicitly empty 'as-path [ ]' on eBGP has no defined meaning
    elif 'as_path' in a:
        out_attrs['as_path'] = rw.normalise_path(a['as_path'])
    else:
        out_attrs['as_path'] = [] if s['ibgp'] else [(2, [s['local_as']])]
    if s['ibgp']:
        out_attrs['local_pref'] = a.get('local_pref', 100)
    if 'med' in a:
        out_attrs['med'] = a['med']
    if a.get('atomic'):
        out_attrs['atomic'] = True
    if 'aggregator' in a:
        out_attrs['aggregator'] = tuple(a['aggregator'])
    for k in ('communities', 'ext_communities', 'large_communities'):
        if k in a:
            out_attrs[k] = sorted(a[k])
    if 'originator' in a:
        out_attrs['originator'] = a['originator']
    if 'cluster_list' in a:
        out_attrs['cluster_list'] = list(a['cluster_list'])
    if 'unknown' in a:
        out_attrs['unknown'] = sorted((c, bytes(v).hex()) for c, f, v in a['unknown'])
    nh = s['local_addr'] if intent['nexthop'] == 'self' else intent['nexthop']
    pid = None
    if fam in s['addpath_send']:
        pid = intent.get('pathid', 0)
    nlri = rw.mk_nlri(intent['afi'], intent['safi'], intent['prefix'], pid, intent.get('labels', ()), intent.get('rd'))
    return {'nlri': nlri, 'nexthop': nh, 'attrs': out_attrs}
