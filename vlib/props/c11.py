"""C11 - after any session loss the peer is fully resynchronised.

Lab: the real reactor with adj-rib-out kept; the scripted remote speaker drops the session at an enumerated crash
point (after the k-th UPDATE of the initial batch, during establishment, after steady state), API commands are
issued before the loss and while the session is down, then the session is re-established and everything the remote
receives is replayed into a reference peer table (empty at the start of the new session).
"""

from __future__ import annotations

import random

from vlib import refwire as rw
from vlib import scen
from vlib.mon import Result

PROPERTY = 'C11'
LEVEL = 'fault_enumeration'
RULE = (
    'histories = configured routes (40..400, one UPDATE each) + API announce/withdraw before the loss + API '
    'announce/withdraw while down; crash points enumerated: after the k-th UPDATE of the batch for k across the whole '
    'batch, after our OPEN, after the peer OPEN, after the first KEEPALIVE, in steady state; loss kinds EOF, RST, peer '
    'NOTIFICATION, hold-timer expiry. distinct = (crash point class, loss kind, ops-while-down class, k bucket)'
)
ASSUMPTIONS = [
    'bounded progress: the new session must deliver the table and an End-of-RIB per negotiated family within 30 virtual seconds of establishment',
    'only API-announced routes are withdrawn while down (withdrawing a configured route through the API is ambiguous: the configuration still holds it)',
    'a real peer flushes its table on session loss: the reference table starts empty on the new session',
]
MANIFEST = {
    'level': 'fault_enumeration',
    'technique': 'runtime monitoring in the virtual-clock lab: crash-point enumeration by a scripted remote speaker, offline replay of the received UPDATEs into a reference peer table compared with a sequential model of the operation history; connection drops, API operations while down and the resynchronisation also observed on the real exabgp process with a real helper process',
    'text': 'For each history the connection is dropped at enumerated points (every k-th message of the initial batch in thorough, a '
    'spread of k in quick; establishment phases; steady state) with four loss kinds; after re-establishment the peer table rebuilt '
    'from the wire must equal configured + API routes not withdrawn, followed by an End-of-RIB per family.',
    'note': 'trusted base: refwire decoder + PeerTable, the 15 line history model; loopback TCP; virtual clock',
}
SHARD_TIMEOUT = {'quick': 900, 'thorough': 3000}

FAMS = [(1, 1), (2, 1)]


def conf_routes(n):
    out = []
    for i in range(n):
        if i % 5 == 4:
            out.append((f'2001:db8:{i:x}::/48', '2001:db8::1', i % 7))
        else:
            out.append((f'10.{(i >> 8) & 255}.{i & 255}.0/24', '192.0.2.1', i % 7))
    return out


def api_route(j):
    return (f'172.16.{j}.0/24', '192.0.2.2', 50 + j % 9)


def build_case(r: random.Random, idx: int, tier: str, forced=None):
    n = r.choice([40, 90, 250]) if tier == 'quick' else r.choice([40, 120, 400, 900])
    routes = conf_routes(n)
    loss = r.choice(['eof', 'rst', 'notification', 'hold'])
    crash = r.choice(['batch', 'batch', 'batch', 'after-our-open', 'after-peer-open', 'after-keepalive', 'steady'])
    if forced:
        crash, loss = forced[:2]
    H = 6 if loss == 'hold' else 90
    adjout = r.random() >= 0.2
    if forced and len(forced) > 4:
        adjout = forced[4]
    cfg = {'hold': H, 'families': FAMS, 'adjout': adjout, 'refresh': adjout, 'api': True, 'group_updates': False, 'route_texts': [f'route {p} next-hop {nh} med {m};' for p, nh, m in routes]}
    before = [api_route(j) for j in range(r.choice([0, 3, 6]))]
    down_ops = r.choice(['none', 'announce', 'withdraw', 'both'])
    # what happens around the resynchronisation itself
    prelude = r.choice(['none', 'none', 'none', 'reload-neighbor-change'])
    resync = r.choice(['none', 'none', 'refresh-at-start', 'api-during-batch', 'refresh+api', 'flush-while-down'])
    if forced and len(forced) > 2:
        prelude, resync = forced[2], forced[3]
        forced = forced[:2]
    if not adjout:
        resync = 'none' if resync in ('refresh-at-start', 'refresh+api', 'flush-while-down') else resync  # no route refresh capability without the cache
    steps = [['accept', 30.0]]
    k = None
    if crash == 'after-our-open':
        steps += [['wait_msg', rw.OPEN, 10.0]]
    elif crash == 'after-peer-open':
        steps += [['wait_msg', rw.OPEN, 10.0], ['open']]
    elif crash == 'after-keepalive':
        steps += [['wait_msg', rw.OPEN, 10.0], ['open'], ['wait_msg', rw.KEEPALIVE, 10.0]]
    else:
        steps += [['establish']]
        if prelude == 'reload-neighbor-change':
            # a reload which changes the neighbor (hold time: the session is re-established) and drops two configured
            # routes, which the API then announces again: they belong to the Adj-RIB-Out from then on
            dropped, routes = routes[:2], routes[2:]
            cfg2 = dict(cfg, hold=H + 7, route_texts=[f'route {p} next-hop {nh} med {m};' for p, nh, m in routes])
            steps += [['wait_quiet', 1.0, 60.0], ['reload', scen.config_text(cfg2, '@PORT@')], ['wait_closed', 20.0], ['eof'], ['accept', 60.0], ['establish'], ['wait_quiet', 1.0, 60.0]]
            before = before + dropped
        for (p, nh, m) in before:
            steps.append(['api', f'peer * announce route {p} next-hop {nh} med {m}'])
        if crash == 'batch' and prelude != 'none':
            crash = 'steady'
        if crash == 'batch':
            k = r.randrange(0, n + 1)
            if k:
                steps.append(['wait_msg', rw.UPDATE, 60.0, k])
        else:
            steps.append(['wait_quiet', 1.5, 60.0])
    steps.append(['mark', 'loss'])
    if loss == 'eof':
        steps.append(['eof'])
    elif loss == 'rst':
        steps.append(['rst'])
    elif loss == 'notification':
        steps += [['send', rw.notification(6, 4).hex()], ['wait_closed', 5.0], ['eof']]
    else:
        steps += [['wait_closed', H + 4.0], ['eof']]
    steps.append(['sleep', 0.3])
    established_before = crash in ('batch', 'steady')
    announced = list(before) if established_before else []
    withdrawn = []
    flush_first = resync == 'flush-while-down' and r.random() < 0.6
    if flush_first:
        # the flush comes BEFORE the other operations issued while down: what it queued for re-sending must still follow them
        steps.append(['api', 'rib flush out'])
        if down_ops in ('none', 'announce') and announced:
            down_ops = 'withdraw' if down_ops == 'none' else 'both'
    if down_ops in ('announce', 'both'):
        extra = [api_route(100 + j) for j in range(3)]
        for (p, nh, m) in extra:
            steps.append(['api', f'peer * announce route {p} next-hop {nh} med {m}'])
        announced += extra
    if down_ops in ('withdraw', 'both') and announced:
        victims = announced[: max(1, len(announced) // 2)]
        for (p, nh, m) in victims:
            steps.append(['api', f'peer * withdraw route {p} next-hop {nh}'])
        withdrawn = victims
        announced = [x for x in announced if x not in victims]
    if resync == 'flush-while-down' and not flush_first:
        steps.append(['api', 'rib flush out'])
    steps += [['sleep', 0.2], ['accept', 60.0], ['mark', 'second-session'], ['establish']]
    if H < 90:
        # the hold time of the 'hold' cases is short on purpose (the first session is lost by letting it run out): the second
        # session must not be lost the same way while a long table is going out
        steps.append(['keepalives', H / 3.0])
    late = []
    withdrawn_down = [p for p, _, _ in withdrawn]
    if resync in ('refresh-at-start', 'refresh+api'):
        import struct

        steps.append(['send', rw.message(rw.ROUTE_REFRESH, struct.pack('!HBB', 1, 0, 1)).hex()])
    if resync in ('api-during-batch', 'refresh+api'):
        # operations landing between two UPDATEs of the resynchronisation batch
        k2 = r.choice([1, 5, 24, 26, n // 2])
        limit = n - 1
        if resync == 'refresh+api':
            # the routes asked for by the ROUTE-REFRESH are streamed after (or in the middle of) the initial table: the
            # operations must also land while THOSE are going out, whatever the order the two streams take
            k2 = r.choice([1, 5, 26, n // 2, n + 3, n + n // 2, 2 * n - 3])
            limit = 2 * n - 1
        steps.append(['wait_msg', rw.UPDATE, 60.0, max(1, min(k2, limit))])
        victims2 = announced[:1] + ([routes[-1]] if r.random() < 0.5 else [])
        for (p, nh, m) in victims2:
            steps.append(['api', f'peer * withdraw route {p} next-hop {nh}'])
        announced = [x for x in announced if x not in victims2]
        routes = [x for x in routes if x not in victims2]
        withdrawn = withdrawn + victims2
        late = [api_route(200 + j) for j in range(2)]
        for (p, nh, m) in late:
            steps.append(['api', f'peer * announce route {p} next-hop {nh} med {m}'])
        announced += late
    if resync == 'refresh+api':
        # second round, from a quiet session: a ROUTE-REFRESH and a new API route arrive together, so that ONE batch of the
        # update generator holds the refreshed routes (streamed first) and the new announcement; the route is withdrawn
        # while the refreshed routes are going out.  It must be gone in the end, whichever batch carries the withdrawal
        import struct

        y = api_route(177)
        steps += [['wait_quiet', 1.0, 30.0], ['send', rw.message(rw.ROUTE_REFRESH, struct.pack('!HBB', 1, 0, 1)).hex()], ['api', f'peer * announce route {y[0]} next-hop {y[1]} med {y[2]}']]
        steps += [['wait_more', rw.UPDATE, 30.0, r.choice([1, 2, 3, 8, n // 3])], ['api', f'peer * withdraw route {y[0]} next-hop {y[1]}']]
        withdrawn = withdrawn + [y]
    steps += [['wait_quiet', 2.0, 30.0], ['mark', 'end']]
    intended = {p: (nh, m) for p, nh, m in routes}
    intended.update({p: (nh, m) for p, nh, m in announced})
    return {
        'config': cfg,
        'steps': steps,
        'vtimeout': 400.0,
        'rx_limit': 70000,
        'wall': 150.0,
        'quantum': 0.0005,
        'crash': crash,
        'loss': loss,
        'k': k,
        'n': n,
        'down_ops': down_ops,
        'adjout': adjout,
        'api_prefixes': sorted({p for p, _, _ in announced} - {p for p, _, _ in routes}),
        'prelude': prelude,
        'resync': resync,
        'late': [p for p, _, _ in late],
        'withdrawn_down': withdrawn_down,
        'intended': intended,
        'withdrawn': [p for p, _, _ in withdrawn],
    }


def plan(tier, seed):
    n = 16
    return [{'shard': i, 'nshards': n, 'cases': 7 if tier == 'quick' else 60} for i in range(n)] + [{'shard': 900 + i, 'daemon': True, 'part': i, 'cases': 3 if tier == 'quick' else 12} for i in range(4 if tier == 'quick' else 8)]


def judge(res: Result, case, rec):
    cls = f'{case["crash"]}:{case["loss"]}:{case["down_ops"]}'
    wit = {k: case[k] for k in ('crash', 'loss', 'k', 'n', 'down_ops', 'withdrawn', 'prelude', 'resync')}
    wit['steps'] = [[x if not isinstance(x, str) or len(x) < 200 else x[:200] + '...' for x in s] for s in case['steps'] if s[0] in ('api', 'mark', 'eof', 'rst', 'wait_msg', 'reload', 'accept', 'establish')][:40]
    wit['notes'] = rec['notes']
    marks = {e['name']: e for e in rec['events'] if e['kind'] == 'mark'}
    if 'second-session' not in marks or marks['second-session'].get('session') is None or 'end' not in marks:
        res.inconclusive.append(f'{cls}: second session not reached {rec["notes"]}')
        return
    if any(n[1] == 'not-established' for n in rec['notes'] if n[0] > 3):
        res.inconclusive.append(f'{cls}: second session not established {rec["notes"]}')
        return
    sid = marks['second-session']['session']
    sess = rec['sessions'][sid]
    first_seen = {}
    table = rw.PeerTable()
    eors = {}
    last_update_at = None
    order_problem = None
    s = rw.sess(asn4=True, addpath=())
    nmsg = 0
    for t, ty, body in sess['rx']:
        if ty != rw.UPDATE:
            continue
        if '..' in body:
            res.inconclusive.append('truncated body in record')
            return
        nmsg += 1
        try:
            d = rw.dec_update(bytes.fromhex(body), s)
        except rw.RefError as e:
            res.violation('C11/undecodable-update', f'UPDATE on the new session does not decode: {e}', dict(wit, body=body[:200]), cls)
            return
        if d['eor']:
            eors[tuple(d['eor'])] = t
            continue
        if eors and last_update_at is None:
            pass
        if d['announce'] or d['withdraw']:
            # an UPDATE after an End-of-RIB is fine (later changes, the answer to a ROUTE-REFRESH) unless it is the first
            # time a route of the initial table is seen: that one belonged to the batch the End-of-RIB closes
            for n, hops in d['announce']:
                fam = (n['afi'], n['safi'])
                if n['prefix'] not in first_seen:
                    first_seen[n['prefix']] = t
                    if fam in eors and n['prefix'] in case['intended'] and n['prefix'] not in case.get('late', []):
                        order_problem = (n['prefix'], t, eors[fam])
            table.apply(d)
            last_update_at = t
    got = {}
    for key, v in table.routes.items():
        med = dict(v['attrs']).get(rw.MED)
        got[key[5]] = (v['nexthop'][0] if v['nexthop'] else None, int(med) if med is not None else None)
    want = {}
    import socket

    for p, (nh, m) in case['intended'].items():
        addr, ml = p.split('/')
        fam = socket.AF_INET6 if ':' in addr else socket.AF_INET
        want[f'{socket.inet_ntop(fam, socket.inet_pton(fam, addr))}/{ml}'] = (nh, m)
    if not case.get('adjout', True):
        # without an Adj-RIB-Out nothing remembers the API routes of an earlier session: only the configured routes
        # and what the API asked for on the new session are judged
        late = set(case.get('late', []))
        api_only = set(case.get('api_prefixes', []))
        for p in [p for p in list(want) + list(got) if (p.startswith('172.16.') or p in api_only) and p not in late]:
            want.pop(p, None)
            got.pop(p, None)
    wit['adjout'] = case.get('adjout', True)
    wit['messages_on_new_session'] = nmsg
    missing = sorted(set(want) - set(got))
    extra = sorted(set(got) - set(want))
    if missing:
        kind = 'api' if any(m.startswith('172.16.') for m in missing) and not any(m.startswith('10.') or ':' in m for m in missing) else 'configured'
        res.violation(f'C11/route-not-readvertised:{kind}:{case["crash"]}', f'{len(missing)} intended routes are not in the peer table after resynchronisation (e.g. {missing[:3]})', dict(wit, missing=missing[:10]), cls)
        return
    resurrect = [p for p in extra if p in case['withdrawn']]
    if resurrect:
        if case['resync'] in ('api-during-batch', 'refresh+api') and not [p for p in resurrect if p in case.get('withdrawn_down', case['withdrawn'])]:
            res.violation(f'C11/withdrawn-during-resync-still-held:{case["resync"]}', f'routes withdrawn between two UPDATEs of the resynchronisation batch are still in the peer table: {resurrect[:3]}', dict(wit, extra=extra[:10]), cls)
            return
        res.violation(f'C11/withdrawn-while-down-readvertised:{case["crash"]}', f'routes withdrawn while the session was down were advertised on the new session: {resurrect[:3]}', dict(wit, extra=extra[:10]), cls)
        return
    if extra:
        res.violation(f'C11/unexpected-route:{case["crash"]}', f'peer table holds routes nobody intends: {extra[:3]}', dict(wit, extra=extra[:10]), cls)
        return
    wrong = [p for p in want if got[p] != want[p]]
    if wrong:
        res.violation(f'C11/route-differs:{case["crash"]}', f'route {wrong[0]} arrived as {got[wrong[0]]}, intended {want[wrong[0]]}', wit, cls)
        return
    for fam in FAMS:
        if tuple(fam) not in eors:
            res.violation(f'C11/no-eor:{fam[0]}/{fam[1]}', f'no End-of-RIB for family {fam} on the new session', dict(wit, eors=[list(k) for k in eors]), cls)
            return
    if order_problem:
        res.violation('C11/eor-before-batch-end', f'route {order_problem[0]} of the initial table arrived at {order_problem[1]} after the End-of-RIB of its family at {order_problem[2]}', wit, cls)
        return
    kb = 'none' if case['k'] is None else 'k0' if case['k'] == 0 else 'kfull' if case['k'] >= case['n'] else 'kmid'
    res.ok(cls, (case['crash'], case['loss'], case['down_ops'], kb))
    res.ok('crash:' + case['crash'])
    res.ok('loss:' + case['loss'])
    res.ok('down:' + case['down_ops'])
    res.ok('prelude:' + case['prelude'])
    res.ok('resync:' + case['resync'])
    res.ok('adj-rib-out:' + str(case.get('adjout', True)).lower())
    res.extra.setdefault('routes_resynchronised', 0)
    res.extra['routes_resynchronised'] += len(want)


def run_clear_wider(res, desc):
    """`rib clear out` on a session which negotiated only one of the two configured families, then the session is lost and the
    next one negotiates both: what was cleared stays cleared - nothing of either family is advertised again"""
    import json as _json
    import time

    from vlib import daemon, exa
    from vlib.props.c10 import open_body

    text = 'process player {\n    run @PY@ @DIR@/player.py @DIR@/script @DIR@/replies;\n    encoder json;\n}\n' + exa.neighbor_text(
        hold=90,
        families=[(1, 1), (2, 1)],
        body='    static {\n        route 10.1.0.0/24 next-hop 192.0.2.1;\n        route 10.2.0.0/24 next-hop 192.0.2.1;\n        route 2001:db8:1::/48 next-hop 2001:db8::1;\n        route 2001:db8:2::/48 next-hop 2001:db8::1;\n    }\n',
        extra='    adj-rib-out true;\n    api { processes [ player ]; }',
    )
    d = daemon.Daemon(text, files={'script': '#sleep 1.0\n#wait g1\nrib clear out\n#wait g2\n'})
    peer = None
    cls = 'daemon:clear-then-wider-session'
    try:
        d.start()
        peer = d.accept()
        t, body = peer.read_message(20)
        peer.conn.sendall(open_body(caps=[rw.cap_mp(1, 1), rw.cap_asn4(65001)]))
        peer.send(4)
        if peer.read_message(20)[0] != 4:
            raise daemon.Inconclusive('no KEEPALIVE on the ipv4-only session')
        first = peer.drain(quiet=0.8, limit=20)
        d.wait_lines('replies', lambda ls: any(x.startswith('["wait", "g1"') for x in ls), timeout=60)
        d.release('g1')
        d.wait_lines('replies', lambda ls: any(x.startswith('["wait", "g2"') for x in ls), timeout=60)
        first += peer.drain(quiet=0.8, limit=20)
        peer.close()
        peer = d.accept(timeout=60)
        peer.establish(65001, hold=90)  # mirrors the daemon's OPEN: both families
        rx = []
        t_end = time.monotonic() + 60
        while time.monotonic() < t_end:
            got = peer.drain(quiet=1.5, limit=20)
            rx += got
            if not got:
                break
    except daemon.Inconclusive as e:
        daemon.skipped(res, str(e))
        return
    finally:
        try:
            if peer is not None:
                peer.close()
        except Exception:  # noqa
            pass
        d.stop()
    table = rw.PeerTable()
    try:
        for t, b in rx:
            if t == 2:
                dec = rw.dec_update(bytes(b), rw.sess(asn4=True, addpath=()))
                if not dec['eor']:
                    table.apply(dec)
    except rw.RefError as e:
        res.violation('C11/daemon:undecodable-update', str(e), {'level': 'daemon'}, cls)
        return
    got = sorted(k[5] for k in table.routes)
    if got:
        res.violation('C11/daemon:cleared-routes-readvertised', f'`rib clear out` was answered on a session which had negotiated ipv4 only; after the loss the next session (both families) was sent {got}', {'level': 'daemon', 'first_session_messages': len(first)}, cls)
    else:
        res.ok(cls, ('daemon', 'clear-wider'))


def run_daemon(desc):
    """the REAL daemon: a scripted peer drops the connection after k messages of a batch (or during the OPEN exchange), a real
    helper process withdraws and announces routes while the session is down, the daemon comes back by itself.  The table the
    peer rebuilds from the NEW session alone is the configuration plus the API routes not since withdrawn, and the End-of-RIB
    comes after all of them"""
    import json as _json
    import time

    from vlib import daemon, exa
    from vlib.props.c17 import canon

    res = Result()
    r = random.Random(desc['seed'] * 9176327 + desc['part'])
    if desc['part'] % 2 == 0:
        run_clear_wider(res, desc)
    for ci in range(desc['cases']):
        n = r.choice([6, 40, 300])
        conf_routes = [('10.%d.%d.0/24' % (i // 250, i % 250), '192.0.2.1', i % 7) for i in range(n)]
        a = [('172.16.%d.0/24' % i, '192.0.2.2', 10 + i) for i in range(1, 6)]
        crash = r.choice(['batch', 'batch', 'after-our-open', 'after-peer-open', 'steady'])
        k = r.randrange(0, 12)
        text = 'process player {\n    run @PY@ @DIR@/player.py @DIR@/script @DIR@/replies;\n    encoder json;\n}\n' + exa.neighbor_text(
            hold=90,
            families=[(1, 1)],
            body='    static {\n' + ''.join(f'        route {p} next-hop {nh} med {m};\n' for p, nh, m in conf_routes) + '    }\n',
            extra='    adj-rib-out true;\n    group-updates false;\n    api { processes [ player ]; }',
        )
        script = '#sleep 1.0\n' + ''.join(f'peer * announce route {p} next-hop {nh} med {m}\n' for p, nh, m in a[:3]) + '#wait g1\n'
        script += f'peer * withdraw route {a[0][0]} next-hop {a[0][1]}\n' + ''.join(f'peer * announce route {p} next-hop {nh} med {m}\n' for p, nh, m in a[3:]) + f'peer * withdraw route {conf_routes[1][0]} next-hop 192.0.2.1\n#wait g2\n'
        want = {canon(p): (nh, m) for p, nh, m in conf_routes + a[1:]}
        want.pop(canon(conf_routes[1][0]))
        cls = f'daemon:{crash}'
        wit = {'crash': crash, 'k': k, 'routes': n, 'level': 'daemon'}
        d = daemon.Daemon(text, files={'script': script})
        peer = None
        try:
            d.start()
            peer = d.accept()
            if crash == 'after-our-open':
                peer.read_message(20)
            elif crash == 'after-peer-open':
                t, body = peer.read_message(20)
                from vlib.props.c10 import open_body

                peer.conn.sendall(open_body(caps=[rw.cap_mp(1, 1), rw.cap_asn4(65001)]))
            else:
                peer.establish(65001, hold=90)
                if crash == 'steady':
                    d.wait_lines('replies', lambda ls: any(x.startswith('["wait"') for x in ls), timeout=60)
                    peer.drain(quiet=0.8, limit=30)
                else:
                    for _ in range(k):
                        peer.read_message(5)
            peer.close()
            peer = None
            d.wait_lines('replies', lambda ls: any(x.startswith('["wait", "g1"') for x in ls), timeout=60)
            d.release('g1')
            d.wait_lines('replies', lambda ls: any(x.startswith('["wait", "g2"') for x in ls), timeout=60)
            replies = [_json.loads(x) for x in d.lines('replies')]
            if any(x[0] == 'timeout' for x in replies) or any(x[0] == 'got' and 'error' in x[1] for x in replies):
                daemon.skipped(res, 'an API command of the scenario was refused or not answered: ' + str([x for x in replies if x[0] != 'sent'][-4:]))
                continue
            # connections queued in the backlog before the API operations were made are dropped: the next one is judged
            time.sleep(0.5)
            d.listener.settimeout(0.2)
            while True:
                try:
                    c_, _ = d.listener.accept()
                    c_.close()
                except (OSError, TimeoutError):
                    break
            peer = d.accept(timeout=60)
            peer.establish(65001, hold=90)
            # until the End-of-RIB has come and the daemon has been quiet (on a loaded machine a pause in the middle of the
            # table is not the end of it); bounded by 90 s of real time
            rx = []
            t_end = time.monotonic() + 90
            while time.monotonic() < t_end:
                got = peer.drain(quiet=1.5, limit=20)
                rx += got
                if any(t_ is None or t_ == 3 for t_, _ in got):
                    break
                if any(t_ == 2 and bytes(b_) == b'\x00\x00\x00\x00' for t_, b_ in rx) and not got:
                    break
                if not got and len(rx) == 0:
                    continue
        except daemon.Inconclusive as e:
            daemon.skipped(res, str(e))
            continue
        finally:
            try:
                if peer is not None:
                    peer.close()
            except Exception:  # noqa
                pass
            d.stop()
        table = rw.PeerTable()
        eor_at = None
        last_route_at = None
        try:
            for i, (t, b) in enumerate(rx):
                if t == 3:
                    res.violation('C11/daemon:notification-on-the-new-session', f'NOTIFICATION {b[0]}/{b[1]} on the session which follows the loss', wit, cls)
                    break
                if t != 2:
                    continue
                dec = rw.dec_update(bytes(b), rw.sess(asn4=True, addpath=()))
                if dec['eor']:
                    eor_at = i if eor_at is None else eor_at
                    continue
                table.apply(dec)
                last_route_at = i
        except rw.RefError as e:
            res.violation('C11/daemon:undecodable-update', str(e), wit, cls)
            continue
        got = {}
        for key, v in table.routes.items():
            med = dict(v['attrs']).get(rw.MED)
            got[key[5]] = (v['nexthop'][0] if v['nexthop'] else None, int(med) if med is not None else None)
        wit['peer_table_size'] = len(got)
        missing = sorted(set(want) - set(got))
        extra = sorted(set(got) - set(want))
        wrong = sorted(p for p in set(got) & set(want) if got[p] != want[p])
        if missing:
            src = 'api' if any(p.startswith('172.') for p in missing) else 'configured'
            res.violation(f'C11/daemon:route-not-readvertised:{src}:{crash}', f'after the loss ({crash}, k={k}) the new session lacks {missing[:4]}', dict(wit, missing=missing[:20]), cls)
        elif extra:
            res.violation(f'C11/daemon:withdrawn-while-down-readvertised:{crash}', f'routes withdrawn while the session was down were advertised on the new session: {extra[:4]}', dict(wit, extra=extra[:20]), cls)
        elif wrong:
            res.violation(f'C11/daemon:stale-values:{crash}', f'{wrong[0]} advertised as {got[wrong[0]]}, intended {want[wrong[0]]}', wit, cls)
        elif eor_at is None:
            res.violation(f'C11/daemon:no-eor:{crash}', 'the complete table was advertised again but no End-of-RIB followed', wit, cls)
        elif last_route_at is not None and last_route_at > eor_at:
            res.violation(f'C11/daemon:eor-before-batch-end:{crash}', f'End-of-RIB was message {eor_at}, routes of the table went on until message {last_route_at}', wit, cls)
        else:
            res.ok(cls, ('daemon', crash, n))
            res.ok('daemon:resync')
    return res


def run_shard(desc):
    if desc.get('daemon'):
        return run_daemon(desc)
    res = Result()
    r = random.Random(desc['seed'] * 7727 + desc['shard'])
    forced_list = [(c, l) for c in ('batch', 'after-our-open', 'after-peer-open', 'after-keepalive', 'steady') for l in ('eof', 'rst', 'notification', 'hold')]
    forced_list += [('steady', 'eof', 'reload-neighbor-change', 'none'), ('steady', 'rst', 'reload-neighbor-change', 'api-during-batch'), ('batch', 'eof', 'none', 'refresh+api'), ('steady', 'notification', 'none', 'refresh+api'),
                    ('batch', 'rst', 'none', 'none', False), ('steady', 'eof', 'none', 'api-during-batch', False), ('steady', 'notification', 'reload-neighbor-change', 'none', False),
                    ('batch', 'rst', 'none', 'refresh-at-start'), ('steady', 'eof', 'none', 'api-during-batch'), ('batch', 'eof', 'none', 'flush-while-down'), ('steady', 'rst', 'none', 'flush-while-down'), ('steady', 'eof', 'none', 'flush-while-down'), ('steady', 'hold', 'reload-neighbor-change', 'refresh+api')]
    for i in range(desc['cases']):
        forced = None
        gi = desc['shard'] * desc['cases'] + i
        if gi < len(forced_list):
            forced = forced_list[gi]  # make sure the crash x loss matrix is covered
            if forced[0] != 'steady' and forced[0] != 'batch' and forced[1] == 'hold':
                forced = (forced[0], 'eof') + tuple(forced[2:])  # a hold timer cannot expire before establishment
        case = build_case(r, i, desc['tier'], forced)
        status, rec = scen.run_case(case)
        if status != 'ok':
            res.inconclusive.append(f'{case["crash"]}/{case["loss"]}: lab {status} {str(rec)[:200]}')
            continue
        judge(res, case, rec)
        res.sample({'crash': case['crash'], 'loss': case['loss'], 'k': case['k'], 'n': case['n'], 'down_ops': case['down_ops']}, limit=3)
    return res


REQUIRED_CLASSES = {
    'quick': ['crash:batch', 'crash:steady', 'crash:after-our-open', 'crash:after-peer-open', 'crash:after-keepalive', 'loss:eof', 'loss:rst', 'loss:notification', 'loss:hold', 'down:announce', 'down:withdraw',
              'prelude:reload-neighbor-change', 'resync:refresh-at-start', 'resync:api-during-batch', 'resync:refresh+api', 'resync:flush-while-down', 'adj-rib-out:false', 'adj-rib-out:true', 'daemon:resync'],
}
REQUIRED_CLASSES['thorough'] = REQUIRED_CLASSES['quick']
