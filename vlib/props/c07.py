"""C07 - negotiated session parameters are the RFC function of the two OPENs.

Monitor: real Configuration parser -> real Capabilities().new / Open.make_open / Message.unpack(OPEN)
/ Negotiated.sent+received+validate (the sequence Peer._establish runs), observed at their
return values; oracle: refwire.dec_open / refwire.negotiate (no exabgp code).
"""

from __future__ import annotations

import random
import struct

from vlib import exa
from vlib import refwire as rw
from vlib.mon import Result

PROPERTY = 'C07'
LEVEL = 'exploration'
RULE = (
    'seeded (neighbor configuration, peer OPEN) pairs; configuration knobs toggled independently '
    '(local/peer AS 2- or 4-byte, iBGP/eBGP, asn4, families 1..23, add-path mode+families, extended next hop, '
    'refresh, extended message, graceful restart, hold time); peer OPEN with any subset/order/duplication of '
    'capabilities in classic or RFC 9072 form, or exactly one injected fault. distinct = distinct '
    '(config kind, peer capability kind, outcome) signatures'
)
ASSUMPTIONS = [
    'refwire.dec_open/negotiate implement RFC 4271 4.2, 5492, 9072, 6793, 7911, 8950, 7313, 8654 correctly',
    'families are compared with the strict intersection of the two MP capability sets, as the statement says',
    'ADD-PATH configuration is only generated for the families ExaBGP documents as ADD-PATH capable',
    'extended next hop entries are only generated when the next hop AFI is configured for the same SAFI (documented ExaBGP restriction)',
    '4-byte AS numbers are only configured together with the ASN4 capability (RFC 6793 OLD speakers use AS_TRANS)',
]
MANIFEST = {
    'level': 'exploration',
    'technique': 'runtime differential monitor: real OPEN encode/decode/negotiate path vs independent RFC reference over generated session pairs',
    'text': 'Seeded exploration of (configuration, peer OPEN) pairs through the production construction path; every '
    'negotiated field, the OPEN bytes sent and every refusal code are compared with an independent reference. '
    'Held means no disagreement on the pairs generated; it is not a proof over all OPENs.',
    'note': 'trusted base: vlib/refwire (reviewed, self-consistency counted in evidence); generator restricted to ADD-PATH families ExaBGP supports; API negotiated event not decoded',
}
SHARD_TIMEOUT = {'quick': 300, 'thorough': 1500}

ALL_FAMS = [
    (1, 1),
    (1, 2),
    (1, 4),
    (1, 128),
    (1, 5),
    (1, 133),
    (1, 134),
    (1, 85),
    (1, 73),
    (2, 1),
    (2, 4),
    (2, 128),
    (2, 5),
    (2, 85),
    (2, 73),
    (2, 133),
    (2, 134),
    (25, 65),
    (25, 70),
    (16388, 71),
    (16388, 72),
]
ADDPATH_OK = [(1, 1), (2, 1), (1, 4), (2, 4), (1, 128), (2, 128), (1, 85), (2, 85)]
NEXTHOP_OK = [(1, 1, 2), (1, 2, 2), (1, 4, 2), (1, 128, 2)]
exa.FAM_TEXT.update(
    {
        (1, 5): 'ipv4 mcast-vpn',
        (2, 5): 'ipv6 mcast-vpn',
        (1, 85): 'ipv4 mup',
        (2, 85): 'ipv6 mup',
        (1, 73): 'ipv4 sr-policy',
        (2, 73): 'ipv6 sr-policy',
        (25, 65): 'l2vpn vpls',
        (25, 70): 'l2vpn evpn',
        (16388, 71): 'bgp-ls bgp-ls',
        (16388, 72): 'bgp-ls bgp-ls-vpn',
    }
)

AS_POOL2 = [1, 64512, 65000, 65535, 23455]
AS_POOL4 = [65536, 70000, 4200000000, 4294967295]


def plan(tier, seed):
    n = 16 if tier == 'quick' else 64
    per = 160 if tier == 'quick' else 900
    return [{'shard': i, 'configs': per, 'opens': 7} for i in range(n)]


def gen_config(r: random.Random) -> dict:
    asn4 = r.random() < 0.8
    # without the ASN4 capability neither AS can be a 4-byte one (RFC 6793: an OLD speaker is configured with AS_TRANS)
    pool = AS_POOL2 + AS_POOL4 if asn4 else AS_POOL2
    las = r.choice(pool)
    kind = r.choice(['ibgp', 'ebgp', 'ebgp'])
    pas = las if kind == 'ibgp' else r.choice([a for a in pool if a != las])
    nf = r.choice([1, 1, 2, 3, 5, 8, len(ALL_FAMS)])
    fams = r.sample(ALL_FAMS, nf)
    if r.random() < 0.6 and (1, 1) not in fams:
        fams[0] = (1, 1)
    if r.random() < 0.5 and (2, 1) not in fams:
        fams.append((2, 1))
    apmode = r.choice([0, 0, 1, 2, 3])
    apf = [f for f in fams if f in ADDPATH_OK and r.random() < 0.7] if apmode else []
    if apmode and not apf:
        apmode = 0
    # ExaBGP documents that an extended next hop entry needs the next hop AFI configured for the same SAFI
    nh = [t for t in NEXTHOP_OK if (t[0], t[1]) in fams and (t[2], t[1]) in fams and r.random() < 0.8] if r.random() < 0.5 else []
    return {
        'las': las,
        'pas': pas,
        'families': fams,
        'asn4': asn4,
        'addpath': apmode,
        'addpath_families': apf,
        'nexthop': nh,
        'extmsg': r.random() < 0.5,
        'refresh': r.random() < 0.7,
        'graceful': r.choice([None, None, 0, 120, 4095]),
        'hold': r.choice([0, 3, 30, 90, 180, 65535]),
        'rid': r.choice(['10.0.0.1', '1.1.1.1', '255.255.255.254']),
    }


def config_text(c: dict) -> str:
    return exa.neighbor_text(
        las=c['las'],
        pas=c['pas'],
        hold=c['hold'],
        rid=c['rid'],
        families=c['families'],
        asn4=c['asn4'],
        addpath=c['addpath'],
        addpath_families=c['addpath_families'],
        nexthop=c['nexthop'],
        extmsg=c['extmsg'],
        refresh=c['refresh'],
        graceful=c['graceful'],
    )


FAULTS = [
    'version',
    'bad_as',
    'rid_zero',
    'rid_same',
    'hold_1',
    'hold_2',
    'unknown_param',
    'trunc_param',
    'cap_overrun',
    'short_body',
]


def gen_peer_open(r: random.Random, c: dict, fault: str | None) -> dict:
    """-> {'body': bytes, 'fault': str|None, 'kind': str}"""
    pas = c['pas']
    asn4 = r.random() < 0.75 or pas > 65535
    caps = []
    mp_mode = r.choice(['same', 'subset', 'superset', 'none', 'disjoint', 'dup'])
    if mp_mode == 'same':
        mp = list(c['families'])
    elif mp_mode == 'subset':
        mp = [f for f in c['families'] if r.random() < 0.5] or [c['families'][0]]
    elif mp_mode == 'superset':
        mp = list(c['families']) + r.sample(ALL_FAMS, 3)
    elif mp_mode == 'none':
        mp = []
    elif mp_mode == 'disjoint':
        mp = [f for f in ALL_FAMS if f not in c['families']][:3]
    else:
        mp = list(c['families']) * 2
    r.shuffle(mp)
    caps += [rw.cap_mp(a, s) for a, s in mp]
    if asn4:
        caps.append(rw.cap_asn4(pas))
    ap_kind = r.choice(['none', 'none', 'one', 'two', 'all3'])
    if ap_kind != 'none':
        entries = [(a, s, r.choice([0, 1, 2, 3])) for a, s in (set(mp) | set(c['addpath_families'])) if r.random() < 0.7]
        if ap_kind == 'all3':
            entries = [(a, s, 3) for a, s, _ in entries]
        if entries:
            if ap_kind == 'two' and len(entries) > 1:
                k = len(entries) // 2
                caps.append(rw.cap_addpath(entries[:k]))
                caps.append(rw.cap_addpath(entries[k:]))
            else:
                caps.append(rw.cap_addpath(entries))
    if r.random() < 0.4:
        caps.append(rw.cap_nexthop([t for t in NEXTHOP_OK if r.random() < 0.7] or NEXTHOP_OK[:1]))
    rf = r.choice(['both', 'normal', 'enhanced', 'none', 'cisco'])
    if rf in ('both', 'normal'):
        caps.append((rw.CAP_REFRESH, b''))
    if rf in ('both', 'enhanced'):
        caps.append((rw.CAP_ENHANCED, b''))
    if rf == 'cisco':
        caps.append((rw.CAP_REFRESH_CISCO, b''))
    if r.random() < 0.5:
        caps.append((rw.CAP_EXTMSG, b''))
    if r.random() < 0.3:
        caps.append(rw.cap_gr(r.choice([0, 8]), r.choice([0, 120, 4095]), [(a, s, r.choice([0, 0x80])) for a, s in mp[:4]]))
    if r.random() < 0.3:
        caps.append(rw.cap_hostname(b'peer-host', b'example.net'))
    if r.random() < 0.3:
        caps.append((r.choice([3, 4, 66, 67, 71, 72, 129, 130, 200, 255]), bytes(r.randrange(256) for _ in range(r.randrange(0, 9)))))
    r.shuffle(caps)
    extended = r.random() < 0.25
    one_param = r.random() < 0.3
    size = sum(2 + len(v) for _, v in caps)
    if not extended and (size + (2 if one_param else 2 * len(caps)) > 255 or (one_param and size > 255)):
        extended = True
    if one_param and size > 65000:
        one_param = False
    if not extended and one_param and size > 255:
        one_param = False
    hold = r.choice([0, 3, 4, 30, 90, 180, 65535])
    rid = r.choice(['10.0.0.2', '192.0.2.1', '0.0.0.1', '255.255.255.255'])
    asn2 = pas if pas < 65536 else rw.AS_TRANS
    if asn4 and c['asn4'] and pas < 65536 and r.random() < 0.1:
        asn2 = rw.AS_TRANS  # legal: AS_TRANS with the true AS in the capability
    version = 4
    raw_params = None
    if fault == 'version':
        version = r.choice([0, 1, 3, 5, 255])
    elif fault == 'bad_as':
        other = r.choice([a for a in (AS_POOL2 + AS_POOL4 if c['asn4'] else AS_POOL2) if a != pas])
        asn2 = other if other < 65536 else rw.AS_TRANS
        caps = [(k, v) for k, v in caps if k != rw.CAP_ASN4]
        if other > 65535 or r.random() < 0.5:
            caps.append(rw.cap_asn4(other))
        if other > 65535 and not c['asn4']:
            # without ASN4 on our side the peer AS is the 2-byte field: AS_TRANS != pas, still a mismatch
            pass
    elif fault == 'rid_zero':
        rid = '0.0.0.0'
    elif fault == 'rid_same':
        rid = c['rid']
    elif fault == 'hold_1':
        hold = 1
    elif fault == 'hold_2':
        hold = 2
    elif fault == 'unknown_param':
        good = rw.enc_params(caps[:3], extended=False)[1:]
        bad = bytes([r.choice([3, 4, 200]), 2, 0, 0])  # type 1 (deprecated authentication) left out: 2/5 is arguable there
        params = good + bad if r.random() < 0.5 else bad + good
        raw_params = bytes([len(params)]) + params
    elif fault == 'trunc_param':
        params = rw.enc_params((caps + [rw.cap_mp(1, 1)])[:4], extended=False)[1:]
        params = params[: max(1, len(params) - r.randrange(1, 4))]
        raw_params = bytes([len(params)]) + params
    elif fault == 'cap_overrun':
        inner = bytes([rw.CAP_MP, 9, 0, 1, 0, 1])
        raw_params = bytes([len(inner) + 2, 2, len(inner)]) + inner
    try:
        body = rw.enc_open_body(asn2, hold, rid, caps, version=version, extended=extended, one_param=one_param, raw_params=raw_params)
    except ValueError:
        extended = True
        body = rw.enc_open_body(asn2, hold, rid, caps, version=version, extended=True, one_param=one_param, raw_params=raw_params)
    if fault == 'short_body':
        body = body[: r.randrange(0, 10)]
    return {'body': body, 'fault': fault, 'kind': f'{mp_mode}/{ap_kind}/{rf}/{"ext" if extended else "cls"}/{"one" if one_param else "many"}/{"a4" if asn4 else "a2"}'}


def expect_refusal(c: dict, fault: str):
    """acceptable (code, subcode) set per RFC for the injected fault"""
    return {
        'version': {(2, 1)},
        'bad_as': {(2, 2)},
        'rid_zero': {(2, 3)},
        'rid_same': {(2, 3)},
        'hold_1': {(2, 6)},
        'hold_2': {(2, 6)},
        'unknown_param': {(2, 4)},
        'trunc_param': {(2, 0), (2, 4), (1, 2)},
        'cap_overrun': {(2, 0), (2, 4), (1, 2)},
        'short_body': {(1, 2)},
    }[fault]


def check_our_open(res: Result, c: dict, nb, raw: bytes, ctext: str):
    """(a) the OPEN ExaBGP sends advertises exactly what the configuration enables"""
    from exabgp.bgp.message import Message

    wit = {'config': c, 'open': raw.hex()}
    msgs, fault, rest = rw.frame(raw, 4096)
    if fault or rest or len(msgs) != 1 or msgs[0][0] != rw.OPEN:
        res.violation('C07/open-framing', 'OPEN we send is not one well-framed OPEN message', wit, 'our-open')
        return None
    try:
        d = rw.dec_open(msgs[0][1])
    except rw.RefError as e:
        res.violation('C07/open-undecodable', f'OPEN we send is refused by the reference: {e}', wit, 'our-open')
        return None
    v = rw.caps_view(d['caps'])
    exp_asn2 = c['las'] if c['las'] < 65536 else rw.AS_TRANS
    problems = []
    if d['asn'] != exp_asn2:
        problems.append(('asn2', d['asn'], exp_asn2))
    if d['hold'] != c['hold']:
        problems.append(('hold', d['hold'], c['hold']))
    if d['rid'] != c['rid']:
        problems.append(('rid', d['rid'], c['rid']))
    if sorted(v['mp']) != sorted(set(c['families'])):
        problems.append(('mp', sorted(v['mp']), sorted(set(c['families']))))
    if v['asn4'] != (c['las'] if c['asn4'] else None):
        problems.append(('asn4', v['asn4'], c['las'] if c['asn4'] else None))
    exp_ap = {f: c['addpath'] for f in c['addpath_families']} if c['addpath'] else {}
    if v['addpath'] != exp_ap:
        problems.append(('addpath', sorted(v['addpath'].items()), sorted(exp_ap.items())))
    if sorted(v['nexthop']) != sorted(c['nexthop']):
        problems.append(('nexthop', sorted(v['nexthop']), sorted(c['nexthop'])))
    if v['refresh'] != c['refresh'] or v['enhanced'] != c['refresh']:
        problems.append(('refresh', (v['refresh'], v['enhanced']), c['refresh']))
    if v['extmsg'] != c['extmsg']:
        problems.append(('extmsg', v['extmsg'], c['extmsg']))
    if (v['gr'] is not None) != (c['graceful'] is not None):
        problems.append(('gr', v['gr'], c['graceful']))
    elif v['gr'] is not None:
        exp_time = c['graceful'] if c['graceful'] else c['hold']
        if sorted((a, s) for a, s, _ in v['gr']['families']) != sorted(set(c['families'])):
            problems.append(('gr-families', v['gr']['families'], c['families']))
        if v['gr']['time'] != min(exp_time, 4095):
            problems.append(('gr-time', v['gr']['time'], exp_time))
    if v['malformed']:
        problems.append(('malformed', v['malformed'], []))
    plen = len(msgs[0][1]) - 10 - (3 if d['extended'] else 0)
    # classic when the parameters fit the one byte length, RFC 9072 form otherwise
    if d['extended'] and plen < 255 - 0:
        # extended form although the classic one would have fit: count parameters in classic encoding
        classic = sum(2 + 2 + len(val) for _, val in d['caps'])
        if classic < 255:
            problems.append(('form', 'extended', f'classic would fit ({classic})'))
    for field, got, want in problems:
        res.violation(f'C07/our-open-{field}', f'OPEN sent advertises {field}={got!r}, configuration enables {want!r}', dict(wit, field=field), 'our-open')
    if not problems:
        res.ok('our-open:' + ('extended' if d['extended'] else 'classic'), ('our', exa_sig(c)))
    # ExaBGP's own decoder must give back an equal OPEN (encode/decode unchanged)
    try:
        from exabgp.bgp.message.open.capability import Negotiated
        from exabgp.bgp.message.direction import Direction

        again = Message.unpack(1, raw[19:], Negotiated.make_negotiated(nb, Direction.IN))
        raw2 = again.pack_message(None)
        d2 = rw.dec_open(raw2[19:])
        v2 = rw.caps_view(d2['caps'])
        same = (d2['asn'], d2['hold'], d2['rid']) == (d['asn'], d['hold'], d['rid'])
        for k in ('asn4', 'addpath', 'refresh', 'enhanced', 'extmsg', 'gr', 'hostname'):
            same = same and v2[k] == v[k]
        same = same and sorted(v2['mp']) == sorted(v['mp']) and sorted(v2['nexthop']) == sorted(v['nexthop'])
        if not same:
            res.violation('C07/open-roundtrip', 'OPEN decoded and re-encoded by ExaBGP differs from the original', dict(wit, again=raw2.hex()), 'open-roundtrip')
        else:
            res.ok('open-roundtrip:' + ('extended' if d['extended'] else 'classic'))
    except Exception as e:  # noqa
        res.violation('C07/open-roundtrip-raise', f'ExaBGP cannot decode its own OPEN: {type(e).__name__} {e}', wit, 'open-roundtrip')
    return d


def exa_sig(c: dict) -> str:
    return '%s/%s/%s/f%d/ap%d/nh%d/x%d/r%d/g%s/h%d' % (
        'a4' if c['las'] > 65535 else 'a2',
        'ibgp' if c['las'] == c['pas'] else 'ebgp',
        'asn4' if c['asn4'] else 'noasn4',
        len(c['families']),
        c['addpath'],
        len(c['nexthop']),
        c['extmsg'],
        c['refresh'],
        c['graceful'],
        c['hold'],
    )


def run_shard(desc):
    from exabgp.bgp.message import Notify

    res = Result()
    r = random.Random(desc['seed'] * 100003 + desc['shard'])
    exa.quiet()
    for ci in range(desc['configs']):
        c = gen_config(r)
        ctext = config_text(c)
        try:
            conf = exa.load_config(ctext)
        except exa.ConfigError as e:
            res.count('config-refused')
            res.extra.setdefault('config_refused', []).append(str(e)[-200:])
            continue
        nb = list(conf.neighbors.values())[0]
        try:
            raw = exa.our_open(nb).pack_message(None)
        except Exception as e:  # noqa
            res.violation('C07/open-pack-raise', f'packing our OPEN raised {type(e).__name__}: {e}', {'config': c}, 'our-open')
            continue
        ours = check_our_open(res, c, nb, raw, ctext)
        if ours is None:
            continue
        for oi in range(desc['opens']):
            fault = r.choice(FAULTS) if r.random() < 0.35 else None
            if fault == 'rid_same' and c['las'] != c['pas']:
                fault = None
            po = gen_peer_open(r, c, fault)
            wit = {'config': c, 'config_text': ctext, 'peer_open_body': po['body'].hex(), 'fault': fault, 'kind': po['kind']}
            # reference verdict on the peer OPEN
            try:
                theirs = rw.dec_open(po['body'])
                ref_err = None
            except rw.RefError as e:
                theirs, ref_err = None, (e.code, e.subcode)
            # trusted-base self consistency: a generated fault-free OPEN must be accepted by the reference
            if fault is None and ref_err is not None:
                res.inconclusive.append(f'refwire refuses its own OPEN {po["body"].hex()} {ref_err}')
                continue
            try:
                neg, sent, _ = exa.negotiate(nb, po['body'])
                got_err = None
            except Notify as n:
                neg, got_err = None, (n.code, n.subcode)
            except Exception as e:  # noqa
                res.violation('C07/negotiate-raise:' + type(e).__name__, f'OPEN handling raised {type(e).__name__}: {e}', wit, 'raise')
                continue
            if fault in ('trunc_param', 'cap_overrun', 'short_body', 'unknown_param') and ref_err is None:
                res.count('structural-fault-not-a-fault')  # e.g. truncating an empty parameter list
                continue
            if fault is not None:
                want = expect_refusal(c, fault)
                cls = 'refuse:' + fault
                if got_err is None:
                    res.violation(f'C07/accepts-{fault}', f'peer OPEN with fault {fault} was accepted (RFC wants {sorted(want)})', wit, cls)
                elif got_err not in want:
                    res.violation(f'C07/wrong-code-{fault}', f'peer OPEN with fault {fault} refused with {got_err}, RFC wants {sorted(want)}', wit, cls)
                else:
                    res.ok(cls, ('refuse', fault, got_err, exa_sig(c)[:12]))
                continue
            if got_err is not None:
                res.violation(f'C07/refuses-valid:{got_err[0]}/{got_err[1]}', f'valid peer OPEN refused with {got_err}', wit, 'accept')
                continue
            ref = rw.negotiate(ours, theirs)
            got = {
                'asn4': bool(neg.asn4),
                'local_as': int(neg.local_as),
                'peer_as': int(neg.peer_as),
                'families': sorted((int(a), int(s)) for a, s in neg.families),
                'addpath_send': sorted((int(a), int(s)) for (a, s), x in neg.addpath._send.items() if x),
                'addpath_recv': sorted((int(a), int(s)) for (a, s), x in neg.addpath._receive.items() if x),
                'nexthop': sorted((int(a), int(s), int(n)) for a, s, n in neg.nexthop),
                'refresh': {0: 'absent', 1: 'absent'}.get(int(neg.refresh), None),
                'msg_size': int(neg.msg_size),
                'hold': int(neg.holdtime),
            }
            from exabgp.bgp.message.open.capability import REFRESH

            got['refresh'] = {int(REFRESH.ABSENT): 'absent', int(REFRESH.NORMAL): 'normal', int(REFRESH.ENHANCED): 'enhanced'}.get(int(neg.refresh), str(neg.refresh))
            want = {
                'asn4': ref['asn4'],
                'local_as': c['las'],
                'peer_as': ref['peer_as_true'] if ref['asn4'] else theirs['asn'],
                'families': sorted(ref['families_strict']),
                'addpath_send': sorted(ref['addpath_send']),
                'addpath_recv': sorted(ref['addpath_recv']),
                'nexthop': sorted(ref['nexthop']),
                'refresh': ref['refresh'],
                'msg_size': ref['msg_size'],
                'hold': ref['hold'],
            }
            # add-path only matters for negotiated families; restrict both sides to them
            fam = set(want['families'])
            for k in ('addpath_send', 'addpath_recv'):
                got[k] = [f for f in got[k] if f in fam]
                want[k] = [f for f in want[k] if f in fam]
            want['nexthop'] = [t for t in want['nexthop']]
            bad = [k for k in want if got[k] != want[k]]
            sig = (exa_sig(c), po['kind'])
            for k in bad:
                a4 = 'local4' if c['las'] > 65535 else 'local2'
                key = f'C07/field-{k}' + (f':{a4}' if k == 'local_as' else '')
                res.violation(key, f'negotiated {k}={got[k]!r}, RFC function gives {want[k]!r}', dict(wit, got=got, want=want), 'field:' + k)
            for k in want:
                if k not in bad:
                    res.ok('field:' + k)
            if not bad:
                res.ok('negotiate:' + ('ibgp' if c['las'] == c['pas'] else 'ebgp'), sig)
                res.sample({'config': exa_sig(c), 'peer': po['kind'], 'negotiated': got})
            tt = ('mp-' + po['kind'].split('/')[0])
            res.count(tt)
    return res


def finish(merged, tier, seed):
    pass


REQUIRED_CLASSES = {
    'quick': ['our-open:classic', 'our-open:extended', 'open-roundtrip:classic', 'open-roundtrip:extended']
    + ['field:' + k for k in ('asn4', 'peer_as', 'families', 'addpath_send', 'addpath_recv', 'nexthop', 'refresh', 'msg_size', 'hold')],
}
REQUIRED_CLASSES['thorough'] = REQUIRED_CLASSES['quick']
