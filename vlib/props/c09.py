"""C09 - generated UPDATEs fit the negotiated size and lose nothing.

Real route objects (real text parser) are packed by the real UpdateCollection.messages(negotiated), called directly
and through OutgoingRIB.updates() grouping; every yielded bytes object is framed and decoded by refwire.
"""

from __future__ import annotations

import random

from vlib import exa, norm
from vlib import refwire as rw
from vlib.mon import Result
from vlib.props import c01

PROPERTY = 'C09'
LEVEL = 'exploration'
RULE = (
    'collections (announce set, withdraw set, attribute set) with sizes straddling 4096 / 65535: NLRI counts chosen so the '
    'last message lands within a few bytes of the limit, attribute blocks of 250..260 bytes (extended length switch) and '
    'max-60..max (room for 2, 1, 0 prefixes); IPv4 + MP families in one collection; 1-4 next hops per MP family; '
    'withdraw-only / announce-only / both; include_withdraw both ways; ADD-PATH on/off; direct call and RIB grouping. '
    'distinct = (limit, family mix, boundary distance bucket, mode) signatures'
)
ASSUMPTIONS = [
    're-sending an identical announcement or withdrawal inside the same batch is tolerated and counted',
    'an exception raised when the attributes leave no room for even one prefix is logged, not a violation',
    'with include_withdraw=False the withdrawals are expected to be left out (that is what the flag means)',
]
MANIFEST = {
    'level': 'exploration',
    'technique': 'runtime monitor on the real UPDATE generator: every yielded message framed and decoded by an independent codec, conservation check (requested = union of sent, nothing else) over size-boundary workloads; a configuration of hundreds to thousands of routes with attribute sets from empty to just under the message size sent by the real exabgp process to a scripted peer: size, self-containment and completeness judged on the TCP stream',
    'text': 'Collections sized around the negotiated limits are packed by the real generator; each message is checked for size, '
    'self-contained parse and exact header length, and the union over messages for loss, invention, wrong next hop or attributes.',
    'note': 'trusted base: refwire decoder; IP unicast/labeled families; attribute sets made of communities / large communities / as-path',
}
SHARD_TIMEOUT = {'quick': 300, 'thorough': 2400}


def plan(tier, seed):
    n = 16 if tier == 'quick' else 64
    return [{'shard': i, 'collections': 22 if tier == 'quick' else 120} for i in range(n)] + [{'shard': 900 + i, 'daemon': True, 'part': i, 'routes': 600 if tier == 'quick' else 3000} for i in range(2 if tier == 'quick' else 4)]


def attr_text(r: random.Random, target_len: int):
    """attribute keywords whose encoded block is close to target_len bytes"""
    words = ['origin igp', 'med 7']
    base = 3 + 1 + 3 + 4  # origin + med TLVs
    base += 3 + 6  # as-path default eBGP roughly
    left = max(0, target_len - base - 4)
    kind = r.choice(['community', 'large-community'])
    if kind == 'community':
        n = left // 4
        vals = ' '.join(f'{65000 - (i // 65536)}:{i % 65536}' for i in range(n))
        if n:
            words.append(f'community [ {vals} ]')
    else:
        n = left // 12
        vals = ' '.join(f'65000:{i}:{i}' for i in range(n))
        if n:
            words.append(f'large-community [ {vals} ]')
    return ' '.join(words), n


def attr_block_len(ibgp: bool, asn4: bool, ncomm: int, kind_large: bool, v4_nexthop: bool) -> int:
    """exact length of the attribute block ExaBGP must send for these routes (independent arithmetic):
    ORIGIN 4, AS_PATH 3 (iBGP, empty) or 3+2+4/2 (eBGP, one AS), NEXT_HOP 7, MED 7, LOCAL_PREF 7 on iBGP, communities"""
    n = 4 + (3 if ibgp else 3 + 2 + (4 if asn4 else 2)) + 7 + (7 if ibgp else 0)
    if v4_nexthop:
        n += 7
    if ncomm:
        val = ncomm * (12 if kind_large else 4)
        n += (4 if val > 255 else 3) + val
    return n


def nlri_texts(r: random.Random, fam, count, base):
    out = []
    for i in range(count):
        j = base + i
        if fam == (1, 1):
            out.append(f'{10 + ((j >> 16) & 15)}.{(j >> 8) & 255}.{j & 255}.0/24')
        elif fam == (2, 1):
            out.append(f'2001:db8:{j:x}::/48')
        elif fam == (1, 4):
            out.append(f'{100 + ((j >> 16) & 63)}.{(j >> 8) & 255}.{j & 255}.0/24')
    return out


SWEEP_BASE_ROOM = 330  # the big template leaves this much room at 4096; an extra attribute of 3+L octets narrows it octet by octet


def sweep_template(conf, cache: dict):
    """the (slow to parse) 900 community attribute set, parsed once per shard by the real parser"""
    if 'tmpl' not in cache:
        target = 4096 - 23 - SWEEP_BASE_ROOM
        atext, ncomm = attr_text(random.Random(5), target)
        trs = conf.parse_route_text(f'route 192.0.2.0/24 next-hop 192.0.2.1 {atext}', 'announce')
        cache['tmpl'] = (trs[0].attributes if trs else None, atext, ncomm)
    return cache['tmpl']


def sweep_attributes(conf, cache: dict, L: int):
    """template attributes + one unknown optional transitive attribute with L octets of payload (parsed by the real parser,
    added with AttributeCollection.add as the parser does): the attribute block grows by 3 + L octets"""
    from exabgp.bgp.message.update.attribute.collection import AttributeCollection

    tmpl, atext, ncomm = sweep_template(conf, cache)
    if tmpl is None:
        return None, atext, ncomm
    if ('coll', L) in cache:
        return cache[('coll', L)], atext, ncomm
    extra = conf.parse_route_text('route 192.0.2.0/24 next-hop 192.0.2.1 attribute [ 0xf0 0xc0 0x%s ]' % ('ab' * L), 'announce') if L >= 0 else []
    coll = AttributeCollection()
    for attr in tmpl.values():
        coll.add(attr)
    for x in extra:
        for code, attr in x.attributes.items():
            if code not in coll:
                coll.add(attr)
    cache[('coll', L)] = coll
    return coll, atext, ncomm


def run_daemon(desc):
    """a configuration of a few thousand routes whose attribute sets leave room for many, few or hardly one NLRI per message,
    read by the REAL daemon and sent to a scripted peer on a session with and without extended messages: every message the peer
    receives is within the negotiated size and decodes on its own, and the table it builds is the configuration"""
    import time

    from vlib import daemon

    res = Result()
    r = random.Random(desc['seed'] * 613651349 % (2**31) + desc['part'])
    ext = desc['part'] % 2 == 1
    limit = 65535 if ext else 4096
    variants = []
    for vi, ncomm in enumerate([0, 3, 120, 600, 980, 1005]):
        variants.append((vi, ncomm, ' '.join(f'65000:{(vi * 1009 + j) % 65536}' for j in range(ncomm))))
    routes = {}
    lines = []
    n = desc['routes']
    for i in range(n):
        vi, ncomm, comm = variants[r.choice([0] * 8 + [1] * 7 + [2] * 2 + [3, 4, 5])]  # the community parser is quadratic: the long sets are few
        fam6 = r.random() < 0.3
        p = f'2001:db8:{i // 65536 + 1:x}:{i % 65536 + 1:x}::/64' if fam6 else f'10.{i // 65536}.{i // 256 % 256}.{i % 256}/32'  # no zero group: the text is the canonical form
        nh = '2001:db8::1' if fam6 else '192.0.2.1'
        med = vi * 10 + i % 3
        routes[p] = (nh, med, ncomm)
        lines.append(f'        route {p} next-hop {nh} med {med}' + (f' community [ {comm} ]' if ncomm else '') + ';\n')
    text = exa.neighbor_text(families=[(1, 1), (2, 1)], extmsg=ext, body='    static {\n' + ''.join(lines) + '    }\n')
    d = daemon.Daemon(text, env={'exabgp_log_level': 'ERROR'})
    peer = None
    wit = {'routes': n, 'extended_messages': ext, 'level': 'daemon'}
    cls = 'daemon:' + ('ext' if ext else 'std')
    try:
        d.start()
        peer = d.accept(timeout=120)
        peer.establish(65001)
        rx = []
        eors = 0
        t_end = time.monotonic() + 120
        while time.monotonic() < t_end and eors < 2:
            got = peer.drain(quiet=2.0, limit=30)
            rx += got
            eors = sum(1 for t, b in rx if t == 2 and (bytes(b) == b'\x00\x00\x00\x00' or (len(b) == 11 and bytes(b)[:4] == b'\x00\x00\x00\x07')))
            if any(t is None or t == 3 for t, _ in got):
                break
        log = d.tail(3000)
    except daemon.Inconclusive as e:
        daemon.skipped(res, str(e))
        return res
    finally:
        try:
            if peer is not None:
                peer.close()
        except Exception:  # noqa
            pass
        d.stop()
    if 'exception.unhandled' in log or 'Traceback' in log:
        res.violation('C09/daemon:unhandled-exception', 'the daemon logged an unhandled exception while sending its table: ' + log[log.find('Traceback') : log.find('Traceback') + 300], dict(wit, log=log[-2000:]), cls)
        return res
    table = rw.PeerTable()
    nmsg = 0
    for t, b in rx:
        if t == 3:
            res.violation(f'C09/daemon:notification:{b[0]}/{b[1]}', 'the daemon ended the session while sending its table', wit, cls)
            return res
        if t != 2:
            continue
        nmsg += 1
        if 19 + len(b) > limit:
            res.violation(f'C09/oversized:{limit}', f'message of {19 + len(b)} bytes exceeds the negotiated {limit} (real daemon)', dict(wit, size=19 + len(b)), cls)
            return res
        try:
            dec = rw.dec_update(bytes(b), rw.sess(asn4=True, addpath=()))
        except rw.RefError as e:
            res.violation('C09/unparseable-message', f'a message of the real daemon does not parse on its own: {e}', dict(wit, body=bytes(b).hex()[:400]), cls)
            return res
        if not dec['eor']:
            table.apply(dec)
    got = {}
    for key, v in table.routes.items():
        attrs = dict(v['attrs'])
        med = attrs.get(rw.MED)
        comm = attrs.get(8)
        got[key[5]] = (v['nexthop'][0] if v['nexthop'] else None, int(med) if med is not None else None, str(comm).count('(') if comm else 0)
    sendable = {p: v for p, v in routes.items() if ext or v[2] <= 1000}
    wit.update(messages=nmsg, peer_routes=len(got), configured=len(routes))
    missing = sorted(set(sendable) - set(got))
    extra = sorted(set(got) - set(routes))
    wrong = sorted(p for p in set(got) & set(sendable) if got[p][:2] != sendable[p][:2] or (got[p][2] != sendable[p][2]))
    if eors < 2 and missing:
        daemon.skipped(res, f'the table was not complete after 120 s ({len(got)} of {len(sendable)} routes, {eors} End-of-RIB)')
    elif missing:
        res.violation('C09/daemon:route-lost', f'{len(missing)} configured routes never reached the peer, e.g. {missing[:3]} {[routes[p] for p in missing[:3]]}', dict(wit, missing=missing[:20]), cls)
    elif extra:
        res.violation('C09/daemon:route-invented', f'routes nobody configured: {extra[:3]}', wit, cls)
    elif wrong:
        res.violation('C09/daemon:route-values', f'{wrong[0]} arrived as {got[wrong[0]]}, configured {routes[wrong[0]]}', wit, cls)
    else:
        res.ok(cls, ('daemon', ext, n), nmsg)
        res.ok('daemon:table')
        if not ext:
            res.count('daemon:over-4096-sets-not-sent', sum(1 for v in routes.values() if v[2] > 1000))
    return res


def run_shard(desc):
    if desc.get('daemon'):
        return run_daemon(desc)
    from exabgp.bgp.message.update.collection import RoutedNLRI, UpdateCollection
    from exabgp.rib.route import Route

    res = Result()
    exa.quiet()
    r = random.Random(desc['seed'] * 6700417 + desc['shard'])
    cache: dict = {}
    nsweep = 224 if desc['tier'] == 'quick' else 896  # every room of the sweep once (quick) or four times (thorough) per shard, under two sessions each
    for ci in range(desc['collections'] + nsweep):
        sweep = ci >= desc['collections']
        ext = r.random() < 0.4 and not sweep
        maxsize = 65535 if ext else 4096
        k = {'ibgp': r.random() < 0.5, 'las': 65000, 'peer_asn4': True, 'addpath': r.choice([0, 0, 3]), 'extmsg': ext}
        mix = r.choice(['v4', 'v6', 'v4+v6', 'v4+label', 'v4+v6+label'])
        if 'label' in mix and r.random() < 0.6:
            k['enh'] = True
        fams = {'v4': [(1, 1)], 'v6': [(2, 1)], 'v4+v6': [(1, 1), (2, 1)], 'v4+label': [(1, 1), (1, 4)], 'v4+v6+label': [(1, 1), (2, 1), (1, 4)]}[mix]
        mode = r.choice(['announce', 'announce', 'withdraw', 'both'])
        regime = r.choice(['small', 'extlen-switch', 'near-max', 'near-max', 'fill'])
        sweep_L = None
        if sweep:
            # the room left for the MP attribute crosses 255 octets (its own header grows from 3 to 4 octets there): every
            # room from ~215 to ~325 octets is visited, each shard and seed taking its own slice
            regime = 'mp-extlen-sweep'
            mix = r.choice(['v6', 'v6', 'v4+v6', 'v4+label', 'v4+label'])
            fams = {'v6': [(2, 1)], 'v4+v6': [(1, 1), (2, 1)], 'v4+label': [(1, 1), (1, 4)]}[mix]
            mode = r.choice(['announce', 'announce', 'withdraw', 'both'])
            # every room twice in a row: the second time the SAME attribute collection object is packed for a session which
            # differs in the 4-byte AS capability only (a peer which comes back with another OPEN)
            sj = ci - desc['collections']
            sweep_L = (sj // 2 + 7 * desc['shard'] + 13 * desc['seed']) % 112
            k = dict(k, ibgp=False, peer_asn4=(sj % 2 == 0), enh='label' in mix and (sj // 2) % 2 == 0)
            target = 4096 - 23 - SWEEP_BASE_ROOM + 3 + sweep_L
        elif regime == 'small':
            target = r.choice([0, 40, 120])
        elif regime == 'extlen-switch':
            target = r.randrange(246, 266)
        elif regime == 'near-max':
            target = maxsize - 23 - r.choice([0, 1, 3, 4, 5, 8, 12, 20, 40, 60])
            if ext:
                # a 60 KB attribute block costs minutes in the text parser (thousands of communities): for the
                # 65535 limit the boundary is approached with NLRI counts instead
                target = r.randrange(3000, 5000)
        else:
            target = r.choice([60, 300, 1500])
        if not sweep:
            atext, ncomm = attr_text(r, target)
        try:
            if sweep:
                # the sweep packs directly (no RIB state): one session per kind is built once and reused
                if c01.sname(k) not in cache:
                    cache[c01.sname(k)] = c01.build(k, [])
                conf, nb, neg, ref, ctext = cache[c01.sname(k)]
            else:
                conf, nb, neg, ref, ctext = c01.build(k, [])
        except Exception as e:  # noqa
            res.inconclusive.append(f'session build failed: {e}')
            continue
        # how many NLRI: aim at the limit
        per = {(1, 1): 4 + (4 if k['addpath'] else 0), (2, 1): 7 + (4 if k['addpath'] else 0), (1, 4): 7 + (4 if k['addpath'] else 0)}
        room = max(0, maxsize - 23 - target)
        requested_a, requested_w = {}, {}
        routes_a, routes_w = [], []
        attributes = None
        template = None
        base = r.randrange(0, 2000)
        ok = True
        for fam in fams:
            fit = max(1, room // per[fam])
            count = r.choice([1, 2, fit - 1, fit, fit + 1, 2 * fit + 1, r.randrange(1, 3 * fit + 2)])
            if sweep:
                count = r.choice([fit, 2 * fit + 1, 3 * fit + 2, 4 * fit])  # several full MP attributes, each filled to the brim
            count = max(1, min(count, (17000 if ext else 1100) if desc['tier'] == 'quick' else (17000 if ext else 6000)))
            hops = {(1, 1): ['192.0.2.1'], (2, 1): ['2001:db8::1', '2001:db8::2', '2001:db8::3', '2001:db8::4'][: r.choice([1, 1, 2, 4])], (1, 4): ['192.0.2.7', '192.0.2.8'][: r.choice([1, 2])]}[fam]
            if fam == (1, 4) and k.get('enh'):
                # RFC 8950 negotiated: the same family carries IPv4 and IPv6 next hops, whose MP_REACH headers differ in length
                hops = r.choice([['192.0.2.7', '2001:db8::7'], ['2001:db8::7', '192.0.2.7', '2001:db8::8'], ['2001:db8::7']])
                res.count('labelled-family-with-mixed-next-hop-lengths')
            for i, p in enumerate(nlri_texts(r, fam, count, base)):
                nh = hops[i % len(hops)]
                label = ' label 100' if fam == (1, 4) else ''
                pid = f' path-information 0.0.0.{1 + i % 3}' if k['addpath'] and r.random() < 0.5 else ''
                withdraw = mode == 'withdraw' or (mode == 'both' and i % 3 == 0)
                # the (long) attribute text is parsed once per collection by the real parser; every route is parsed
                # by the real parser too, with its own prefix / next hop / label / path-id, and shares that attribute set
                if template is None and sweep:
                    coll, atext, ncomm = sweep_attributes(conf, cache, sweep_L)
                    if coll is None:
                        res.inconclusive.append('sweep template refused by the parser')
                        ok = False
                        break
                    template = Route(conf.parse_route_text('route 192.0.2.0/24 next-hop 192.0.2.1', 'announce')[0].nlri, coll, nexthop=None)
                if template is None:
                    try:
                        trs = conf.parse_route_text(f'route 192.0.2.0/24 next-hop 192.0.2.1 {atext}', 'announce')
                    except Exception as e:  # noqa
                        res.violation(f'C09/parse-raises:{type(e).__name__}', str(e)[:120], {'text': atext[:300]}, 'parse')
                        ok = False
                        break
                    if not trs:
                        if target > maxsize - 30:
                            res.count('text-refused-attributes-too-large')
                        else:
                            res.violation('C09/parse-refused', 'route text refused', {'text': atext[:300], 'error': str(conf.error)[-200:]}, 'parse')
                        ok = False
                        break
                    template = trs[0]
                text = f'route {p} next-hop {nh}{label}{pid}'
                try:
                    rs = conf.parse_route_text(text, 'withdraw' if withdraw else 'announce')
                    if rs:
                        rs = [Route(rs[0].nlri, template.attributes, nexthop=rs[0].nexthop)]
                except Exception as e:  # noqa
                    res.violation(f'C09/parse-raises:{type(e).__name__}', str(e)[:120], {'text': text[:300]}, 'parse')
                    ok = False
                    break
                if not rs:
                    if target > maxsize - 30:
                        res.count('text-refused-attributes-too-large')
                    else:
                        res.violation('C09/parse-refused', 'route text refused', {'text': text[:300], 'error': str(conf.error)[-200:]}, 'parse')
                    ok = False
                    break
                route = nb.resolve_self(rs[0])
                attributes = route.attributes
                pidv = None
                if fam in ref['addpath_send']:
                    pidv = (1 + i % 3) if pid else 0
                key = rw.nlri_key(rw.mk_nlri(fam[0], fam[1], norm.canon_prefix(p), pidv, (100,) if fam == (1, 4) else ()))
                if withdraw:
                    routes_w.append(route)
                    kk = (key[0], key[1], key[2], (), key[4], key[5])
                    requested_w[kk] = True
                else:
                    routes_a.append(route)
                    requested_a[key] = nh
            if not ok:
                break
        if not ok or attributes is None:
            continue
        alen = attr_block_len(k['ibgp'], bool(ref['asn4']), ncomm, 'large-community' in atext, True) + ((3 + sweep_L) if sweep else 0)
        smallest = min(per[f] for f in fams)
        room_for_one = 19 + 4 + alen + smallest + (0 if fams == [(1, 1)] else 12) <= maxsize
        wit_room = {'attr_block_len': alen, 'room_for_one': room_for_one}
        include_withdraw = r.random() < 0.7
        via = r.choice(['direct', 'direct', 'rib'])
        if sweep:
            via = 'direct'
        # OutgoingRIB.updates() never puts announcements and withdrawals in one UpdateCollection, but the generator
        # accepts both and the statement says "any set of routes to announce and withdraw": mode 'both' is driven
        # through the RIB and directly
        wit = {'session': c01.sname(k), 'mix': mix, 'mode': mode, 'attr_target': target, 'communities': ncomm, 'announce': len(routes_a), 'withdraw': len(routes_w), 'include_withdraw': include_withdraw, 'via': via, 'attrs_text': atext[:200], 'max': maxsize}
        cls = f'{maxsize}:{mix}:{mode}:{regime}'
        if mode == 'both' and via == 'direct':
            res.count('direct-collection-with-announces-and-withdraws')
        raws = []
        try:
            if via == 'direct':
                coll = UpdateCollection([RoutedNLRI(x.nlri, x.nexthop) for x in routes_a], [x.nlri for x in routes_w], attributes)
                raws = list(coll.messages(neg, include_withdraw))
            else:
                for x in routes_a:
                    nb.rib.outgoing.add_to_rib(x)
                for x in routes_w:
                    nb.rib.outgoing.del_from_rib(x)
                include_withdraw = True
                wit['include_withdraw'] = True
                for upd in nb.rib.outgoing.updates(nb.group_updates):
                    raws += list(upd.messages(neg, True))
        except Exception as e:  # noqa
            # is there room for one prefix? attributes + 23 + one NLRI
            if not room_for_one or 19 + 4 + alen + 40 > maxsize:
                res.count('raised-instead-of-skip')
                res.ok(cls + ':noroom')
            else:
                res.violation(f'C09/generator-raises:{type(e).__name__}:{regime}', f'messages() raised {type(e).__name__}: {str(e)[:120]} although room exists', wit, cls)
            continue
        s = rw.sess(asn4=ref['asn4'], addpath=ref['addpath_send'])
        got_a, got_w = {}, {}
        dup_a = dup_w = 0
        bad = False
        sizes = []
        for raw in raws:
            sizes.append(len(raw))
            if len(raw) > maxsize:
                res.violation(f'C09/oversized:{maxsize}', f'message of {len(raw)} bytes exceeds the negotiated {maxsize}', dict(wit, size=len(raw)), cls)
                bad = True
                break
            msgs, fault, rest = rw.frame(raw, maxsize)
            if fault or rest or len(msgs) != 1:
                res.violation('C09/bad-framing', f'yielded bytes are not one well-formed message (fault {fault}, {len(rest)} trailing bytes)', dict(wit, head=raw[:40].hex()), cls)
                bad = True
                break
            try:
                d = rw.dec_update(msgs[0][1], s)
            except rw.RefError as e:
                res.violation('C09/unparseable-message', f'a generated message does not parse on its own: {e}', dict(wit, head=raw[:80].hex(), size=len(raw)), cls)
                bad = True
                break
            if not d['announce'] and not d['withdraw'] and not d['eor']:
                res.count('update-with-attributes-and-no-route')  # carries nothing: logged, the statement does not forbid it
            for n, hops in d['announce']:
                key = rw.nlri_key(n)
                if key in got_a:
                    dup_a += 1
                got_a[key] = hops[0] if hops else None
                # attributes of the carrying message must be the requested ones
            if d['announce']:
                wa = c01.attrs_of(d)
                if 'communities' in wa and ncomm and 'community' in atext and len(wa['communities']) != len(set(wa['communities'])):
                    pass
                nc = len(wa.get('communities', [])) + len(wa.get('large_communities', []))
                if ncomm and nc != ncomm:
                    res.violation('C09/attributes-differ', f'message carries {nc} communities, requested {ncomm}', wit, cls)
                    bad = True
                    break
                if wa.get('med') != 7:
                    res.violation('C09/attributes-differ', f'message carries med {wa.get("med")}, requested 7', wit, cls)
                    bad = True
                    break
            for n in d['withdraw']:
                key = rw.nlri_key(n)
                key = (key[0], key[1], key[2], (), key[4], key[5])
                if key in got_w:
                    dup_w += 1
                got_w[key] = True
        if bad:
            continue
        wit['messages'] = len(raws)
        wit['sizes'] = sizes[:8]
        exp_w = requested_w if include_withdraw else {}
        # nothing fits -> zero messages is the documented outcome
        wit.update(wit_room)
        if not room_for_one and routes_a:
            # no room for even one prefix next to these attributes: no message for the announcements is the documented outcome
            # (if the generator found room after all, every message was already checked against the limit above)
            res.ok(cls + ':noroom', (maxsize, mix, 'noroom'))
            continue
        if 19 + 4 + alen + 64 > maxsize and routes_a:
            # within a few NLRI of the limit the MP overhead decides; only the v4-only mix is judged that close
            if fams != [(1, 1)]:
                res.count('too-close-to-limit-for-mp-mix-not-judged')
                continue
        missing_a = [k2 for k2 in requested_a if k2 not in got_a]
        extra_a = [k2 for k2 in got_a if k2 not in requested_a]
        wrong_nh = [k2 for k2 in requested_a if k2 in got_a and got_a[k2] != requested_a[k2]]
        missing_w = [k2 for k2 in exp_w if k2 not in got_w]
        extra_w = [k2 for k2 in got_w if k2 not in requested_w]
        if missing_a:
            res.violation(f'C09/announce-lost:{regime}:{mix}', f'{len(missing_a)} of {len(requested_a)} requested announcements are in no message', dict(wit, missing=[list(x) for x in missing_a[:3]]), cls)
        elif extra_a:
            res.violation(f'C09/announce-invented:{mix}', f'{len(extra_a)} announcements nobody requested', dict(wit, extra=[list(x) for x in extra_a[:3]]), cls)
        elif wrong_nh:
            res.violation(f'C09/wrong-nexthop:{mix}', f'{len(wrong_nh)} routes sent with another next hop', dict(wit, example=[list(wrong_nh[0]), got_a[wrong_nh[0]], requested_a[wrong_nh[0]]]), cls)
        elif missing_w:
            lost_fams = sorted({(x[0], x[1]) for x in missing_w})
            kind = 'v4' if lost_fams == [(1, 1)] else 'mp'
            res.violation(f'C09/withdraw-lost:{regime}:{kind}', f'{len(missing_w)} of {len(exp_w)} requested withdrawals are in no message', dict(wit, missing=[list(x) for x in missing_w[:3]]), cls)
        elif extra_w:
            res.violation(f'C09/withdraw-invented:{mix}', f'{len(extra_w)} withdrawals nobody requested', dict(wit, extra=[list(x) for x in extra_w[:3]]), cls)
        else:
            dist = min((maxsize - x for x in sizes), default=maxsize)
            bucket = 'at-limit' if dist == 0 else 'within8' if dist <= 8 else 'within64' if dist <= 64 else 'far'
            res.ok(cls, (maxsize, mix, mode, regime, bucket, via))
            res.ok('distance:' + bucket)
            res.ok('via:' + via)
            if sweep:
                res.ok('mp-room-sweep')
                res.extra.setdefault('mp_rooms_visited', [])
                room_left = maxsize - 23 - alen
                if room_left not in res.extra['mp_rooms_visited']:
                    res.extra['mp_rooms_visited'].append(room_left)
            if dup_a or dup_w:
                res.count('identical-resend', dup_a + dup_w)
            res.sample({'max': maxsize, 'mix': mix, 'mode': mode, 'messages': len(raws), 'sizes': sizes[:5], 'announce': len(requested_a)}, limit=3)
    return res


REQUIRED_CLASSES = {'quick': ['daemon:table', 'mp-room-sweep', 'distance:at-limit', 'distance:within8', 'distance:far', 'via:direct', 'via:rib'], 'thorough': ['daemon:table', 'distance:at-limit', 'distance:within8', 'distance:far', 'via:direct', 'via:rib']}
