"""C16 - FlowSpec rules mean on the wire what they say in text.

Monitor (runtime, differential):
  encode : generated (text, intended rule) pairs -> REAL configuration parser (`flow { route ... }` through
           Configuration.reload) / REAL API parser (`API.api_flow`, `API.api_announce_v4/v6`, the functions
           `announce flow ...` / `announce ipv4 flow ...` run) -> REAL `Flow.pack_nlri()` and the REAL
           extended community attribute bytes, observed at their return values.
  decode : NLRI bytes built by the independent encoder -> REAL `NLRI.unpack_nlri()`; observed: the Flow
           object's parsed `rules`, its `json()` rendering, NLRI.INVALID, Notify or any other exception.
Oracle   : vlib/refwire/flow.py, an explicit RFC 8955/8956 bit layout codec (no exabgp code).

Decisions where the statement is silent (documented, see ASSUMPTIONS):
  * component types out of order / present twice: RFC 8955 4.2 makes both malformed, so the reference
    decoder refuses them. A re-ordered NLRI that ExaBGP accepts carries the same components -> counted
    (info 'dec-order-accepted'), not flagged. A duplicated component that ExaBGP merges into one OR list is a
    broader rule than any reading of the bytes -> flagged (key C16/dec-accepts-malformed:duplicate).
  * reserved operator bits / AND bit on the first operator of a received NLRI: counted, not flagged.
  * an NLRI with no component at all: counted, not flagged.
"""

from __future__ import annotations

import ipaddress
import json
import random
import struct

from vlib import exa
from vlib.mon import Result
from vlib.refwire import flow as rf

PROPERTY = 'C16'
LEVEL = 'exploration'
RULE = (
    'encode: seeded FlowSpec rules drawn from a grammar over the 13 component types (prefixes v4/v6 with offsets, '
    'names and numbers, operators = > < >= <= != and bitmask "" = ! !=, AND groups, OR lists, values at every width '
    'boundary), 0-3 traffic actions, with/without route distinguisher, written in shuffled component order on three '
    'text surfaces (configuration flow{route{}}, API "announce flow route {}", API "announce ipv4|ipv6 flow ..."); a '
    'share of the rules is padded with operators to exact NLRI sizes 228-252 and 4080-4100. decode: seeded well-formed '
    'NLRI from the reference encoder (all 13 types, non-minimal widths, RD, both AFIs, sizes around 240/256/4095) and '
    'one-fault mutants (undefined type, truncated value, missing end-of-list, length overrun, RD cut, prefix length, '
    'order, duplicate). distinct = distinct (direction, surface/fault, family, component set, actions, length regime)'
)
ASSUMPTIONS = [
    'vlib/refwire/flow.py implements RFC 8955 4/7/8 and RFC 8956 3 correctly (self-consistency and RFC example vectors counted as refwire-selfcheck)',
    'text semantics learnt from the shipped documentation/examples: "[ a b ]" is an OR list (AND bit unset), "a&b" sets the AND bit on b, a bare value means "=", names map to the IANA/RFC numbers',
    '"shortest allowed width" is the smallest width RFC 8955/8956 lets a sender use for that component (1 only for protocol/icmp/dscp/fragment, 1-2 for ports/length/tcp-flags, 1-2-4 for flow-label)',
    'IPv6 prefix text addr/length/offset means RFC 8956 3.1 length and offset; the wire pattern is the address bits offset..length-1',
    'the AS field of the traffic-rate communities is informational (RFC 8955 7.1) and not compared',
    'out-of-order and duplicated components are malformed for the reference (RFC 8955 4.2); only the duplicated case is flagged when accepted',
    'the decode side observes the parsed rules of the Flow object and its json() rendering, which is what the API delivers',
    'redirect to "IPv4:NN" (0x8108) and "[IPv6]:NN" cannot be written on either surface (text refused), so they are not generated; counted as text-not-expressible',
]
MANIFEST = {
    'level': 'exploration',
    'technique': 'runtime differential monitor: real text parsers + Flow.pack_nlri / NLRI.unpack_nlri vs an independent RFC 8955/8956 bit-layout codec, both directions; generated rules written by a real helper process to the real exabgp process, the NLRI received by a scripted peer held to the same bit-level oracle',
    'text': 'Seeded rules are written as configuration and API text, parsed and packed by the production code and the bytes '
    'are decoded by an independent reference and compared with the intended rule (order, end-of-list, AND bits, widths, '
    'length form, RD, action communities). Reference-built well-formed and one-fault NLRI are handed to the production '
    'decoder; the delivered rule must equal the reference rule, a malformed NLRI must give INVALID/Notify. Held means no '
    'disagreement on the generated cases, not a proof over all rules.',
    'note': 'trusted base: vlib/refwire/flow.py; out-of-order components only counted; reserved bits and first-operator AND on receive only counted; redirect IPv4:NN / [IPv6]:NN not expressible in text',
}
SHARD_TIMEOUT = {'quick': 300, 'thorough': 1500}

FAMILIES = [(1, 133), (1, 134), (2, 133), (2, 134)]

# names -> numbers, from IANA protocol numbers / ICMP parameters / RFC 9293 / RFC 8955 4.2.2.12 (not from exabgp)
PROTO = {'icmp': 1, 'igmp': 2, 'tcp': 6, 'egp': 8, 'udp': 17, 'rsvp': 46, 'gre': 47, 'esp': 50, 'ah': 51, 'ospf': 89, 'pim': 103, 'sctp': 132}
ICMP_TYPE = {
    'echo-reply': 0,
    'unreachable': 3,
    'redirect': 5,
    'echo-request': 8,
    'router-advertisement': 9,
    'router-solicit': 10,
    'time-exceeded': 11,
    'parameter-problem': 12,
    'timestamp': 13,
    'timestamp-reply': 14,
}
ICMP_CODE = {
    'network-unreachable': 0,
    'host-unreachable': 1,
    'protocol-unreachable': 2,
    'port-unreachable': 3,
    'fragmentation-needed': 4,
    'source-route-failed': 5,
    'destination-network-unknown': 6,
    'destination-host-unknown': 7,
    'source-host-isolated': 8,
    'destination-network-prohibited': 9,
    'destination-host-prohibited': 10,
    'communication-prohibited-by-filtering': 13,
}
TCP_FLAG = {'fin': 1, 'syn': 2, 'rst': 4, 'push': 8, 'ack': 16, 'urgent': 32, 'urg': 32, 'ece': 64, 'cwr': 128, 'ns': 256}
FRAGMENT = {'dont-fragment': 1, 'is-fragment': 2, 'first-fragment': 4, 'last-fragment': 8}

NUM_OPS = {'=': 1, '>': 2, '<': 4, '>=': 3, '<=': 5, '!=': 6, '': 1}
BIT_OPS = {'': 0, '=': 1, '!': 2, '!=': 3}
NUM_OP_CLS = {1: 'eq', 2: 'gt', 3: 'ge', 4: 'lt', 5: 'le', 6: 'ne', 0: 'false', 7: 'true'}
BIT_OP_CLS = {0: 'bit-include', 1: 'bit-match', 2: 'bit-not', 3: 'bit-not-match'}


def cname(afi: int, ctype: int) -> str:
    if afi == 2 and ctype == 3:
        return 'next-header'
    if afi == 2 and ctype == 11:
        return 'traffic-class'
    return rf.NAMES[ctype]


def plan(tier, seed):
    if tier == 'quick':
        return [{'shard': i, 'enc': 900, 'dec': 900} for i in range(16)] + [{'shard': 900 + i, 'daemon': True, 'part': i, 'rules': 25} for i in range(4)]
    return [{'shard': i, 'enc': 6300, 'dec': 6300} for i in range(64)] + [{'shard': 900 + i, 'daemon': True, 'part': i, 'rules': 150} for i in range(8)]


# ====================================================================== generation: text rules


def gen_prefix(r: random.Random, afi: int, ctype: int, allow_offset: bool = True):
    """-> (text value, payload)"""
    if afi == 1:
        length = r.choice([0, 1, 7, 8, 9, 15, 16, 17, 23, 24, 25, 31, 32, r.randrange(33)])
        addr = r.getrandbits(32)
        if length < 32:
            addr &= ~((1 << (32 - length)) - 1) & 0xFFFFFFFF
        text = f'{ipaddress.IPv4Address(addr)}/{length}'
        return text, ('prefix', length, 0, addr >> (32 - length) if length else 0)
    length = r.choice([0, 1, 8, 9, 16, 32, 33, 48, 63, 64, 65, 96, 104, 120, 127, 128, r.randrange(129)])
    addr = r.getrandbits(128)
    if length < 128:
        addr &= ~((1 << (128 - length)) - 1) & ((1 << 128) - 1)
    offset = 0
    if allow_offset and length > 1 and r.random() < 0.12:
        offset = r.choice([1, 8, length // 2, length - 1, r.randrange(1, length)])
        offset = max(1, min(offset, length - 1))
        if r.random() < 0.5:  # skipped bits written as zero
            addr &= (1 << (128 - offset)) - 1
    ip = ipaddress.IPv6Address(addr)
    ip_text = ip.compressed if r.random() < 0.7 else ip.exploded
    if offset or r.random() < 0.5:
        text = f'{ip_text}/{length}/{offset}'
    else:
        text = f'{ip_text}/{length}'
    nbits = length - offset
    pattern = (addr >> (128 - length)) & ((1 << nbits) - 1) if length else 0
    return text, ('prefix', length, offset, pattern)


def _num(r, pool, top):
    return r.choice(pool) if r.random() < 0.6 else r.randrange(top + 1)


def gen_value(r: random.Random, afi: int, ctype: int):
    """-> (text, number)"""
    if ctype == 3:
        if r.random() < 0.5:
            n = r.choice(sorted(PROTO))
            return (n.upper() if r.random() < 0.2 else n), PROTO[n]
        v = _num(r, [0, 1, 6, 17, 58, 254, 255], 255)
        return str(v), v
    if ctype in (4, 5, 6):
        v = _num(r, [0, 1, 22, 80, 255, 256, 443, 1024, 8080, 65534, 65535], 65535)
        return str(v), v
    if ctype == 7:
        if r.random() < 0.5:
            n = r.choice(sorted(ICMP_TYPE))
            return n, ICMP_TYPE[n]
        v = _num(r, [0, 3, 8, 128, 255], 255)
        return str(v), v
    if ctype == 8:
        if r.random() < 0.5:
            n = r.choice(sorted(ICMP_CODE))
            return n, ICMP_CODE[n]
        v = _num(r, [0, 1, 13, 255], 255)
        return str(v), v
    if ctype == 9:
        k = r.random()
        if k < 0.6:
            names = r.sample(sorted(set(TCP_FLAG) - {'urg'}), r.choice([1, 1, 2, 3]))
            if 'urgent' not in names and r.random() < 0.1:
                names[0] = 'urg'
            v = 0
            for n in names:
                v |= TCP_FLAG[n]
            text = '+'.join(names)
            return (text.upper() if r.random() < 0.2 else text), v
        v = _num(r, [1, 2, 0x12, 0x3F, 0xFF, 0x100, 0x1FF, 0xFFF], 0xFFF)
        return (hex(v) if k < 0.8 else str(v)), v
    if ctype == 10:
        v = _num(r, [0, 40, 64, 255, 256, 1500, 9000, 65535], 65535)
        return str(v), v
    if ctype == 11:
        v = _num(r, [0, 1, 10, 46, 63], 63) if afi == 1 else _num(r, [0, 46, 63, 101, 255], 255)
        return str(v), v
    if ctype == 12:
        if r.random() < 0.7:
            names = r.sample(sorted(FRAGMENT), r.choice([1, 1, 2]))
            v = 0
            for n in names:
                v |= FRAGMENT[n]
            return '+'.join(names), v
        v = r.randrange(1, 16)
        return str(v), v
    if ctype == 13:
        v = _num(r, [0, 1, 255, 256, 2013, 65535, 65536, 70000, 0xFFFFF], 0xFFFFF)
        return str(v), v
    raise ValueError(ctype)


def gen_groups(r: random.Random, afi: int, ctype: int, big: int = 6):
    """-> list of groups, a group = list of (op text, value text, op bits, number)"""
    ops = BIT_OPS if ctype in rf.BITMASK_TYPES else NUM_OPS
    ngroups = r.choice([1, 1, 1, 1, 2, 2, 3, r.randrange(1, big + 1)])
    if r.random() < 0.04:
        ngroups = r.randrange(7, 61)  # operator lists up to 60 entries
    groups = []
    for _ in range(ngroups):
        group = []
        for _ in range(r.choice([1, 1, 1, 1, 2, 2, 3])):
            optext = r.choice(sorted(ops))
            vtext, v = gen_value(r, afi, ctype)
            group.append((optext, vtext, ops[optext], v))
        groups.append(group)
    return groups


def groups_text(r: random.Random, groups) -> str:
    toks = ['&'.join(o + v for o, v, _, _ in g) for g in groups]
    if len(toks) == 1 and r.random() < 0.5:
        return toks[0]
    if r.random() < 0.15:
        return '[' + ' '.join(toks) + ']'
    return '[ ' + ' '.join(toks) + ' ]'


def groups_ops(ctype: int, groups) -> list:
    ops = []
    for g in groups:
        for i, (_, _, bits, v) in enumerate(g):
            ops.append((1 if i else 0, bits, v, rf.min_send_width(ctype, v)))
    return ops


def gen_rd(r: random.Random):
    k = r.choice([0, 1, 2])
    if k == 0:
        a, n = r.choice([1, 64512, 65535, r.randrange(1, 65536)]), r.choice([0, 65536, 0xFFFFFFFF, r.getrandbits(32)])
        return f'{a}:{n}', rf.enc_rd(0, a, n)
    if k == 1:
        ip, n = str(ipaddress.IPv4Address(r.getrandbits(32) | 0x01000000)), r.choice([0, 5, 65535, r.getrandbits(16)])
        return f'{ip}:{n}', rf.enc_rd(1, ip, n)
    a, n = r.choice([65536, 4200000000, 0xFFFFFFFF, r.randrange(65536, 1 << 32)]), r.choice([0, 65535, r.getrandbits(16)])
    return f'{a}:{n}', rf.enc_rd(2, a, n)


ACTION_KINDS = [
    'none',
    'accept',
    'discard',
    'rate-bytes',
    'rate-packets',
    'redirect-as2',
    'redirect-as4',
    'mark',
    'action-sample',
    'action-terminal',
    'action-sample-terminal',
    'redirect-ip-nexthop',
    'copy',
    'redirect-to-nexthop',
    'redirect-ietf4',
]


def gen_actions(r: random.Random, surface: str = 'config'):
    """-> list of (kind, then-text, expected 8 octet community | None, next hop | None, route level text)"""
    first = r.choice(ACTION_KINDS)
    if surface == 'api-flat' and first == 'redirect-to-nexthop':
        first = 'redirect-ip-nexthop'  # "announce ipv4 flow ..." has no next-hop keyword (learnt from its syntax help)
    kinds = [first]
    if first not in ('none', 'accept') and r.random() < 0.35:
        for extra in r.sample(['mark', 'action-sample', 'action-terminal', 'action-sample-terminal', 'redirect-as2', 'rate-bytes'], 2):
            family = lambda k: k.split('-')[0]  # noqa: E731
            if all(family(extra) != family(k) for k in kinds) and not (extra == 'rate-bytes' and 'discard' in kinds):
                if extra == 'redirect-as2' and any(k in kinds for k in ('redirect-ip-nexthop', 'copy', 'redirect-to-nexthop', 'redirect-ietf4', 'redirect-as4')):
                    continue
                kinds.append(extra)
    out = []
    for k in kinds:
        if k == 'none':
            continue
        if k == 'accept':
            out.append((k, 'accept', None, None, ''))
        elif k == 'discard':
            out.append((k, 'discard', rf.act_rate_bytes(0.0), None, ''))
        elif k == 'rate-bytes':
            n = r.choice([0, 9600, 65535, 1000000, 1250000000, 16777217, r.randrange(9600, 10**12)])
            text = f'rate-limit {n}' + (' bytes' if r.random() < 0.2 else '')
            out.append((k, text, rf.act_rate_bytes(float(n)), None, ''))
        elif k == 'rate-packets':
            n = r.choice([0, 1, 1000, 16777217, r.randrange(1, 10**9)])
            out.append((k, f'rate-limit {n} packets', rf.act_rate_packets(float(n)), None, ''))
        elif k == 'redirect-as2':
            a, n = r.choice([1, 258, 65500, 65535, r.randrange(1, 65536)]), r.choice([0, 12345, 33756718, 0xFFFFFFFF, r.getrandbits(32)])
            out.append((k, f'redirect {a}:{n}', rf.act_redirect_as2(a, n), None, ''))
        elif k == 'redirect-as4':
            a, n = r.choice([65536, 70000, 4200000000, 0xFFFFFFFF]), r.choice([0, 12, 65535, r.getrandbits(16)])
            out.append((k, f'redirect {a}:{n}', rf.act_redirect_as4(a, n), None, ''))
        elif k == 'mark':
            n = r.choice([0, 1, 10, 46, 63, r.randrange(64)])
            out.append((k, f'mark {n}', rf.act_mark(n), None, ''))
        elif k.startswith('action-'):
            word = k[len('action-') :]
            out.append((k, f'action {word}', rf.act_action('sample' in word, 'terminal' in word), None, ''))
        elif k == 'redirect-ip-nexthop':
            ip = str(ipaddress.IPv4Address(r.getrandbits(32) | 0x01000000))
            out.append((k, f'redirect {ip}', rf.act_nexthop(False), ip, ''))
        elif k == 'copy':
            ip = str(ipaddress.IPv4Address(r.getrandbits(32) | 0x01000000))
            out.append((k, f'copy {ip}', rf.act_nexthop(True), ip, ''))
        elif k == 'redirect-to-nexthop':
            ip = str(ipaddress.IPv4Address(r.getrandbits(32) | 0x01000000))
            out.append((k, 'redirect-to-nexthop', rf.act_nexthop(False), ip, f'next-hop {ip}'))
        elif k == 'redirect-ietf4':
            ip = str(ipaddress.IPv4Address(r.getrandbits(32) | 0x01000000))
            out.append((k, f'redirect-to-nexthop-ietf {ip}', rf.act_nexthop_ietf4(ip, False), None, ''))
    return out


FILLERS = {1: [4, 5, 6, 10], 2: [4, 5, 6, 10, 13]}


def body_size(rule: dict) -> int:
    return len(rf.enc_body(rule))


def pad_to(r: random.Random, rule: dict, comp_text: dict, target: int) -> bool:
    """add OR-ed '=' operators to one numeric component so that the NLRI value is exactly target octets"""
    afi = rule['afi']
    ctype = r.choice(FILLERS[afi])
    have = dict(rule['comps'])
    size = body_size(rule)
    if ctype not in have:
        size += 1  # the type octet
    need = target - size
    if need < 2:
        return False
    sizes = []  # operator sizes: 2 (1 octet value), 3 (2 octet value), 5 (flow label 4 octet value)
    while need > 0:
        if need == 2 or need == 4:
            s = 2
        elif need == 3:
            s = 3
        elif ctype == 13 and need >= 7 and r.random() < 0.3:
            s = 5
        elif need == 5 and ctype != 13:
            s = 3
        elif r.random() < 0.7:
            s = 3
        else:
            s = 2
        if need - s == 1:
            s = 2 if s == 3 else 3
        sizes.append(s)
        need -= s
    if need != 0:
        return False
    groups = []
    for s in sizes:
        v = {2: r.randrange(256), 3: r.randrange(256, 65536), 5: r.randrange(65536, 0x100000)}[s]
        groups.append([('=', str(v), 1, v)])
    ops = list(have.get(ctype, [])) + groups_ops(ctype, groups)
    extra_text = ' '.join('=' + g[0][1] for g in groups)
    if ctype in have:
        old = comp_text[ctype]
        inner = old[1:-1].strip() if old.startswith('[') else old
        comp_text[ctype] = '[ ' + inner + ' ' + extra_text + ' ]'
    else:
        comp_text[ctype] = '[ ' + extra_text + ' ]'
    have[ctype] = ops
    rule['comps'] = sorted(have.items())
    return body_size(rule) == target


def gen_text_rule(r: random.Random, surface: str) -> dict:
    afi = r.choice([1, 1, 2])
    vpn = r.random() < 0.3
    types_all = list(rf.defined_types(afi))
    n = r.choice([1, 1, 2, 2, 3, 3, 4, 5, 6, len(types_all)])
    types = r.sample(types_all, n)
    # the two route{} surfaces derive the family from the prefixes: an IPv6 rule needs one there
    if afi == 2 and surface != 'api-flat' and 1 not in types and 2 not in types:
        types.append(r.choice([1, 2]))
    k = r.random()
    target = None
    if k < 0.16:
        target = r.randrange(228, 253)
    elif k < 0.20:
        target = r.randrange(4080, 4101)
    elif k < 0.23:
        target = r.choice([239, 240, 255, 256, 257, 4094, 4095, 4096])
    comps, comp_text = {}, {}
    for t in types:
        if t in rf.PREFIX_TYPES:
            # size-targeted rules carry no offset prefix: ExaBGP's offset encoding has its own size (separate mechanism)
            text, payload = gen_prefix(r, afi, t, allow_offset=target is None)
            comps[t], comp_text[t] = payload, text
        else:
            groups = gen_groups(r, afi, t)
            comps[t], comp_text[t] = groups_ops(t, groups), groups_text(r, groups)
    rd_text, rd = gen_rd(r) if vpn else (None, None)
    rule = {'afi': afi, 'safi': 134 if vpn else 133, 'rd': rd, 'comps': sorted(comps.items())}
    if target is not None and not pad_to(r, rule, comp_text, target):
        target = None
    order = list(dict(rule['comps']))
    r.shuffle(order)
    actions = gen_actions(r, surface)
    return {
        'surface': surface,
        'rule': rule,
        'order': order,
        'comp_text': comp_text,
        'rd_text': rd_text,
        'actions': actions,
        'size': body_size(rule),
        'padded': target is not None,
    }


def keyword(r: random.Random, afi: int, t: int) -> str:
    if t in rf.PREFIX_TYPES:
        base = rf.NAMES[t]
        return r.choice([base, base, base + ('-ipv4' if afi == 1 else '-ipv6')])
    return cname(afi, t)


def render(r: random.Random, g: dict, only=None) -> str:
    rule = g['rule']
    afi = rule['afi']
    order = [t for t in g['order'] if only is None or t in only]
    match = [f'{keyword(r, afi, t)} {g["comp_text"][t]}' for t in order]
    then = [a[1] for a in g['actions']]
    route_level = [a[4] for a in g['actions'] if a[4]]
    rdkw = 'rd'
    if g['surface'] == 'config':
        rdkw = r.choice(['rd', 'route-distinguisher'])
    if g['surface'] in ('config', 'api'):
        head = ''.join(f'{x}; ' for x in ([f'{rdkw} {g["rd_text"]}'] if g['rd_text'] else []) + route_level)
        body = head + 'match { ' + ''.join(m + '; ' for m in match) + '} then { ' + ''.join(t + '; ' for t in then) + '}'
        if g['surface'] == 'config':
            return 'flow {\n route r1 { ' + body + ' }\n}\n'
        return 'announce flow route { ' + body + ' }'
    # a rule with a route distinguisher is a flow-vpn rule whichever of the two family words the flat form uses
    fam = ('ipv4' if afi == 1 else 'ipv6') + (' flow-vpn' if rule['safi'] == 134 and r.random() < 0.7 else ' flow')
    parts = ([f'rd {g["rd_text"]}'] if g['rd_text'] else []) + route_level + match + then
    return f'announce {fam} ' + ' '.join(parts)


# ====================================================================== real code drivers


class Real:
    def __init__(self):
        from exabgp.bgp.message import Notify
        from exabgp.bgp.message.action import Action
        from exabgp.bgp.message.direction import Direction
        from exabgp.bgp.message.open.capability import Negotiated
        from exabgp.bgp.message.update.nlri import NLRI
        from exabgp.bgp.message.update.nlri.qualifier import RouteDistinguisher
        from exabgp.protocol.family import AFI, SAFI
        from exabgp.reactor.api import API

        self.Notify, self.Action, self.NLRI, self.AFI, self.SAFI = Notify, Action, NLRI, AFI, SAFI
        self.NORD = RouteDistinguisher.NORD
        self.base = exa.neighbor_text(families=FAMILIES)
        conf = exa.load_config(self.base)
        self.neighbor = list(conf.neighbors.values())[0]
        self.neg = Negotiated.make_negotiated(self.neighbor, Direction.OUT)
        self.api = API(None)  # the reactor is only used by the command callbacks, not by the text parsers

    def parse(self, surface: str, text: str):
        """-> (routes, error text)"""
        if surface == 'config':
            try:
                conf = exa.load_config(exa.neighbor_text(families=FAMILIES, body=text))
            except exa.ConfigError as e:
                return [], str(e)[-240:]
            routes = list(list(conf.neighbors.values())[0].routes)
            return routes, ''
        if surface == 'api':
            routes = self.api.api_flow(text)
        elif text.startswith('announce ipv4'):
            routes = self.api.api_announce_v4(text)
        else:
            routes = self.api.api_announce_v6(text)
        return list(routes), ('' if routes else str(self.api.configuration.error)[-240:])

    def decode(self, afi: int, safi: int, data: bytes):
        try:
            nlri, rest = self.NLRI.unpack_nlri(self.AFI.from_int(afi), self.SAFI.from_int(safi), memoryview(bytes(data)), self.Action.ANNOUNCE, False, self.neg)
        except self.Notify as n:
            return {'kind': 'notify', 'code': (n.code, n.subcode)}
        except Exception as e:  # noqa
            return {'kind': 'raise', 'exc': type(e).__name__, 'msg': str(e)[:200]}
        if nlri is self.NLRI.INVALID:
            return {'kind': 'invalid', 'rest': bytes(rest)}
        try:
            rule = self.normalise(nlri, afi, safi)
            js = nlri.json()
        except self.Notify as n:
            return {'kind': 'notify', 'code': (n.code, n.subcode)}
        except Exception as e:  # noqa
            return {'kind': 'raise', 'exc': type(e).__name__, 'msg': str(e)[:200]}
        return {'kind': 'rule', 'rule': rule, 'rest': bytes(rest), 'json': js}

    def normalise(self, nlri, afi: int, safi: int) -> dict:
        comps = []
        extra = []
        for ID in sorted(nlri.rules):
            lst = nlri.rules[ID]
            if ID in rf.PREFIX_TYPES:
                if len(lst) != 1:
                    extra.append(f'{len(lst)} prefixes for component {ID}')
                x = lst[0]
                net, length = str(x.cidr).split('/')
                length = int(length)
                offset = int(getattr(x, 'offset', 0))
                bits = 32 if afi == 1 else 128
                addr = int(ipaddress.ip_address(net))
                nbits = length - offset
                pattern = (addr >> (bits - length)) & ((1 << nbits) - 1) if length and nbits > 0 else 0
                comps.append((ID, ('prefix', length, offset, pattern)))
            else:
                mask = rf.BIT_OP_MASK if ID in rf.BITMASK_TYPES else rf.NUM_OP_MASK
                ops = []
                for i, x in enumerate(lst):
                    o = int(x.operations)
                    ops.append((1 if (o & 0x40) else 0, o & mask, int(x.value), 0))
                comps.append((ID, ops))
        rd = nlri.rd
        rdb = None if rd is self.NORD else bytes(rd.pack_rd())
        return {'afi': int(nlri.afi), 'safi': int(nlri.safi), 'rd': rdb or None, 'comps': comps, 'extra': extra}


# ====================================================================== encode direction


def jrule(rule: dict) -> dict:
    return {
        'afi': rule['afi'],
        'safi': rule['safi'],
        'rd': rule['rd'].hex() if rule.get('rd') else None,
        'comps': [[t, list(p) if t in rf.PREFIX_TYPES else [list(o) for o in p]] for t, p in rule['comps']],
    }


def minimise_refusal(real: Real, r: random.Random, g: dict) -> str:
    """which single component makes the text unacceptable (structural name for the mechanism key)"""
    for t in sorted(dict(g['rule']['comps'])):
        keep = {t}
        if g['rule']['afi'] == 2 and g['surface'] != 'api-flat' and t not in rf.PREFIX_TYPES:
            continue
        g2 = dict(g, actions=[a for a in g['actions'] if a[0] == 'discard'][:1])
        try:
            routes, _ = real.parse(g['surface'], render(r, g2, keep))
        except Exception:  # noqa
            routes = []
        if not routes:
            return cname(g['rule']['afi'], t)
    if g['actions']:
        return 'action:' + g['actions'][0][0]
    return 'combination'


def diagnose(e: rf.RefFlowError, want: dict, data: bytes) -> str:
    """mechanism behind bytes the reference cannot decode (structural hints only)"""
    wc = dict(want['comps'])
    for t, p in want['comps']:
        if t in rf.PREFIX_TYPES and p[2] > 0:
            return 'C16/enc-ipv6-offset-bytes'
    if e.kind == 'order' or e.kind == 'duplicate':
        return 'C16/enc-order'
    if e.kind == 'missing-eol':
        return 'C16/enc-eol'
    # an end-of-list set too early turns the next operator octet into a component type
    for t, p in e.partial:
        if t not in rf.PREFIX_TYPES and t in wc and len(p) < len(wc[t]):
            return 'C16/enc-eol'
    return 'C16/enc-undecodable:' + e.kind


def check_actions(res: Result, real: Real, g: dict, route, wit: dict) -> None:
    want = sorted(a[2] for a in g['actions'] if a[2] is not None)
    kinds = [a[0] for a in g['actions']]
    got = []
    others = []
    for attr in route.attributes.values():
        raw = bytes(attr.pack_attribute(real.neg))
        flags, code, value, rest = rf.dec_path_attribute(raw)
        if code == 16:
            got = sorted(value[i : i + 8] for i in range(0, len(value), 8))
            if len(value) % 8:
                others.append('extended communities length %d' % len(value))
        else:
            others.append(code)
    # the AS of traffic-rate is informational (RFC 8955 7.1)
    strip = lambda c: c[:2] + c[4:] if c[:2] in (b'\x80\x06', b'\x80\x0c') else c  # noqa: E731
    wit = dict(wit, communities_got=[c.hex() for c in got], communities_want=[c.hex() for c in want], other_attributes=others)
    if sorted(map(strip, got)) != sorted(map(strip, want)) or others:
        # attribute the disagreement to the first action whose community is missing
        missing = [a[0] for a in g['actions'] if a[2] is not None and strip(a[2]) not in map(strip, got)]
        kind = missing[0] if missing else ('extra-community' if not others else 'extra-attribute')
        res.violation(f'C16/enc-action:{kind}', f'actions {kinds} are not the RFC extended communities {[c.hex() for c in want]}: got {[c.hex() for c in got]} {others}', wit, 'enc:action:' + kind)
    else:
        for k in kinds:
            res.ok('enc:action:' + k)
        if not kinds:
            res.ok('enc:action:none')
    nh = [a[3] for a in g['actions'] if a[3]]
    if nh:
        if str(route.nexthop) != nh[0]:
            res.violation('C16/enc-action-nexthop', f'next hop {route.nexthop} for action next hop {nh[0]}', wit, 'enc:action:nexthop')
        else:
            res.ok('enc:action:nexthop')


def check_encoding(res: Result, g: dict, data: bytes, wit: dict) -> bool:
    want = g['rule']
    afi, safi = want['afi'], want['safi']
    surface = g['surface']
    good = True
    # ---- 1. length form (RFC 8955 4.1)
    try:
        length, hdr = rf.dec_length(data)
    except rf.RefFlowError as e:
        res.violation('C16/enc-length-value', f'no length: {e}', wit, 'enc:len')
        return False
    if hdr + length != len(data) and data[0] >= 0xF0 and data[0] == len(data) - 1:
        # a one octet length of 240..255: the RFC reads 0xFn as the first octet of the two octet form
        res.violation('C16/enc-length-regime:short-form-from-240', f'{data[0]} octets announced in one octet ({data[0]:#x})', wit, 'enc:len:long')
        return False
    if hdr + length != len(data):
        res.violation('C16/enc-length-value', f'length field says {length}, {len(data) - hdr} octets follow', wit, 'enc:len')
        return False
    if length < 240 and hdr != 1:
        res.violation('C16/enc-length-regime:long-form-below-240', f'{length} octets announced in two octets', wit, 'enc:len:short')
        good = False
    elif length >= 240 and (hdr != 2 or data[0] & 0xF0 != 0xF0):
        res.violation('C16/enc-length-regime:short-form-from-240', f'{length} octets announced in one octet', wit, 'enc:len:long')
        good = False
    else:
        res.ok('enc:len:short' if hdr == 1 else 'enc:len:long')
        if g['padded']:
            res.ok('enc:len:boundary-%s' % ('240' if length < 1000 else '4095'))
    # ---- 2. route distinguisher first (RFC 8955 8)
    if safi == 134:
        if bytes(data[hdr : hdr + 8]) != want['rd']:
            res.violation('C16/enc-rd', f'value starts with {bytes(data[hdr:hdr + 8]).hex()}, route distinguisher is {want["rd"].hex()}', wit, 'enc:rd')
            return False
        res.ok('enc:rd')
    # ---- 3. strict decode by the reference
    try:
        got, rest = rf.dec_nlri(afi, safi, data)
    except rf.RefFlowError as e:
        key = diagnose(e, want, data)
        res.violation(key, f'reference cannot decode the NLRI ExaBGP packed: {e}', dict(wit, partial=[[t, list(map(list, p)) if t not in rf.PREFIX_TYPES else list(p)] for t, p in e.partial]), 'enc:decode')
        return False
    wc, gc = dict(want['comps']), dict(got['comps'])
    if any(t in rf.PREFIX_TYPES and p[2] for t, p in want['comps']) and (got['notes'] or not rf.same_rule(got, want, widths=True)):
        # one mechanism: the whole address is written from bit 0 over ceil(length/8) octets instead of the
        # (length - offset) bit pattern; whatever the reference reads after it is a consequence
        res.violation('C16/enc-ipv6-offset-bytes', f'rule with an offset prefix: wire decodes to {got["comps"][:2]}..., text says {want["comps"][:2]}... {got["notes"]}', dict(wit, decoded=jrule(got)), 'enc:ipv6-offset')
        return False
    if sorted(wc) != sorted(gc):
        key = 'C16/enc-components'
        for t in sorted(gc):
            if t in wc and t not in rf.PREFIX_TYPES and len(gc[t]) < len(wc[t]):
                key = 'C16/enc-eol'
        if any(t in rf.PREFIX_TYPES and p[2] for t, p in want['comps']):
            key = 'C16/enc-ipv6-offset-bytes'
        res.violation(key, f'components on the wire {sorted(gc)}, in the text {sorted(wc)}', dict(wit, decoded=jrule(got)), 'enc:components')
        return False
    res.ok('enc:order:' + ('shuffled' if g['order'] != sorted(g['order']) else 'sorted'))
    prefixes_agree = all(tuple(wc[t]) == tuple(gc[t]) for t in wc if t in rf.PREFIX_TYPES)
    for note in sorted(set(got['notes'])):
        if note == 'padding-not-zero' and (afi == 1 or not prefixes_agree):
            res.count('enc-prefix-trailing-bits-set')  # irrelevant for IPv4 (RFC 8955); for IPv6 reported with the prefix below
            continue
        if note == 'padding-not-zero' and any(t in rf.PREFIX_TYPES and wc[t][2] for t in wc):
            # the address written from bit 0 instead of the pattern from bit `offset`: the skipped bits land in the padding
            res.violation('C16/enc-ipv6-offset-bytes', 'offset prefix: bits outside the (length - offset) bit pattern are set on the wire', dict(wit, decoded=jrule(got)), 'enc:ipv6-offset')
        else:
            res.violation('C16/enc-' + note, f'sender side MUST violated: {note}', wit, 'enc:notes')
        good = False
    for t in sorted(wc):
        name = cname(afi, t)
        w, gt = wc[t], gc[t]
        if t in rf.PREFIX_TYPES:
            if tuple(w) != tuple(gt):
                key = 'C16/enc-ipv6-offset-bytes' if w[2] else f'C16/enc-prefix:{name}'
                res.violation(key, f'{name} {w} encoded as {gt}', dict(wit, decoded=jrule(got)), f'enc:component:{t}')
                good = False
            else:
                res.ok(f'enc:component:{t}')
                if w[2]:
                    res.ok('enc:ipv6-offset')
            continue
        if len(w) != len(gt):
            prefix = [x[:3] for x in gt] == [x[:3] for x in w[: len(gt)]]
            key = 'C16/enc-eol' if prefix and len(gt) < len(w) else f'C16/enc-ops:{name}'
            res.violation(key, f'{name}: {len(w)} operators in the text, {len(gt)} before the end-of-list', dict(wit, decoded=jrule(got)), f'enc:component:{t}')
            good = False
            continue
        bad = None
        for i, ((wa, wo, wv, ww), (ga, go, gv, gw)) in enumerate(zip(w, gt)):
            if wa != ga:
                bad = (f'C16/enc-and:{name}', f'operator {i}: AND bit {ga}, text says {wa}')
            elif wo != go:
                bad = (f'C16/enc-op:{name}', f'operator {i}: bits {go:#x}, text says {wo:#x}')
            elif wv != gv:
                bad = (f'C16/enc-value:{name}', f'operator {i}: value {gv}, text says {wv}')
            elif ww != gw:
                bad = (f'C16/enc-width:{name}', f'operator {i}: value {wv} in {gw} octets, shortest allowed is {ww}')
            if bad:
                break
        if bad:
            res.violation(bad[0], f'{name}: {bad[1]}', dict(wit, decoded=jrule(got)), f'enc:component:{t}')
            good = False
            continue
        res.ok(f'enc:component:{t}')
        res.ok('enc:eol', n=1)
        opcls = BIT_OP_CLS if t in rf.BITMASK_TYPES else NUM_OP_CLS
        for a, o, v, wd in w:
            res.ok('enc:op:' + opcls[o])
            res.ok(f'enc:width:{wd}')
            if a:
                res.ok('enc:and')
    return good


def encode_case(res: Result, real: Real, r: random.Random, g: dict) -> None:
    want = g['rule']
    afi, safi = want['afi'], want['safi']
    text = render(r, g)
    size = g['size']
    wit = {'surface': g['surface'], 'text': text if len(text) < 3000 else text[:1500] + ' ... ' + text[-800:], 'text_len': len(text), 'want': jrule(want) if size < 400 else {'size': size}, 'size': size}
    sig = ('enc', g['surface'], afi, safi, tuple(sorted(dict(want['comps']))), tuple(a[0] for a in g['actions']), 0 if size < 240 else (1 if size <= 4095 else 2))
    try:
        routes, err = real.parse(g['surface'], text)
    except Exception as e:  # noqa
        res.violation(f'C16/text-parser-raises:{type(e).__name__}', f'text parser raised {type(e).__name__}: {e}', wit, 'enc:surface:' + g['surface'])
        return
    if g['surface'] == 'config' and len(routes) == 2:
        res.count('config-route-listed-twice')
        routes = routes[:1]
    if size > 4095:
        # nothing the RFC can carry: refusing at parse or at pack time is the only correct answer
        if not routes:
            res.ok('enc:len:over-refused', sig)
            return
        try:
            data = bytes(routes[0].nlri.pack_nlri(real.neg))
        except real.Notify:
            res.ok('enc:len:over-refused', sig)
            return
        except Exception as e:  # noqa
            res.violation(f'C16/enc-pack-raises:{type(e).__name__}', f'pack_nlri raised {type(e).__name__}: {e}', wit, 'enc:len:over')
            return
        res.violation('C16/enc-length-regime:over-4095-emitted', f'a {size} octet rule was packed as {len(data)} octets starting {data[:3].hex()}', dict(wit, nlri_head=data[:16].hex()), 'enc:len:over')
        return
    if len(routes) != 1:
        if not routes and size == 4095 and 'larger than encoding allows' in err:
            res.violation('C16/enc-length-regime:4095-refused', f'a rule of exactly 4095 octets (the RFC maximum, 0xFFFF) is refused: {err[-160:]}', wit, 'enc:len:long')
        elif not routes:
            what = minimise_refusal(real, r, g) if size < 1000 else 'long-rule'
            res.violation(f'C16/text-refused-valid:{g["surface"]}:{what}', f'valid rule refused: {err}', dict(wit, error=err), 'enc:surface:' + g['surface'])
        else:
            res.violation(f'C16/text-route-count:{g["surface"]}', f'one rule gave {len(routes)} routes', wit, 'enc:surface:' + g['surface'])
        return
    route = routes[0]
    nlri = route.nlri
    try:
        data = bytes(nlri.pack_nlri(real.neg))
    except real.Notify as n:
        if size == 4095:
            res.violation('C16/enc-length-regime:4095-refused', f'a rule of exactly 4095 octets (the RFC maximum, 0xFFFF) is refused: {n}', wit, 'enc:len:long')
        else:
            res.violation('C16/enc-pack-raises:Notify', f'pack_nlri refused a {size} octet rule: {n}', wit, 'enc:pack')
        return
    except Exception as e:  # noqa
        res.violation(f'C16/enc-pack-raises:{type(e).__name__}', f'pack_nlri raised {type(e).__name__}: {e}', wit, 'enc:pack')
        return
    wit['nlri'] = data.hex() if len(data) < 600 else data[:300].hex() + '...' + data[-100:].hex()
    if (int(nlri.afi), int(nlri.safi)) != (afi, safi):
        res.violation(f'C16/enc-family:{g["surface"]}', f'rule for afi/safi {afi}/{safi} is announced as {int(nlri.afi)}/{int(nlri.safi)}', wit, 'enc:family')
        return
    ok = check_encoding(res, g, data, wit)
    try:
        check_actions(res, real, g, route, wit)
    except rf.RefFlowError as e:
        res.violation('C16/enc-action:attribute-malformed', f'attribute bytes are not a path attribute: {e}', wit, 'enc:action')
        ok = False
    if ok:
        res.ok('enc:surface:' + g['surface'], sig)
        res.ok(f'enc:family:{afi}/{safi}')
        if size < 120:
            res.sample({'surface': g['surface'], 'text': text.replace('\n', ' '), 'nlri': data.hex()})


def afi_inference_case(res: Result, real: Real, r: random.Random, surface: str) -> None:
    """an IPv6-only keyword without any prefix on the surfaces that infer the family from the prefixes"""
    v = r.choice([5, 255, 2013, 70000])
    g = {
        'surface': surface,
        'rule': {'afi': 2, 'safi': 133, 'rd': None, 'comps': [(13, [(0, 1, v, rf.min_send_width(13, v))])]},
        'order': [13],
        'comp_text': {13: f'={v}'},
        'rd_text': None,
        'actions': [('discard', 'discard', rf.act_rate_bytes(0.0), None, '')],
        'size': 0,
        'padded': False,
    }
    text = render(r, g)
    wit = {'surface': surface, 'text': text}
    try:
        routes, err = real.parse(surface, text)
    except Exception as e:  # noqa
        res.violation(f'C16/text-parser-raises:{type(e).__name__}', f'{e}', wit, 'enc:afi-inference')
        return
    if not routes:
        res.ok('enc:afi-inference')  # refusing a family-less IPv6 rule is fine
        res.count('ipv6-keyword-without-prefix-refused')
        return
    nlri = routes[0].nlri
    data = bytes(nlri.pack_nlri(real.neg))
    wit['nlri'] = data.hex()
    wit['family'] = [int(nlri.afi), int(nlri.safi)]
    try:
        rf.dec_nlri(int(nlri.afi), int(nlri.safi), data)
    except rf.RefFlowError as e:
        res.violation('C16/enc-undefined-component:flow-label-in-ipv4', f'"flow-label" without a prefix is announced in afi {int(nlri.afi)} where component 13 is undefined (RFC 8955): {e}', wit, 'enc:afi-inference')
        return
    res.ok('enc:afi-inference')


# ====================================================================== decode direction


def gen_wire_rule(r: random.Random, afi=None, safi=None, small=False, offsets=True) -> dict:
    afi = afi or r.choice([1, 2])
    safi = safi or r.choice([133, 133, 134])
    types_all = list(rf.defined_types(afi))
    n = r.choice([1, 1, 2, 3, 4, 6, len(types_all)])
    if small:
        n = r.choice([1, 2, 3])
    comps = []
    for t in sorted(r.sample(types_all, n)):
        if t in rf.PREFIX_TYPES:
            if afi == 1:
                length = r.choice([0, 1, 8, 9, 24, 31, 32, r.randrange(33)])
                comps.append((t, ('prefix', length, 0, r.getrandbits(length) if length else 0)))
            else:
                length = r.choice([0, 1, 8, 9, 64, 65, 127, 128, r.randrange(129)])
                offset = 0
                if offsets and length > 1 and r.random() < 0.15:
                    offset = r.randrange(1, length)
                nbits = length - offset
                comps.append((t, ('prefix', length, offset, r.getrandbits(nbits) if nbits else 0)))
            continue
        ops = []
        top = {3: 255, 4: 65535, 5: 65535, 6: 65535, 7: 255, 8: 255, 9: 0xFFF, 10: 65535, 11: 63, 12: 15, 13: 0xFFFFF}[t]
        for i in range(r.choice([1, 1, 2, 3, 4, r.randrange(1, 9)])):
            v = r.choice([0, 1, top, r.randrange(top + 1), r.randrange(min(top, 255) + 1)])
            need = rf.min_width(v)
            width = r.choice([w for w in (1, 2, 4, 8) if w >= need]) if r.random() < 0.4 else need
            opb = r.randrange(4) if t in rf.BITMASK_TYPES else r.randrange(8)
            ops.append((r.choice([0, 0, 1]) if i else 0, opb, v, width))
        comps.append((t, ops))
    rd = None
    if safi == 134:
        rd = r.choice([rf.enc_rd(0, r.randrange(65536), r.getrandbits(32)), rf.enc_rd(1, '192.0.2.%d' % r.randrange(256), r.getrandbits(16)), rf.enc_rd(2, r.randrange(65536, 1 << 32), r.getrandbits(16))])
    return {'afi': afi, 'safi': safi, 'rd': rd, 'comps': comps}


def grow(r: random.Random, rule: dict, target: int) -> None:
    """pad a numeric component with operators until the NLRI value has exactly target octets"""
    have = dict(rule['comps'])
    t = r.choice([4, 5, 6, 10])
    size = body_size(rule) + (0 if t in have else 1)
    ops = list(have.get(t, []))
    need = target - size
    while need >= 2:
        s = 3 if need != 2 and need != 4 else 2
        v = r.randrange(256) if s == 2 else r.randrange(256, 65536)
        ops.append((r.choice([0, 0, 1]) if ops else 0, r.randrange(1, 7), v, s - 1))
        need -= s
    have[t] = ops
    rule['comps'] = sorted(have.items())


NUM_TEXT = {1: '=', 2: '>', 3: '>=', 4: '<', 5: '<=', 6: '!='}


def json_view(rule: dict) -> dict:
    """what json() must show for the plainly numeric components: {name: [elements]}"""
    out = {}
    for t, ops in rule['comps']:
        if t not in (4, 5, 6, 10, 13) and not (t == 11):
            continue
        if any(o not in NUM_TEXT for _, o, _, _ in ops):
            continue
        elems = []
        for i, (a, o, v, _) in enumerate(ops):
            s = NUM_TEXT[o] + str(v)
            if i and a:
                elems[-1] += '&' + s
            else:
                elems.append(s)
        out[cname(rule['afi'], t)] = elems
    return out


def check_delivered(res: Result, want: dict, out: dict, wit: dict, cls_prefix: str) -> bool:
    got = out['rule']
    ok = True
    # RFC 8956 offset prefixes: one mechanism (pattern read from bit 0 over ceil(length/8) octets) garbles
    # everything that follows, so every disagreement on such an NLRI is filed under it
    has_offset = any(t in rf.PREFIX_TYPES and p[2] for t, p in want['comps'])
    if has_offset:
        same = (got['afi'], got['safi'], got['rd']) == (want['afi'], want['safi'], want['rd']) and not got['extra']
        same = same and rf.rule_key(dict(got, rd=None)) == rf.rule_key(dict(want, rd=None))
        if not same:
            res.violation('C16/dec-mismatch:ipv6-offset', f'NLRI with an offset prefix delivered as {got["comps"][:3]}..., reference {want["comps"][:3]}...', dict(wit, delivered=jrule(got)), 'dec:ipv6-offset')
            return False
    if got['extra']:
        res.violation('C16/dec-mismatch:prefix-count', str(got['extra']), wit, cls_prefix)
        return False
    if (got['afi'], got['safi']) != (want['afi'], want['safi']):
        res.violation('C16/dec-mismatch:family', f'family {got["afi"]}/{got["safi"]}', wit, cls_prefix)
        return False
    if got['rd'] != want['rd']:
        res.violation('C16/dec-mismatch:rd', f'route distinguisher {got["rd"]!r}, reference {want["rd"]!r}', wit, 'dec:rd')
        ok = False
    elif want['rd']:
        res.ok('dec:rd')
    wc, gc = dict(want['comps']), dict(got['comps'])
    for t in sorted(set(wc) | set(gc)):
        name = cname(want['afi'], t)
        if t not in gc or t not in wc:
            res.violation(f'C16/dec-mismatch:{name}', f'component {name} {"missing from" if t in wc else "added to"} the delivered rule', dict(wit, delivered=jrule(got)), f'dec:component:{t}')
            ok = False
            continue
        if t in rf.PREFIX_TYPES:
            same = tuple(wc[t]) == tuple(gc[t])
        else:
            same = [x[:3] for x in wc[t]] == [x[:3] for x in gc[t]]
        if not same:
            res.violation(f'C16/dec-mismatch:{name}', f'{name}: delivered {gc[t]}, reference {wc[t]}', dict(wit, delivered=jrule(got)), f'dec:component:{t}')
            ok = False
        else:
            res.ok(f'dec:component:{t}')
            if t not in rf.PREFIX_TYPES:
                for _, _, _, wd in wc[t]:
                    res.ok(f'dec:width:{wd}')
    if ok:
        # the rendering the API hands out
        try:
            js = json.loads(out['json'])
        except Exception as e:  # noqa
            res.violation('C16/dec-json-invalid', f'json() of the decoded rule does not parse: {e}', dict(wit, json=out['json'][:400]), 'dec:json')
            return False
        view = json_view(want)
        for name, elems in view.items():
            if js.get(name) != elems:
                res.violation(f'C16/dec-json-mismatch:{name}', f'json() shows {js.get(name)!r}, reference {elems!r}', dict(wit, json=out['json'][:600]), 'dec:json')
                ok = False
            else:
                res.ok('dec:json')
    return ok


def decode_wellformed(res: Result, real: Real, r: random.Random) -> None:
    want = gen_wire_rule(r)
    k = r.random()
    regime = 'short'
    if k < 0.12:
        grow(r, want, r.choice([238, 239, 240, 241, 250, 255, 256, 257, 300, 511, 512]))
    elif k < 0.16:
        grow(r, want, r.choice([1000, 4000, 4094, 4095]))
    data = rf.enc_nlri(want)
    # trusted base self consistency
    try:
        back, rest = rf.dec_nlri(want['afi'], want['safi'], data)
        if rest or not rf.same_rule(back, want, widths=True) or back['notes']:
            raise rf.RefFlowError('selfcheck', 'decode(encode(rule)) != rule')
        res.ok('refwire-selfcheck')
    except rf.RefFlowError as e:
        res.inconclusive.append(f'refwire.flow disagrees with itself on {data[:40].hex()}: {e}')
        return
    size = back['length']
    regime = 'short' if size < 240 else 'long'
    tail = b''
    if r.random() < 0.3:
        tail = rf.enc_nlri(gen_wire_rule(r, want['afi'], want['safi'], small=True))
    wit = {'afi': want['afi'], 'safi': want['safi'], 'nlri': (data + tail).hex() if len(data) < 700 else data[:200].hex() + '...', 'nlri_len': len(data), 'tail_len': len(tail), 'want': jrule(want) if size < 400 else {'size': size}}
    sig = ('dec', want['afi'], want['safi'], tuple(t for t, _ in want['comps']), regime, bool(tail))
    out = real.decode(want['afi'], want['safi'], data + tail)
    has_offset = any(t in rf.PREFIX_TYPES and p[2] for t, p in want['comps'])
    if out['kind'] == 'raise':
        res.violation('C16/decode-raises:' + out['exc'], f'unpack_nlri raised {out["exc"]}: {out["msg"]}', wit, 'dec:raise')
        return
    if out['kind'] in ('notify', 'invalid'):
        what = 'ipv6-offset' if has_offset else ('length-from-256' if size >= 256 else ('length-240-255' if size >= 240 else 'rule'))
        res.violation(f'C16/dec-refuses-valid:{what}', f'well-formed NLRI ({size} octets) answered with {out["kind"]} {out.get("code", "")}', wit, 'dec:len:' + regime)
        return
    if out['rest'] != tail:
        res.violation('C16/dec-consumed', f'{len(out["rest"])} octets left after the NLRI, {len(tail)} follow it', wit, 'dec:rest')
        return
    if check_delivered(res, want, out, wit, 'dec:rule'):
        res.ok('dec:len:' + regime, sig)
        res.ok(f'dec:family:{want["afi"]}/{want["safi"]}')
        if has_offset:
            res.ok('dec:ipv6-offset')


MALFORMED = ['undefined-type', 'truncated-value', 'missing-eol', 'length-overrun', 'rd-truncated', 'prefix-length', 'order', 'duplicate']


def make_malformed(r: random.Random, kind: str):
    """-> (afi, safi, data, base rule, detail) or None"""
    afi = r.choice([1, 2])
    safi = r.choice([133, 133, 134])
    base = gen_wire_rule(r, afi, safi, offsets=False)  # offset prefixes have their own mechanism
    comps = base['comps']
    rd = base['rd'] or b''
    enc = lambda cs: b''.join(rf.enc_component(afi, t, p) for t, p in cs)  # noqa: E731
    if kind == 'undefined-type':
        bad = r.choice([0, 14, 15, 64, 127, 128, 200, 255] + ([13] if afi == 1 else []))
        # the unknown component carries a plausible operator so that a lenient parser can skip over it
        blob = bytes([bad]) + r.choice([bytes([0x81, 5]), bytes([0x91, 0, 80]), bytes([24, 10, 0, 0]), b''])
        if bad == 13 or bad > 13:
            pos = len(comps) if bad != 13 else sum(1 for t, _ in comps if t < 13)
            pos = r.choice([pos, pos, r.randrange(len(comps) + 1)])
        else:
            pos = r.randrange(len(comps) + 1)
        body = rd + enc(comps[:pos]) + blob + enc(comps[pos:])
        return afi, safi, rf.enc_length(len(body)) + body, base, f'type {bad} at component {pos}'
    if kind == 'truncated-value':
        body = rd + enc(comps)
        t, p = comps[-1]
        if t in rf.PREFIX_TYPES:
            nbytes = (p[1] - p[2] + 7) // 8
            if nbytes == 0:
                return None
            cut = r.randrange(1, nbytes + 1)
        else:
            width = p[-1][3]
            cut = r.randrange(1, width + 1)
        body = body[:-cut]
        return afi, safi, rf.enc_length(len(body)) + body, base, f'last component {t} cut by {cut}'
    if kind == 'missing-eol':
        cs = [c for c in comps if c[0] not in rf.PREFIX_TYPES]
        if not cs:
            return None
        t, p = cs[-1]
        head = [c for c in comps if c[0] < t]
        body = rd + enc(head) + rf.enc_component(afi, t, p, eol_on_last=False)
        return afi, safi, rf.enc_length(len(body)) + body, base, f'component {t} without end-of-list at the end of the NLRI'
    if kind == 'length-overrun':
        body = rd + enc(comps)
        more = r.choice([1, 2, 8, 200])
        if len(body) + more > 4095:
            return None
        return afi, safi, rf.enc_length(len(body) + more) + body, base, f'length {len(body) + more} for {len(body)} octets'
    if kind == 'rd-truncated':
        safi = 134
        base = gen_wire_rule(r, afi, 133, small=True, offsets=False)
        body = enc(base['comps'])
        used = base['comps']
        if len(body) >= 8:
            used = base['comps'][:1]
            body = enc(used)
        if len(body) >= 8 or not body:
            used = [(5, [(0, 1, 80, 1)])]
            body = enc(used)
        return afi, safi, rf.enc_length(len(body)) + body, dict(base, safi=134, comps=used), f'flow-vpn value of {len(body)} octets'
    if kind == 'prefix-length':
        t = r.choice([1, 2])
        rest = [c for c in comps if c[0] > 2]
        if afi == 1:
            length = r.choice([33, 40, 64, 128, 255])
            blob = bytes([t, length]) + bytes(r.getrandbits(8) for _ in range((length + 7) // 8))
        else:
            if r.random() < 0.5:
                length = r.choice([129, 136, 200, 255])
                blob = bytes([t, length, 0]) + bytes(r.getrandbits(8) for _ in range((length + 7) // 8))
            else:
                length = r.choice([8, 16, 64])
                offset = r.choice([length, length + 8, 255])
                blob = bytes([t, length, offset])
                if r.random() < 0.5:
                    blob += bytes(r.getrandbits(8) for _ in range((length + 7) // 8))
        body = rd + blob + enc(rest)
        return afi, safi, rf.enc_length(len(body)) + body, dict(base, comps=rest), f'prefix octets {blob[:3].hex()}'
    if kind == 'order':
        if len(comps) < 2:
            return None
        cs = list(comps)
        i = r.randrange(len(cs) - 1)
        j = r.randrange(i + 1, len(cs))
        cs[i], cs[j] = cs[j], cs[i]
        body = rd + enc(cs)
        return afi, safi, rf.enc_length(len(body)) + body, base, f'components in order {[t for t, _ in cs]}'
    if kind == 'duplicate':
        cs = [c for c in comps if c[0] not in rf.PREFIX_TYPES]
        if not cs:
            return None
        t, p = r.choice(cs)
        other = gen_wire_rule(r, afi, 133)
        top = {3: 255, 4: 65535, 5: 65535, 6: 65535, 7: 255, 8: 255, 9: 255, 10: 65535, 11: 63, 12: 15, 13: 0xFFFFF}[t]
        v = r.randrange(top + 1)
        p2 = [(0, 1, v, rf.min_width(v))]
        i = [c[0] for c in comps].index(t)
        cs2 = comps[: i + 1] + [(t, p2)] + comps[i + 1 :]
        body = rd + enc(cs2)
        del other
        return afi, safi, rf.enc_length(len(body)) + body, base, f'component {t} twice'
    raise ValueError(kind)


def rule_weight(rule: dict) -> int:
    return sum(1 if t in rf.PREFIX_TYPES else len(p) for t, p in rule['comps'])


def decode_malformed(res: Result, real: Real, r: random.Random) -> None:
    kind = r.choice(MALFORMED)
    made = make_malformed(r, kind)
    if made is None:
        res.count('malformed-not-applicable:' + kind)
        return
    afi, safi, data, base, detail = made
    wit = {'afi': afi, 'safi': safi, 'nlri': data.hex() if len(data) < 700 else data[:200].hex() + '...', 'fault': kind, 'detail': detail, 'valid_original': jrule(base)}
    # the reference verdict decides what the case is
    try:
        ref, rest = rf.dec_nlri(afi, safi, data)
        ref_err = None
    except rf.RefFlowError as e:
        ref, ref_err = None, e.kind
    out = real.decode(afi, safi, data)
    if ref_err is None:
        # the mutation left a well-formed NLRI (for instance the cut removed exactly one component)
        res.count('malformed-still-valid:' + kind)
        if out['kind'] == 'rule':
            check_delivered(res, ref, out, wit, 'dec:rule')
        elif out['kind'] == 'raise':
            res.violation('C16/decode-raises:' + out['exc'], f'unpack_nlri raised {out["exc"]}: {out["msg"]}', wit, 'dec:raise')
        else:
            res.violation('C16/dec-refuses-valid:rule', f'well-formed NLRI answered with {out["kind"]}', wit, 'dec:rule')
        return
    expect = {
        'undefined-type': {'undefined-type'},
        'truncated-value': {'truncated', 'missing-eol'},
        'missing-eol': {'missing-eol', 'truncated'},
        'length-overrun': {'length-overrun'},
        'rd-truncated': {'rd-truncated'},
        'prefix-length': {'prefix-length'},
        'order': {'order'},
        'duplicate': {'duplicate'},
    }[kind]
    if ref_err not in expect:
        # e.g. a cut that makes a later octet an undefined type: still malformed, filed under what the reference saw
        res.count(f'malformed-{kind}-seen-as-{ref_err}')
    cls = 'dec:malformed:' + kind
    sig = ('mal', kind, afi, safi, ref_err, out['kind'])
    if out['kind'] == 'raise':
        res.violation('C16/decode-raises:' + out['exc'], f'{kind}: unpack_nlri raised {out["exc"]}: {out["msg"]}', wit, cls)
        return
    if out['kind'] in ('invalid', 'notify'):
        res.ok(cls, sig)
        res.count(f'malformed-answer:{out["kind"]}')
        return
    got = out['rule']
    shorter = rule_weight(got) < rule_weight(base)
    wit = dict(wit, delivered=jrule(got), delivered_json=out['json'][:500], shorter_than_original=shorter, reference=ref_err)
    if kind == 'order' and ref_err == 'order':
        same = rf.rule_key({'afi': afi, 'safi': safi, 'rd': got['rd'], 'comps': got['comps']}) == rf.rule_key(rf.canonical(base) | {'rd': base['rd']})
        if same:
            res.count('dec-order-accepted')  # same components, RFC 8955 4.2 says malformed: logged, the statement is silent
            res.ok('dec:malformed:order-same-rule', sig)
            return
    if kind in ('duplicate', 'prefix-length'):
        # outside the statement (it names undefined components and truncated values): logged, not flagged
        res.count(f'dec-accepted-outside-statement:{kind}')
        res.ok(cls, sig)
        return
    res.violation(
        f'C16/dec-accepts-malformed:{kind}',
        f'{kind} ({detail}; reference: {ref_err}) delivered as a rule' + (' SHORTER than the original' if shorter else ''),
        wit,
        cls,
    )


def tolerated_cases(res: Result, real: Real, r: random.Random) -> None:
    """receive side MUST-ignore items: logged only"""
    for name, body in (
        ('reserved-bit', bytes([5, 0x89, 80])),
        ('first-and', bytes([5, 0xC1, 80])),
        ('empty', b''),
    ):
        out = real.decode(1, 133, rf.enc_length(len(body)) + body)
        if out['kind'] == 'raise':
            res.violation('C16/decode-raises:' + out['exc'], f'{name}: {out["msg"]}', {'nlri': body.hex()}, 'dec:raise')
            continue
        if out['kind'] != 'rule':
            res.count(f'tolerated-{name}:{out["kind"]}')
            continue
        ref = rf.dec_body(1, 133, body)
        same = rf.rule_key(ref) == rf.rule_key({'afi': 1, 'safi': 133, 'rd': None, 'comps': out['rule']['comps']})
        rendered = json.loads(out['json']).get('destination-port')
        res.count(f'tolerated-{name}:{"same-rule" if same and rendered in (None, ["=80"]) else "kept-as-is"}')


# ====================================================================== reference self check (RFC examples)

VECTORS = [
    # RFC 8955 4.3 example 1: to 192.0.2.0/24, TCP, port 25
    (1, 133, '0b0118c000020381060481 19', [(1, ('prefix', 24, 0, 0xC00002)), (3, [(0, 1, 6, 1)]), (4, [(0, 1, 25, 1)])]),
    # RFC 8955 4.3 example 2: to 192.0.2.0/24 from 203.0.113.0/24, port in [137,139] or 8080
    (1, 133, '120118c000020218cb00710403894 58b911f90', [(1, ('prefix', 24, 0, 0xC00002)), (2, ('prefix', 24, 0, 0xCB0071)), (4, [(0, 3, 137, 1), (1, 5, 139, 1), (0, 1, 8080, 2)])]),
    # RFC 8956 3.8.2: from ::1234:5678:9a00:0/64-104 to 2001:db8::/32
    (2, 133, '0f01200020010db8026840123456789a', [(1, ('prefix', 32, 0, 0x20010DB8)), (2, ('prefix', 104, 64, 0x123456789A))]),
]


def selfcheck_vectors(res: Result) -> None:
    for afi, safi, hx, comps in VECTORS:
        data = bytes.fromhex(hx.replace(' ', ''))
        rule = {'afi': afi, 'safi': safi, 'rd': None, 'comps': comps}
        try:
            back, rest = rf.dec_nlri(afi, safi, data)
            if rest or not rf.same_rule(back, rule, widths=True) or rf.enc_nlri(rule) != data:
                raise rf.RefFlowError('selfcheck', 'vector mismatch')
            res.ok('refwire-selfcheck')
        except rf.RefFlowError as e:
            res.inconclusive.append(f'refwire.flow fails RFC example {hx}: {e}')
    for n, want in ((0, '00'), (239, 'ef'), (240, 'f0f0'), (255, 'f0ff'), (256, 'f100'), (4095, 'ffff')):
        if rf.enc_length(n).hex() != want or rf.dec_length(bytes.fromhex(want))[0] != n:
            res.inconclusive.append(f'refwire.flow length {n} != {want}')
        else:
            res.ok('refwire-selfcheck')


# ====================================================================== shard


def run_daemon(desc):
    """generated rules written by a REAL helper process to the REAL daemon (route { } and flat API forms), one at a time; the
    FlowSpec NLRI a scripted peer receives in MP_REACH_NLRI is held to the same bit-level oracle (check_encoding) as in-process"""
    import json as _json
    import time

    from vlib import daemon
    from vlib import refwire as rw

    res = Result()
    r = random.Random(desc['seed'] * 179424673 % (2**31) + desc['part'])
    rules = []
    while len(rules) < desc['rules']:
        g = gen_text_rule(r, ['api', 'api-flat'][len(rules) % 2])
        if g['size'] > 1200 or any(rf_t in rf.PREFIX_TYPES and False for rf_t, _ in g['rule']['comps']):
            continue
        text = render(r, g)
        if '\n' in text:
            text = ' '.join(text.split())
        g['text'] = text
        rules.append(g)
    script = '#sleep 1.0\n'
    for i, g in enumerate(rules):
        script += f'#wait g{i}\npeer * {g["text"]}\n'
    script += f'#wait g{len(rules)}\n'
    text = 'process player {\n    run @PY@ @DIR@/player.py @DIR@/script @DIR@/replies;\n    encoder json;\n}\n' + exa.neighbor_text(families=FAMILIES, extra='    adj-rib-out true;\n    api { processes [ player ]; }')
    d = daemon.Daemon(text, files={'script': script})
    peer = None
    try:
        d.start()
        peer = d.accept()
        peer.establish(65001)
        peer.drain(quiet=0.5, limit=10)
        for i, g in enumerate(rules):
            want = g['rule']
            wit = {'surface': g['surface'], 'text': g['text'][:1500], 'want': jrule(want) if g['size'] < 400 else {'size': g['size']}, 'size': g['size'], 'level': 'daemon'}
            cls = 'daemon:' + g['surface']
            d.wait_lines('replies', lambda ls: any(x.startswith('["wait", "g%d"' % i) for x in ls), timeout=60)
            d.release(f'g{i}')
            d.wait_lines('replies', lambda ls: any(x.startswith('["wait", "g%d"' % (i + 1)) for x in ls), timeout=60)
            replies = [_json.loads(x) for x in d.lines('replies')]
            k = max(j for j, x in enumerate(replies) if x[0] == 'sent')
            answer = [x[1] for x in replies[k + 1 :] if x[0] == 'got']
            msgs = [b for t, b in peer.drain(quiet=0.25, limit=10) if t == 2]
            if any(x.strip() == 'error' for x in answer):
                if g['size'] > 4095:
                    res.ok('daemon:over-refused')
                    continue
                res.violation(f'C16/daemon:text-refused-valid:{g["surface"]}', f'valid rule refused by the daemon: {answer[:2]}', dict(wit, answer=answer), cls)
                continue
            nlris = []
            for b in msgs:
                try:
                    wd, ab, nl = rw.split_update(bytes(b))
                    for flags, code, value in rw.dec_attr_tlvs(ab):
                        if code == 14 and value[2] in (133, 134):
                            nhl = value[3]
                            nlris.append((struct.unpack('!H', value[:2])[0], value[2], bytes(value[4 + nhl + 1 :])))
                except rw.RefError as e:
                    res.violation('C16/daemon:undecodable-update', str(e), wit, cls)
            if len(nlris) != 1:
                res.violation(f'C16/daemon:rule-not-sent:{g["surface"]}', f'the rule was answered done and {len(nlris)} FlowSpec MP_REACH_NLRI reached the peer', dict(wit, messages=[bytes(b).hex()[:200] for b in msgs]), cls)
                continue
            afi, safi, data = nlris[0]
            wit['nlri'] = data.hex()[:1200]
            if (afi, safi) != (want['afi'], want['safi']):
                res.violation(f'C16/enc-family:{g["surface"]}', f'rule for afi/safi {want["afi"]}/{want["safi"]} is announced as {afi}/{safi}', wit, cls)
                continue
            sub = Result()
            if check_encoding(sub, g, data, wit):
                res.ok(cls, ('daemon', g['surface'], afi, safi, tuple(sorted(dict(want['comps'])))))
                res.ok('daemon:rules')
            for v in sub.violations:
                res.violation(v['key'], 'at the peer of the real daemon: ' + v['what'], v['witness'], cls)
    except daemon.Inconclusive as e:
        daemon.skipped(res, str(e))
    finally:
        try:
            if peer is not None:
                peer.close()
        except Exception:  # noqa
            pass
        d.stop()
    return res


def run_shard(desc):
    if desc.get('daemon'):
        return run_daemon(desc)
    res = Result()
    r = random.Random(desc['seed'] * 100003 + desc['shard'])
    exa.quiet()
    real = Real()
    import exabgp

    res.extra['exabgp_file'] = [exabgp.__file__]
    selfcheck_vectors(res)
    surfaces = ['config', 'api', 'api-flat']
    for i in range(desc['enc']):
        surface = surfaces[i % 3]
        g = gen_text_rule(r, surface)
        encode_case(res, real, r, g)
        if i % 40 == 7:
            afi_inference_case(res, real, r, surfaces[(i // 40) % 2])
    tolerated_cases(res, real, r)
    for i in range(desc['dec']):
        if r.random() < 0.55:
            decode_wellformed(res, real, r)
        else:
            decode_malformed(res, real, r)
    return res


def finish(merged, tier, seed):
    if not merged['classes'].get('daemon:rules'):
        merged['inconclusive'].append('the daemon level judged no rule')


_ENC = (
    [f'enc:component:{t}' for t in range(1, 14)]
    + ['enc:op:' + o for o in ('eq', 'gt', 'ge', 'lt', 'le', 'ne', 'bit-include', 'bit-match', 'bit-not', 'bit-not-match')]
    + ['enc:width:1', 'enc:width:2', 'enc:width:4', 'enc:and', 'enc:eol', 'enc:len:short', 'enc:len:long', 'enc:len:over-refused', 'enc:rd']
    + ['enc:order:shuffled', 'enc:surface:config', 'enc:surface:api', 'enc:surface:api-flat']
    + ['enc:action:' + k for k in ACTION_KINDS if k != 'none']
)
_DEC = (
    [f'dec:component:{t}' for t in range(1, 14)]
    + ['dec:width:1', 'dec:width:2', 'dec:width:4', 'dec:width:8', 'dec:len:short', 'dec:rd', 'dec:json']
    + ['dec:malformed:' + k for k in ('undefined-type', 'truncated-value', 'missing-eol', 'length-overrun', 'prefix-length')]
)
REQUIRED_CLASSES = {'quick': _ENC + _DEC + ['refwire-selfcheck']}
REQUIRED_CLASSES['thorough'] = REQUIRED_CLASSES['quick']
