"""C17 - configuration reload applies the difference, or nothing at all.

Lab: the real reactor started from a configuration file; the file is rewritten and the reload is triggered the way
SIGUSR1 does it (reactor.signal.received = RELOAD, handled by the real main loop). Success side: everything the
remote speaker receives afterwards is replayed into a reference peer table which must equal routes(new
configuration) + API routes still valid. Failure side (broken file: one line truncated / garbled / out of range,
file removed, undefined process): neighbors, routes, peers, FSM states and Adj-RIB-Out must be identical to before,
the session stays up, nothing is sent, and a later API announce is acknowledged and reaches the peer.
"""

from __future__ import annotations

import json
import random
import re
import socket

from vlib import refwire as rw
from vlib import scen
from vlib.mon import Result

PROPERTY = 'C17'
LEVEL = 'exploration'
RULE = (
    '(old configuration, new configuration) pairs: route removed / added / attributes changed on the same prefix / next hop '
    'changed / several at once / neighbor parameter changed (re-establishment) x session {up, down, mid-batch} x API routes '
    '{none, some, colliding with a configured prefix}; broken new files enumerated per line (each line of the new file in '
    'turn truncated, garbled, out of range), file removed, api process undefined. distinct = (change kind, session state, '
    'api routes) and (fault kind, line class) tuples'
)
ASSUMPTIONS = [
    'bounded progress: 20 virtual seconds after the reload (session up) or after the next establishment (session down)',
    'an API route colliding with a configured prefix: the later operation wins (API announce after start-up, configuration on reload if it changes that prefix)',
    'a failed reload is recognised by reactor.configuration.error being set / Configuration.reload() returning false',
]
MANIFEST = {
    'level': 'exploration',
    'technique': 'runtime monitoring in the virtual-clock lab: reload through the real main loop, UPDATEs seen by a scripted remote speaker replayed into a reference table; enumerated per-line faults of the new file with before/after state snapshots; SIGUSR1 reloads of the real daemon process (file rewritten, broken file first, reload asked in the middle of a burst of API announcements) judged on the table a scripted peer obtains',
    'text': 'Configuration pairs and per-line broken variants are reloaded into the running real reactor; success must converge the peer '
    'to the new table, failure must leave neighbors, routes, peers, FSM and Adj-RIB-Out snapshots identical, the session up and the API working.',
    'note': 'trusted base: refwire decoder + PeerTable; snapshots are str() of the real objects taken inside the lab process; parser exceptions are injected at enumerated statements of the reload by a sys.monitoring LINE failpoint',
}
SHARD_TIMEOUT = {'quick': 900, 'thorough': 3000}

BASE = [('10.0.%d.0/24' % i, '192.0.2.1', i % 5) for i in range(8)]


def conf(routes, hold=90, api=True, extra='', adjout=True, adjin=None):
    c = {'hold': hold, 'families': [(1, 1)], 'adjout': adjout, 'adjin': adjin, 'api': api, 'group_updates': False, 'route_texts': [f'route {p} next-hop {nh} med {m};' for p, nh, m in routes], 'extra_body': extra}
    if not adjout:
        c['refresh'] = False  # the route refresh capability switches the Adj-RIB-Out cache back on
    return c


def change(r: random.Random, kind: str):
    old = list(BASE)
    new = list(BASE)
    hold_new = 90
    if kind == 'remove':
        new = [x for i, x in enumerate(new) if i not in (1, 4)]
    elif kind == 'add':
        new += [('10.9.1.0/24', '192.0.2.1', 3), ('10.9.2.0/24', '192.0.2.1', 4)]
    elif kind == 'attr-changed':
        new[2] = (new[2][0], new[2][1], 77)
        new[5] = (new[5][0], new[5][1], 78)
    elif kind == 'nexthop-changed':
        new[3] = (new[3][0], '192.0.2.99', new[3][2])
    elif kind == 'mixed':
        new = [x for i, x in enumerate(new) if i != 0]
        new[1] = (new[1][0], new[1][1], 66)
        new.append(('10.9.3.0/24', '192.0.2.3', 1))
    elif kind == 'neighbor-param':
        hold_new = 60
        new[6] = (new[6][0], new[6][1], 55)
    elif kind == 'param+remove':
        # one reload which changes a session parameter (the session is re-established) and drops routes
        hold_new = 60
        new = [x for i, x in enumerate(new) if i not in (2, 5)]
    elif kind == 'param+mixed':
        hold_new = 75
        new = [x for i, x in enumerate(new) if i != 7]
        new[0] = (new[0][0], '192.0.2.77', 44)
        new.append(('10.9.4.0/24', '192.0.2.1', 6))
    elif kind == 'same':
        pass
    return old, new, hold_new


def success_case(r, kind, state, api_mode, adjout=True):
    old, new, hold_new = change(r, kind)
    adjin = r.choice([None, False, True])  # the Adj-RIB-In option written out both ways, or left to its default
    cfg = conf(old, adjout=adjout, adjin=adjin)
    newc = dict(conf(new, hold=hold_new, adjout=adjout, adjin=adjin))
    new_text = scen.config_text(newc, 0).replace('connect 0;', 'connect @PORT@;')
    api_routes = []
    if api_mode == 'some':
        api_routes = [('172.16.1.0/24', '192.0.2.2', 9), ('172.16.2.0/24', '192.0.2.2', 8)]
    elif api_mode == 'colliding':
        api_routes = [('10.0.7.0/24', '192.0.2.2', 99), ('172.16.3.0/24', '192.0.2.2', 7)]
    steps = []
    if state == 'up':
        steps += [['accept', 30.0], ['establish'], ['wait_quiet', 1.0, 20.0]]
        for p, nh, m in api_routes:
            steps.append(['api', f'peer * announce route {p} next-hop {nh} med {m}'])
        steps += [['sleep', 0.5], ['wait_quiet', 1.0, 20.0], ['snapshot', 'before'], ['mark', 'reload'], ['reload', new_text], ['sleep', 0.5], ['wait_quiet', 2.0, 20.0]]
        if hold_new != 90:
            steps += [['accept', 40.0], ['mark', 'second'], ['establish'], ['wait_quiet', 2.0, 20.0]]
        steps += [['snapshot', 'after'], ['mark', 'end']]
    elif state == 'down':
        # the session is lost first and the remote refuses reconnection while the reload happens
        steps += [['accept', 30.0], ['establish'], ['wait_quiet', 1.0, 20.0]]
        for p, nh, m in api_routes:
            steps.append(['api', f'peer * announce route {p} next-hop {nh} med {m}'])
        steps += [['sleep', 0.5], ['wait_quiet', 1.0, 20.0], ['policy', 'reset'], ['eof'], ['sleep', 1.0], ['snapshot', 'before'], ['mark', 'reload'], ['reload', new_text], ['sleep', 2.0], ['policy', 'accept'], ['accept', 60.0], ['mark', 'second'], ['establish'], ['wait_quiet', 2.0, 20.0], ['snapshot', 'after'], ['mark', 'end']]
    elif state == 'down+api':
        # the API routes are announced while the session is down: they sit in the Adj-RIB-Out queue when the reload is asked for
        steps += [['accept', 30.0], ['establish'], ['wait_quiet', 1.0, 20.0], ['policy', 'reset'], ['eof'], ['sleep', 1.0]]
        for p, nh, m in api_routes:
            steps.append(['api', f'peer * announce route {p} next-hop {nh} med {m}'])
        steps += [['sleep', 0.5], ['snapshot', 'before'], ['mark', 'reload'], ['reload', new_text], ['sleep', 2.0], ['policy', 'accept'], ['accept', 60.0], ['mark', 'second'], ['establish'], ['wait_quiet', 2.0, 20.0], ['snapshot', 'after'], ['mark', 'end']]
    return {'config': cfg, 'steps': steps, 'vtimeout': 400.0, 'wall': 120.0, 'quantum': 0.0005, 'rx_limit': 70000, 'kind': kind, 'state': state, 'api_mode': api_mode, 'old': old, 'new': new, 'api_routes': api_routes, 'expect': 'success', 'adjout': adjout, 'adjin': adjin, 'reestablish': hold_new != 90}


def family_case(which: int):
    """two reloads while the session is down: the first takes a family (and its routes) out of the neighbor, the second puts
    the family back with other routes.  What the peer learns on the next session is the last file, nothing of the first"""
    v4 = [f'route {p} next-hop {nh} med {m};' for p, nh, m in BASE[:3]]
    a6 = ['route 2001:db8:a::/48 next-hop 2001:db8::1 med 1;', 'route 2001:db8:a1::/48 next-hop 2001:db8::1 med 2;']
    b6 = ['route 2001:db8:b::/48 next-hop 2001:db8::1 med 3;'] + ([a6[1]] if which % 2 else [])
    base = {'hold': 90, 'adjout': True, 'adjin': None, 'api': True, 'group_updates': False, 'extra_body': ''}
    c0 = dict(base, families=[(1, 1), (2, 1)], route_texts=v4 + a6)
    c1 = dict(base, families=[(1, 1)], route_texts=v4)
    c2 = dict(base, families=[(1, 1), (2, 1)], route_texts=v4 + b6)
    t1 = scen.config_text(c1, 0).replace('connect 0;', 'connect @PORT@;')
    t2 = scen.config_text(c2, 0).replace('connect 0;', 'connect @PORT@;')
    steps = [['accept', 30.0], ['establish'], ['wait_quiet', 1.0, 20.0], ['policy', 'reset'], ['eof'], ['sleep', 1.0], ['mark', 'reload'], ['reload', t1], ['sleep', 2.0], ['reload', t2], ['sleep', 2.0], ['policy', 'accept'], ['accept', 60.0], ['mark', 'second'], ['establish'], ['wait_quiet', 2.0, 20.0], ['mark', 'end']]
    want = [x.split()[1] for x in v4 + b6]
    return {'config': c0, 'steps': steps, 'vtimeout': 400.0, 'wall': 120.0, 'quantum': 0.0005, 'rx_limit': 70000, 'kind': 'family-out-and-back', 'state': 'down', 'expect': 'family', 'want': want, 'first': [x.split()[1] for x in a6]}


def judge_family(res, case, rec):
    cls = 'family-out-and-back:down'
    marks = {e['name']: e for e in rec['events'] if e['kind'] == 'mark'}
    wit = {'kind': case['kind'], 'want': case['want'], 'notes': rec['notes']}
    if 'end' not in marks or 'second' not in marks or marks['second'].get('session') is None:
        res.inconclusive.append(f'{cls}: scenario did not complete {rec["notes"]}')
        return
    reloads = [e for e in rec['events'] if e['kind'] == 'config-reload' and e['t'] >= marks['reload']['t']]
    if len(reloads) < 2 or not all(e['ok'] for e in reloads[:2]):
        res.violation('C17/valid-config-refused:family-out-and-back', f'two valid reloads: {[(e["ok"], e.get("error", "")[-80:]) for e in reloads]}', wit, cls)
        return
    table = rw.PeerTable()
    fams = rec['sessions'][marks['second']['session']]
    for t, ty, body in fams['rx']:
        if ty != rw.UPDATE:
            continue
        d = rw.dec_update(bytes.fromhex(body), rw.sess(asn4=True, addpath=()))
        if not d['eor']:
            table.apply(d)
    got = sorted(k[5] for k in table.routes)
    wit['peer_table'] = got
    if got != sorted(case['want']):
        old = sorted(set(got) & set(case['first']) - set(case['want']))
        key = 'route-of-an-earlier-file-announced' if old else 'route-missing-after-reload'
        res.violation(f'C17/{key}:family-out-and-back:down', f'after two reloads while down the peer holds {got}, the last file says {sorted(case["want"])}', wit, cls)
    else:
        res.ok(cls, ('family-out-and-back',))
        res.ok('change:family-out-and-back')


def broken_variants(text: str):
    """every line of the new file in turn truncated / garbled / given an out of range value"""
    lines = text.split('\n')
    out = []
    for i, line in enumerate(lines):
        st = line.strip()
        if not st or st.startswith('#'):
            continue
        if st in ('}',):
            out.append(('drop-closing-brace', i, '\n'.join(lines[:i] + lines[i + 1 :])))
            continue
        out.append(('truncate', i, '\n'.join(lines[:i] + [line[: max(1, len(line) // 2)]] + lines[i + 1 :])))
        out.append(('garble', i, '\n'.join(lines[:i] + [line.replace(st.split()[0], 'b0gus-' + st.split()[0], 1)] + lines[i + 1 :])))
        m = re.search(r'\d+', line)
        if m and ('med' in line or 'hold-time' in line or 'as ' in line or '/24' in line):
            big = line[: m.start()] + '99999999999' + line[m.end() :]
            out.append(('out-of-range', i, '\n'.join(lines[:i] + [big] + lines[i + 1 :])))
    return out


def failure_cases(r, tier):
    old = list(BASE)
    new = [x for i, x in enumerate(BASE) if i != 1] + [('10.9.9.0/24', '192.0.2.1', 2)]
    good_new = scen.config_text(conf(new), 0).replace('connect 0;', 'connect @PORT@;')
    variants = broken_variants(good_new)
    cases = []
    for fault, line, text in variants:
        cases.append(('line:' + fault, line, text))
    cases.append(('file-removed', -1, None))
    cases.append(('undefined-process', -1, good_new.replace('processes [ helper ];', 'processes [ nosuchhelper ];')))
    cases.append(('empty-file', -1, ''))
    cases.append(('binary-garbage', -1, '\x00\x01\x02{{{{ neighbor'))
    out = []
    for fault, line, text in cases:
        steps = [['accept', 30.0], ['establish'], ['wait_quiet', 1.0, 20.0], ['api', 'peer * announce route 172.16.1.0/24 next-hop 192.0.2.2 med 9'], ['sleep', 0.5], ['wait_quiet', 1.0, 20.0], ['snapshot', 'before'], ['mark', 'reload']]
        if fault == 'file-removed':
            steps += [['remove_config'], ['reload']]
        else:
            steps += [['reload', text]]
        steps += [['sleep', 3.0], ['snapshot', 'after'], ['mark', 'after-reload'], ['api', 'peer * announce route 172.16.50.0/24 next-hop 192.0.2.2 med 5'], ['sleep', 0.5], ['wait_quiet', 1.5, 10.0], ['mark', 'end']]
        # the operator repairs the file and reloads again: a refused file may not stand in the way of the next, valid, one
        if fault == 'file-removed':
            steps += [['restore_config']]
        steps += [['mark', 'reload2'], ['reload', good_new], ['sleep', 0.5], ['wait_quiet', 2.0, 20.0], ['snapshot', 'after2'], ['mark', 'end2']]
        out.append({'config': conf(old), 'steps': steps, 'vtimeout': 300.0, 'wall': 100.0, 'quantum': 0.0005, 'rx_limit': 70000, 'fault': fault, 'line': line, 'expect': 'failure-or-success', 'new': new, 'old': old, 'text': text})
    return out


def failpoint_case(k: int, exc: str = 'RuntimeError'):
    """a VALID new file whose parsing is interrupted by an exception at the k-th statement executed under
    exabgp/configuration/ (k = 0: counting run, the reload succeeds)"""
    old = list(BASE)
    new = [x for i, x in enumerate(BASE) if i != 1] + [('10.9.9.0/24', '192.0.2.1', 2)]
    good_new = scen.config_text(conf(new), 0).replace('connect 0;', 'connect @PORT@;')
    steps = [['accept', 30.0], ['establish'], ['wait_quiet', 1.0, 20.0], ['api', 'peer * announce route 172.16.1.0/24 next-hop 192.0.2.2 med 9'], ['sleep', 0.5], ['wait_quiet', 1.0, 20.0], ['snapshot', 'before'], ['mark', 'reload']]
    steps += [['failpoint', k, exc], ['reload', good_new]]
    steps += [['sleep', 3.0], ['snapshot', 'after'], ['mark', 'after-reload'], ['api', 'peer * announce route 172.16.50.0/24 next-hop 192.0.2.2 med 5'], ['sleep', 0.5], ['wait_quiet', 1.5, 10.0], ['mark', 'end']]
    return {'config': conf(old), 'steps': steps, 'vtimeout': 300.0, 'wall': 100.0, 'quantum': 0.0005, 'fault': f'failpoint:{exc}', 'line': k, 'expect': 'failure-or-success', 'new': new, 'old': old, 'text': good_new, 'failpoint': k}


def all_cases(tier, seed):
    r = random.Random(seed)
    cases = []
    for kind in ('remove', 'add', 'attr-changed', 'nexthop-changed', 'mixed', 'neighbor-param', 'param+remove', 'param+mixed', 'same'):
        for state in ('up', 'down'):
            for api_mode in ('none', 'some', 'colliding'):
                if tier == 'quick' and api_mode == 'colliding' and kind not in ('attr-changed', 'mixed'):
                    continue
                cases.append(success_case(r, kind, state, api_mode))
    for kind in ('remove', 'mixed', 'add'):
        cases.append(success_case(r, kind, 'down+api', 'some'))
    # without the Adj-RIB-Out cache (adj-rib-out false) the difference must still reach the peer
    for kind in ('remove', 'mixed', 'attr-changed', 'add', 'param+remove'):
        for state in ('up', 'down'):
            cases.append(success_case(r, kind, state, 'none' if kind != 'mixed' else 'some', adjout=False))
    cases += [family_case(0), family_case(1)]
    fc = failure_cases(r, tier)
    if tier == 'quick':
        # every fault kind, a spread of lines
        keep = []
        seen = {}
        for c in fc:
            seen.setdefault(c['fault'], []).append(c)
        for f, lst in seen.items():
            step = max(1, len(lst) // 6)
            keep += lst[::step][:7]
        fc = keep
    return cases + fc


def plan(tier, seed):
    out = [{'shard': i, 'nshards': 16} for i in range(16)]
    out += [{'shard': 900 + i, 'daemon': True, 'part': i, 'cases': 3 if tier == 'quick' else 12} for i in range(4 if tier == 'quick' else 8)]
    return out


def canon(p):
    a, m = p.split('/')
    return f'{socket.inet_ntoa(socket.inet_aton(a))}/{m}'


def table_from(sess_rx, t0):
    table = rw.PeerTable()
    s = rw.sess(asn4=True, addpath=())
    n = 0
    for t, ty, body in sess_rx:
        if ty != rw.UPDATE or t < t0:
            continue
        if '..' in body:
            raise rw.RefError(0, 0, 'record holds a truncated UPDATE body')
        d = rw.dec_update(bytes.fromhex(body), s)
        if d['eor']:
            continue
        n += 1
        table.apply(d)
    out = {}
    for key, v in table.routes.items():
        med = dict(v['attrs']).get(rw.MED)
        out[key[5]] = (v['nexthop'][0] if v['nexthop'] else None, int(med) if med is not None else None)
    return out, n


def judge_success(res, case, rec):
    cls = f'{case["kind"]}:{case["state"]}:{case["api_mode"]}' + ('' if case.get('adjout', True) else ':no-adj-rib-out')
    wit = {k: case.get(k) for k in ('kind', 'state', 'api_mode', 'old', 'new', 'api_routes', 'adjout', 'adjin')}
    wit['notes'] = rec['notes']
    marks = {e['name']: e for e in rec['events'] if e['kind'] == 'mark'}
    snaps = {e['name']: e['snap'] for e in rec['events'] if e['kind'] == 'snapshot'}
    if 'end' not in marks or 'reload' not in marks:
        res.inconclusive.append(f'{cls}: scenario did not complete {rec["notes"]}')
        return
    reloads = [e for e in rec['events'] if e['kind'] == 'config-reload' and e['t'] >= marks['reload']['t']]
    if not reloads:
        # the scenario ran to its end (the main loop went on for virtual seconds after the request, sessions were made)
        res.violation(f'C17/reload-request-never-acted-on:{case["state"]}', 'the reload was asked for (what SIGUSR1 does) and Configuration.reload() was never called before the end of the scenario', wit, cls)
        return
    if not reloads[0]['ok']:
        res.violation(f'C17/valid-config-refused:{case["kind"]}', f'reload of a valid configuration failed: {reloads[0]["error"][-150:]}', wit, cls)
        return
    # the table the peer ends with: session continuity matters
    want = {canon(p): (nh, m) for p, nh, m in case['new']}
    removed_by_reload = set()
    for p, nh, m in case['api_routes']:
        cp = canon(p)
        collides_changed = cp in want and dict((canon(a), (b, c)) for a, b, c in case['old']).get(cp) != want[cp]
        if cp in want and collides_changed:
            continue  # the configuration changed that prefix on reload: the later operation wins
        if cp not in want and cp in {canon(a) for a, _, _ in case['old']}:
            # the reload REMOVED a configured prefix which an API route had overwritten: the reload is the later operation on
            # that prefix (assumption 2), a withdrawal is as defensible as keeping the API route - not judged
            removed_by_reload.add(cp)
            continue
        want[cp] = (nh, m)
    if 'second' in marks and marks['second'].get('session') is not None:
        # re-established: the peer flushed its table, only the new session counts
        sid = marks['second']['session']
        got, n = table_from(rec['sessions'][sid]['rx'], 0.0)
    else:
        sid = 0
        got, n = table_from(rec['sessions'][0]['rx'], 0.0)
        if rec['sessions'][0]['eof_at'] is not None and not case.get('reestablish'):
            res.violation(f'C17/session-lost-on-reload:{case["kind"]}', 'the established session was closed by a reload which does not change the neighbor', wit, cls)
            return
    if not case.get('adjout', True) and 'second' in marks:
        # without an Adj-RIB-Out nothing remembers the API routes across a session loss: only the configuration is judged
        for p, nh, m in case['api_routes']:
            if canon(p) not in {canon(x[0]) for x in case['new']}:
                want.pop(canon(p), None)
                got.pop(canon(p), None)
    for cp in removed_by_reload:
        got.pop(cp, None)
        res.count('api-route-on-a-prefix-the-reload-removed-not-judged')
    wit['peer_table'] = sorted(got.items())[:20]
    wit['expected_table'] = sorted(want.items())[:20]
    missing = sorted(set(want) - set(got))
    extra = sorted(set(got) - set(want))
    if missing:
        res.violation(f'C17/route-missing-after-reload:{case["kind"]}:{case["state"]}', f'after the reload the peer lacks {missing[:3]}', wit, cls)
        return
    if extra:
        what = 'removed' if all(canon(p) in [canon(x[0]) for x in case['old']] for p in extra) else 'unexpected'
        res.violation(f'C17/route-not-withdrawn-after-reload:{what}:{case["kind"]}:{case["state"]}', f'after the reload the peer still holds {extra[:3]}', wit, cls)
        return
    collide = {canon(p) for p, _, _ in case['api_routes']} & {canon(p) for p, _, _ in case['new']}
    if collide:
        res.count('colliding-prefix-not-judged', len(collide))  # configuration and API both claim it: either value is defensible
    wrong = [p for p in want if got[p] != want[p] and p not in collide]
    if wrong:
        api_p = {canon(p) for p, _, _ in case['api_routes']}
        field = 'nexthop' if got[wrong[0]][0] != want[wrong[0]][0] else 'attributes'
        src = 'api' if wrong[0] in api_p else 'config'
        res.violation(f'C17/stale-{field}-after-reload:{src}:{case["kind"]}:{case["state"]}', f'route {wrong[0]} is {got[wrong[0]]} at the peer, the new configuration says {want[wrong[0]]}', wit, cls)
        return
    # what ExaBGP reports as its Adj-RIB-Out (when it keeps one) is the same table: what the next session, flush or route
    # refresh will be served from
    if case.get('adjout', True) and 'after' in snaps:
        reported = {}
        for lst in snaps['after']['rib_out'].values():
            for text in lst:
                m = re.match(r'^(\S+) next-hop (\S+)(?:.*? med (\d+))?', text)
                if m:
                    reported[canon(m.group(1))] = (m.group(2), int(m.group(3)) if m.group(3) else None)
        rmissing = sorted(p for p in want if p not in reported and p not in collide)
        rextra = sorted(p for p in reported if p not in want and p not in removed_by_reload)
        wit['reported_adj_rib_out'] = sorted(reported.items())[:20]
        if rmissing:
            src = 'api' if rmissing[0] in {canon(p) for p, _, _ in case['api_routes']} else 'config'
            res.violation(f'C17/adj-rib-out-lost-route-after-reload:{src}:{case["state"]}', f'after the reload the Adj-RIB-Out no longer holds {rmissing[:3]} (the peer was sent them: the next session or refresh will not be)', wit, cls)
            return
        if rextra:
            res.violation(f'C17/adj-rib-out-keeps-removed-route:{case["kind"]}:{case["state"]}', f'after the reload the Adj-RIB-Out still holds {rextra[:3]}', wit, cls)
            return
        res.ok('reported-adj-rib-out-agrees')
    res.ok(cls, (case['kind'], case['state'], case['api_mode']))
    res.ok('change:' + case['kind'])
    res.ok('state:' + case['state'])
    res.ok('adj-rib-out:' + str(case.get('adjout', True)).lower())


def judge_failure(res, case, rec):
    cls = f'fault:{case["fault"]}'
    wit = {'fault': case['fault'], 'line': case['line'], 'notes': rec['notes'], 'new_text': (case['text'] or '')[:1500]}
    marks = {e['name']: e for e in rec['events'] if e['kind'] == 'mark'}
    snaps = {e['name']: e['snap'] for e in rec['events'] if e['kind'] == 'snapshot'}
    if 'end' not in marks or 'before' not in snaps or 'after' not in snaps:
        crash = [e for e in rec['events'] if e['kind'] == 'reactor-crash']
        if crash:
            res.violation(f'C17/reactor-crash-on-reload:{case["fault"]}', 'the reactor main loop crashed: ' + crash[0].get('error', ''), wit, cls)
        else:
            res.inconclusive.append(f'{cls}: scenario did not complete {rec["notes"]}')
        return
    before, after = snaps['before'], snaps['after']
    t_reload = marks['reload']['t']
    reloads = [e for e in rec['events'] if e['kind'] == 'config-reload' and e['t'] >= t_reload]
    if not reloads:
        res.inconclusive.append(f'{cls}: Configuration.reload() was never called after the reload request')
        return
    failed = not reloads[0]['ok']
    if reloads[0].get('raised'):
        res.violation(f'C17/reload-raises:{reloads[0]["raised"]}:{case.get("fault", "")}', f'Configuration.reload() of a refused file raised instead of answering false: {reloads[0]["error"][-160:]}', wit, cls)
        return
    if case.get('failpoint'):
        fp = [e for e in rec['events'] if e['kind'] == 'failpoint']
        if not fp or not fp[0]['fired']:
            res.inconclusive.append(f'{cls}: failpoint {case["failpoint"]} never fired')
            return
        wit['failpoint'] = fp[0]
        res.extra.setdefault('failpoint_sites', [])
        if fp[0]['fired'] not in res.extra['failpoint_sites']:
            res.extra['failpoint_sites'].append(fp[0]['fired'])
        if not failed:
            # the exception was absorbed by a handler inside the parser and the reload went on: what the file then means is
            # no longer what was written, nothing can be judged
            res.count('failpoint-absorbed-by-the-parser')
            return
    sess = rec['sessions'][0]
    t_reload = marks['reload']['t']
    t_after = marks['after-reload']['t']
    sent_between = [m for m in sess['rx'] if t_reload <= m[0] <= t_after and m[1] != rw.KEEPALIVE]
    wit.update(reload_error=after['reload_error'][-200:], failed=failed, sent_between=[[m[0], m[1]] for m in sent_between][:6])
    crash = [e for e in rec['events'] if e['kind'] == 'reactor-crash']
    if crash:
        res.violation(f'C17/reactor-crash-on-reload:{case["fault"]}', 'the reactor main loop crashed: ' + crash[0].get('error', ''), wit, cls)
        return
    if not failed:
        # the mutation left a valid file (e.g. a truncated comment): then it is a successful reload: state must be new
        res.count('broken-variant-still-valid:' + case['fault'])
        res.ok(cls + ':still-valid', (case['fault'], 'valid'))
        return
    diffs = [k for k in ('neighbors', 'peers', 'fsm', 'routes', 'rib_out') if before[k] != after[k]]
    if diffs == ['rib_out']:
        # one mechanism has its own name whatever the fault which refused the file: a neighbor section which was
        # parsed completely before the refusal has put its routes in the Adj-RIB-Out it shares (by name) with the
        # running peer, nothing the old file announced is lost
        newp = {p for p, _, _ in case['new']}
        leaked_only = True
        for k in before['rib_out']:
            b, a = set(before['rib_out'][k]), set(after['rib_out'].get(k, []))
            if b - a or not all(x.split()[0] in newp for x in a - b):
                leaked_only = False
        if leaked_only and set(before['rib_out']) == set(after['rib_out']):
            wit['announced_between'] = len([m for m in sent_between if m[1] == rw.UPDATE])
            res.violation('C17/refused-file-routes-reach-live-rib', f'routes of a refused file are in the Adj-RIB-Out of the running peer (fault {case["fault"]}): ' + str({k: sorted(set(after['rib_out'][k]) - set(before['rib_out'][k])) for k in before['rib_out']})[:200], wit, cls)
            return
    if diffs:
        res.violation(f'C17/failed-reload-changed-state:{diffs[0]}:{case["fault"]}', f'a failed reload changed {diffs}: before {str(before[diffs[0]])[:160]} after {str(after[diffs[0]])[:160]}', wit, cls)
        return
    if sess['eof_at'] is not None:
        res.violation(f'C17/failed-reload-closed-session:{case["fault"]}', 'the established session was closed after a failed reload', wit, cls)
        return
    if sent_between:
        res.violation(f'C17/failed-reload-sent-messages:{case["fault"]}', f'messages were sent because of a failed reload: {sent_between[:3]}', wit, cls)
        return
    # the API keeps working: the later announce is acknowledged and reaches the peer
    got, n = table_from(sess['rx'], t_after)
    if '172.16.50.0/24' not in got:
        res.violation(f'C17/api-dead-after-failed-reload:{case["fault"]}', 'an API announce issued after the failed reload never reached the peer', dict(wit, helper_tail=rec['helper_rx'][-300:]), cls)
        return
    if 'done' not in rec['helper_rx'][-400:]:
        res.count('no-done-seen-after-failed-reload')
    if 'reload2' in marks and 'end2' in marks:
        second = [e for e in rec['events'] if e['kind'] == 'config-reload' and e['t'] >= marks['reload2']['t']]
        if not second:
            res.inconclusive.append(f'{cls}: the second reload was never attempted')
            return
        if not second[0]['ok']:
            res.violation('C17/valid-file-refused-after-a-failed-reload', f'after a failed reload ({case["fault"]}) the repaired, valid file is refused: {second[0]["error"][-160:]!r}', dict(wit, second_error=second[0]['error'][-300:]), cls)
            return
        got2, _ = table_from(sess['rx'], 0.0)
        want2 = {canon(p): (nh, m) for p, nh, m in case['new']}
        want2['172.16.1.0/24'] = ('192.0.2.2', 9)
        want2['172.16.50.0/24'] = ('192.0.2.2', 5)
        if sess['eof_at'] is not None:
            res.violation('C17/session-lost-on-reload:after-failed-reload', 'the session was closed by the valid reload which followed a failed one', wit, cls)
            return
        if got2 != want2:
            diff = sorted(k for k in set(got2) | set(want2) if got2.get(k) != want2.get(k))
            res.violation('C17/wrong-table-after-failed-then-valid-reload', f'after a failed reload and then a valid one the peer differs on {diff[:4]}: has {[got2.get(k) for k in diff[:2]]}, should have {[want2.get(k) for k in diff[:2]]}', dict(wit, peer=sorted(got2.items())[:14]), cls)
            return
        res.ok('valid-reload-after-failed-one')
    res.ok(cls, (case['fault'], 'line' if case['line'] >= 0 else 'file'))
    res.ok('fault-kind:' + case['fault'].split(':')[0])
    if case.get('failpoint'):
        res.ok('failpoint-position:' + str(min(9, 10 * case['failpoint'] // max(1, res.extra.get('failpoint_statements_in_clean_reload', [1])[0]))))


def daemon_conf(routes):
    from vlib import exa

    return 'process player {\n    run @PY@ @DIR@/player.py @DIR@/script @DIR@/replies;\n    encoder json;\n}\n' + exa.neighbor_text(
        hold=90,
        families=[(1, 1)],
        body='    static {\n' + ''.join(f'        route {p} next-hop {nh} med {m};\n' for p, nh, m in routes) + '    }\n',
        extra='    adj-rib-out true;\n    group-updates false;\n    api { processes [ player ]; }',
    ) + exa.neighbor_text(
        # a second neighbor nobody ever connects to, with a route of its own waiting in its Adj-RIB-Out: what is queued for a
        # peer which is not there must not hold a reload back
        peer='127.0.0.77',
        rid='10.0.0.1',
        pas=65077,
        families=[(1, 1)],
        body='    static {\n        route 10.77.0.0/24 next-hop 192.0.2.1;\n    }\n',
        extra='    passive true;\n    adj-rib-out true;',
    )


def run_remove_readd(res):
    """three reloads of the REAL daemon: a file refused after the neighbor's section was read, a file without the neighbor, a
    file with the neighbor back and fewer routes.  The neighbor which comes back is told the routes of the last file only -
    nothing of its earlier life (configured routes since dropped, API routes of the removed neighbor)"""
    import signal
    import time

    from vlib import daemon, exa

    idle = daemon_conf([]).split('neighbor 127.0.0.2')[0]  # the process section
    full = daemon_conf([('10.1.1.0/24', '192.0.2.1', 1), ('10.1.2.0/24', '192.0.2.1', 2)])
    tail = full[full.index('neighbor 127.0.0.77') :]
    without = idle + tail
    back = daemon_conf([('10.1.1.0/24', '192.0.2.1', 1)])
    broken = full + '\nbogus-section {\n'
    d = daemon.Daemon(full, files={'script': '#sleep 1.0\npeer * announce route 10.9.9.0/24 next-hop 192.0.2.2 med 9\n#wait never\n'})
    peer = None
    cls = 'daemon:remove-and-readd'
    try:
        d.start()
        peer = d.accept()
        peer.establish(65001, hold=90)
        d.wait_lines('replies', lambda ls: any(x.startswith('["wait"') for x in ls), timeout=60)
        peer.drain(quiet=0.8, limit=20)
        n_failed = d.tail(200000).count('config.reload.failed')
        d.rewrite_conf(broken)
        d.signal(signal.SIGUSR1)
        peer.drain(quiet=1.5, limit=10)
        if d.tail(200000).count('config.reload.failed') == n_failed:
            daemon.skipped(res, 'the damaged file was not refused')
            return
        d.rewrite_conf(without)
        d.signal(signal.SIGUSR1)
        got = peer.drain(quiet=2.0, limit=20)
        if not any(t in (3, None) for t, _ in got):
            res.violation('C17/daemon:removed-neighbor-kept-its-session', 'the neighbor was taken out of the file and its session is still up', {'level': 'daemon'}, cls)
            return
        peer.close()
        time.sleep(0.5)
        d.rewrite_conf(back)
        d.signal(signal.SIGUSR1)
        peer = d.accept(timeout=60)
        peer.establish(65001, hold=90)
        rx = peer.drain(quiet=1.5, limit=30)
    except daemon.Inconclusive as e:
        daemon.skipped(res, str(e))
        return
    finally:
        try:
            if peer is not None:
                peer.close()
        except Exception:  # noqa
            pass
        d.stop()
    try:
        got = table_of(rx)
    except rw.RefError as e:
        res.violation('C17/undecodable-update', str(e), {'level': 'daemon'}, cls)
        return
    want = {'10.1.1.0/24': ('192.0.2.1', 1)}
    if got != want:
        res.violation('C17/daemon:readded-neighbor-told-routes-of-its-earlier-life', f'the neighbor was removed by one reload and put back by the next with one route; it was told {sorted(got)}', {'level': 'daemon', 'peer': sorted(got.items())}, cls)
    else:
        res.ok(cls, ('daemon', 'remove-readd'))


def run_daemon(desc):
    """the REAL daemon: the file is rewritten and SIGUSR1 sent to the process (the signal handler and the main loop decide the
    rest); what a scripted peer holds afterwards is the new file's routes plus the routes a real helper announced.  A broken
    file leaves the table as it was, the session up and the helper answered; a valid file after it is applied"""
    import signal
    import time

    from vlib import daemon

    res = Result()
    r = random.Random(desc['seed'] * 86028121 + desc['part'])
    if desc['part'] == 1:
        run_remove_readd(res)
    kinds = ['remove', 'add', 'attr-changed', 'nexthop-changed', 'mixed', 'same']
    for ci in range(desc['cases']):
        kind = kinds[(ci + desc['part'] * 2 + desc['seed']) % len(kinds)]
        old, new, _ = change(r, kind)
        broken_first = (ci + desc['part']) % 2 == 1
        mid_stream = (ci + desc['part']) % 3 == 2  # SIGUSR1 while a burst of API announcements is being queued and sent
        api_routes = [('172.16.1.0/24', '192.0.2.2', 9), ('172.16.2.0/24', '192.0.2.2', 8)]
        burst = [('172.20.%d.%d/32' % (i // 250, i % 250), '192.0.2.2', i) for i in range(700)] if mid_stream else []
        probe = ('172.16.9.0/24', '192.0.2.2', 5)
        script = '#sleep 1.0\n' + ''.join(f'peer * announce route {p} next-hop {nh} med {m}\n' for p, nh, m in api_routes) + '#wait go\n'
        if mid_stream:
            broken_first = False
            script += ''.join(f'peer * announce route {p} next-hop {nh} med {m}\n' for p, nh, m in burst) + '#wait go2\n'
        script += 'peer * announce route %s next-hop %s med %d\n' % probe
        new_text = daemon_conf(new)
        cls = f'daemon:{kind}' + (':after-a-broken-file' if broken_first else '') + (':mid-stream' if mid_stream else '')
        d = daemon.Daemon(daemon_conf(old), files={'script': script})
        wit = {'kind': kind, 'old': old, 'new': new, 'broken_first': broken_first, 'level': 'daemon'}
        rx = []
        try:
            d.start()
            peer = d.accept()
            peer.establish(65001, hold=90)
            d.wait_lines('replies', lambda ls: any(x.startswith('["wait"') for x in ls), timeout=60)
            rx += peer.drain(quiet=0.8, limit=20)
            t0 = table_of(rx)
            want0 = {canon(p): (nh, m) for p, nh, m in old + api_routes}
            if t0 != want0:
                res.inconclusive.append(f'daemon: the table before the reload is not the old file plus the API routes: {sorted(t0.items())[:3]} vs {sorted(want0.items())[:3]}')
                continue
            if broken_first:
                variants = broken_variants(new_text)
                bk, bline, btext = variants[r.randrange(len(variants))]
                wit['broken'] = [bk, bline]
                failed_before = d.tail(200000).count('config.reload.failed')
                d.rewrite_conf(btext)
                d.signal(signal.SIGUSR1)
                got = peer.drain(quiet=1.5, limit=20)
                rx += got
                if d.tail(200000).count('config.reload.failed') == failed_before:
                    # the parser took the damaged file (a closing brace missing at the end of the file is tolerated): this was
                    # a successful reload of another file, not a refused one - nothing to hold it to here
                    res.count('daemon:damaged-file-accepted:' + bk)
                    continue
                if any(t in (3, None) for t, _ in got):
                    res.violation(f'C17/daemon:session-lost-by-a-refused-file:{bk}', f'the session ended after SIGUSR1 with a broken file ({bk} at line {bline})', dict(wit, log=d.tail(500)), cls)
                    continue
                t1 = table_of(rx)
                newv = {canon(p): (nh, m) for p, nh, m in new}
                if t1 != t0 and not (set(t0) - set(t1)) and all(t1[p] == newv.get(p) for p in t1 if t1[p] != t0.get(p)):
                    # the recorded mechanism, seen from outside: nothing the old file announced is lost, what changed are
                    # routes of the refused file (its neighbor section was parsed completely before the refusal)
                    res.violation('C17/refused-file-routes-reach-live-rib', f'routes of a refused file ({bk} at line {bline}) were announced to the peer of the real daemon: ' + str(sorted((p, t1[p]) for p in t1 if t1[p] != t0.get(p))[:3]), dict(wit, before=sorted(t0.items()), after=sorted(t1.items())), cls)
                    continue
                if t1 != t0:
                    res.violation(f'C17/daemon:refused-file-changed-the-peer-table:{bk}', f'after SIGUSR1 with a broken file ({bk} at line {bline}) the peer table changed', dict(wit, before=sorted(t0.items()), after=sorted(table_of(rx).items())), cls)
                    continue
                if not d.alive():
                    res.violation(f'C17/daemon:exited-on-a-refused-file:{bk}', 'the daemon exited after SIGUSR1 with a broken file', dict(wit, log=d.tail(500)), cls)
                    continue
                res.ok('daemon:fault:' + bk)
            if mid_stream:
                d.release('go')
                d.wait_lines('replies', lambda ls: sum(1 for x in ls if 'done' in x) >= len(api_routes) + 150, timeout=60)
                d.rewrite_conf(new_text)
                d.signal(signal.SIGUSR1)
                d.wait_lines('replies', lambda ls: any('go2' in x for x in ls), timeout=120)
                rx += peer.drain(quiet=2.0, limit=60)
                d.release('go2')
            else:
                d.rewrite_conf(new_text)
                d.signal(signal.SIGUSR1)
                rx += peer.drain(quiet=1.5, limit=20)
                d.release('go')
            d.wait_lines('replies', lambda ls: any(x.startswith('["end"') for x in ls), timeout=60)
            rx += peer.drain(quiet=1.0, limit=20)
            replies = [json.loads(x) for x in d.lines('replies')]
        except daemon.Inconclusive as e:
            daemon.skipped(res, str(e))
            continue
        except rw.RefError as e:
            res.violation('C17/undecodable-update', str(e), wit, cls)
            continue
        finally:
            try:
                peer.close()
            except Exception:  # noqa
                pass
            d.stop()
        if any(t in (3, None) for t, _ in rx):
            res.violation('C17/daemon:session-lost-by-a-reload', 'the session ended after SIGUSR1 with a file which changes routes only', dict(wit), cls)
            continue
        answered = [x for x in replies if x[0] == 'got' and 'done' in x[1]]
        if len(answered) != len(api_routes) + len(burst) + 1 or any(x[0] == 'timeout' for x in replies):
            res.violation('C17/daemon:api-not-answered-after-reload', f'{len(api_routes) + len(burst) + 1} commands, {len(answered)} acknowledged', dict(wit, replies=replies[-40:]), cls)
            continue
        try:
            got = table_of(rx)
        except rw.RefError as e:
            res.violation('C17/undecodable-update', str(e), wit, cls)
            continue
        want = {canon(p): (nh, m) for p, nh, m in new + api_routes + burst + [probe]}
        if got != want:
            missing = sorted(set(want) - set(got))
            extra = sorted(set(got) - set(want))
            differ = sorted(k for k in set(got) & set(want) if got[k] != want[k])
            key = 'route-missing-after-reload' if missing else 'route-not-withdrawn' if extra else 'route-stale-values'
            if mid_stream:
                key += ':reload-asked-mid-stream'
            res.violation(f'C17/daemon:{key}:{kind}', f'after SIGUSR1 the peer holds missing={missing[:3]} extra={extra[:3]} differ={[(k, got[k], want[k]) for k in differ[:2]]}', dict(wit, peer=sorted(got.items()), expected=sorted(want.items())), cls)
        else:
            res.ok(cls, (cls,))
            res.ok('daemon:reload' + (':mid-stream' if mid_stream else ''))
    return res


def table_of(rx):
    table = rw.PeerTable()
    s = rw.sess(asn4=True, addpath=())
    for t, body in rx:
        if t != rw.UPDATE:
            continue
        d = rw.dec_update(bytes(body), s)
        if d['eor']:
            continue
        table.apply(d)
    out = {}
    for key, v in table.routes.items():
        med = dict(v['attrs']).get(rw.MED)
        out[key[5]] = (v['nexthop'][0] if v['nexthop'] else None, int(med) if med is not None else None)
    return out


def run_shard(desc):
    if desc.get('daemon'):
        return run_daemon(desc)
    res = Result()
    cases = all_cases(desc['tier'], desc['seed'])
    mine = [c for i, c in enumerate(cases) if i % desc['nshards'] == desc['shard']]
    # parser exceptions at enumerated statements of the reload (source-free failpoints): one counting run per shard, then a spread of k
    status, rec = scen.run_case(failpoint_case(0))
    total = 0
    if status == 'ok':
        fp = [e for e in rec['events'] if e['kind'] == 'failpoint']
        total = fp[0]['lines'] if fp else 0
    if total < 50:
        res.inconclusive.append(f'failpoint counting run saw {total} statements (status {status})')
    else:
        res.extra['failpoint_statements_in_clean_reload'] = [total]
        r = random.Random(desc['seed'] * 99991 + desc['shard'])
        nk = 3 if desc['tier'] == 'quick' else 40
        # stratified over the run: shard s takes the s-th sixteenth of every stratum
        for j in range(nk):
            lo = total * (j * desc['nshards'] + desc['shard']) // (nk * desc['nshards'])
            hi = max(lo + 1, total * (j * desc['nshards'] + desc['shard'] + 1) // (nk * desc['nshards']))
            mine.append(failpoint_case(r.randrange(lo, hi) + 1, 'KeyError' if (j + desc['shard']) % 3 == 0 else 'RuntimeError'))
    for case in mine:
        status, rec = scen.run_case(case)
        if status != 'ok':
            res.inconclusive.append(f'{case.get("kind", case.get("fault"))}: lab {status} {str(rec)[:300]}')
            continue
        try:
            if case['expect'] == 'family':
                judge_family(res, case, rec)
            elif case['expect'] == 'success':
                judge_success(res, case, rec)
            else:
                judge_failure(res, case, rec)
        except rw.RefError as e:
            res.violation('C17/undecodable-update', str(e), {'case': case.get('kind', case.get('fault'))}, 'decode')
        res.sample({'kind': case.get('kind'), 'fault': case.get('fault'), 'state': case.get('state')}, limit=4)
    res.extra['cases'] = len(mine)
    return res


REQUIRED_CLASSES = {
    'quick': ['change:remove', 'change:add', 'change:family-out-and-back', 'change:same', 'change:param+remove', 'adj-rib-out:false', 'state:up', 'state:down', 'fault-kind:line', 'fault-kind:file-removed', 'fault-kind:failpoint', 'daemon:reload', 'daemon:reload:mid-stream'],
}
REQUIRED_CLASSES['thorough'] = REQUIRED_CLASSES['quick']
