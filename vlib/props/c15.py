"""C15 - every registered family and attribute survives an encode/decode round trip.

Runtime monitor with law-style oracles (vlib/laws.py): the real pack/unpack/index/hash/==/json code
is exercised on objects from three sources (text grammar, factory methods, decoding of the qa corpus
and mutated-but-decodable variants); the oracle is the algebraic law evaluated on the real objects.
L1 and L3 are icontract post-conditions attached from the harness to pack_nlri / pack_attribute /
__eq__ of the classes the registries hold; L2, L4, L5 are explicit comparisons.
"""

from __future__ import annotations

import glob
import hashlib
import os
import random
import struct

from vlib import corpus, exa, laws
from vlib.laws import M, LawViolation, hx
from vlib.mon import Result

PROPERTY = 'C15'
LEVEL = 'exploration'
RULE = (
    'objects per registry entry from three sources: (i) the real configuration parser over etc/exabgp/*.conf, the files '
    'named by qa/encoding/*.ci and generated route text with boundary values; (ii) make_*/from_* factories fed boundary '
    'values (mask 0/32/128, path-id 0/2^32-1, label 0/3/16/2^20-1, RD types 0/1/2, empty/maximal lists); (iii) every '
    'MP_REACH/MP_UNREACH NLRI and attribute sliced from the qa corpus UPDATEs plus seeded byte mutations that still '
    'decode. Laws L1..L5 evaluated per (registry entry, law); distinct = distinct (class, law, encoded bytes)'
)
ASSUMPTIONS = [
    '"equal object" is ExaBGP\'s own == on the decoded object (both directions); classes without __eq__ (BGP-LS attribute TLVs, SR/tunnel sub-TLVs) are compared by type + packed bytes + content/json',
    'canonical bytes = bytes ExaBGP\'s own encoder produced; a corpus/mutated slice whose first re-encode differs is logged as non-canonical-input and the re-encoded bytes are then held to L2',
    'ADD-PATH is a property of the session: an object without a path identifier packed on an ADD-PATH session (or the reverse) is held to L1 through the object the session can carry (decode(encode(y)) == y)',
    'a multi-TLV pack_attribute result (AS_PATH+AS4_PATH, AGGREGATOR+AS4_AGGREGATOR on a 2-byte AS session) is decoded through AttributeCollection.unpack, the production path which reconstructs',
    'MP_REACH/MP_UNREACH have no pack_attribute: they are exercised through UpdateCollection.messages()/unpack_message() on routes',
    'BGP-LS attribute TLVs have no encoder besides their make_* factory; encode(x) is taken to be the stored payload',
    'labels are not in the statement for L4: an index that ignores the label stack is logged, not flagged',
    'cross-process determinism is checked between PYTHONHASHSEED=0 and PYTHONHASHSEED=1 only',
    'the extended next hop capability is not negotiated in the sessions used (MP_REACH decoding of non-IP families raises KeyError with it, outside this property)',
]
MANIFEST = {
    'level': 'exploration',
    'technique': 'runtime law monitor: icontract post-conditions (decode(encode(x))==x, a==b => hash/index alike) attached from the harness to the real registry classes, plus explicit re-encode / index-separation / render-determinism comparisons, over text-parsed, factory-built and corpus-decoded objects; second process with another PYTHONHASHSEED for renderings',
    'text': 'Seeded exploration per registry entry (23 NLRI keys, 22 attribute codes, extended community and BGP-LS TLV registries). '
    'Held means no law was violated on the objects generated; registry entries with zero evaluations are listed as not exercised and are outside the claim.',
    'note': 'oracle is the law itself on the real objects (no reference decoder); == is ExaBGP own; canonical = produced by ExaBGP encoder; labels excluded from index separation',
}
SHARD_TIMEOUT = {'quick': 240, 'thorough': 1500}

REPO = os.environ.get('VERIF_REPO', '/repo')


# ============================================================================== sessions


def make_neighbor(asn4=True, addpath=0, las=65533, pas=65533):
    cap = f'asn4 {"enable" if asn4 else "disable"}; route-refresh enable; extended-message enable; aigp enable;'
    ap = ''
    if addpath:
        cap += ' add-path send/receive;'
        ap = 'add-path { ipv4 unicast; ipv6 unicast; ipv4 nlri-mpls; ipv6 nlri-mpls; ipv4 mpls-vpn; ipv6 mpls-vpn; }'
    text = f"""
neighbor 127.0.0.2 {{
    router-id 10.0.0.1;
    local-address 127.0.0.1;
    local-as {las};
    peer-as {pas};
    family {{ {corpus.ALL_FAMILIES_TEXT} }}
    capability {{ {cap} }}
    {ap}
}}
"""
    conf = exa.load_config(text)
    return list(conf.neighbors.values())[0]


def make_sessions() -> dict:
    s = {}
    s['plain'] = corpus.mirror_session(make_neighbor())
    s['addpath'] = corpus.mirror_session(make_neighbor(addpath=3))
    s['asn2'] = corpus.mirror_session(make_neighbor(asn4=False, las=65000, pas=65001), peer_asn4=False)
    return s


# ============================================================================== context


class Ctx:
    def __init__(self, desc: dict) -> None:
        self.desc = desc
        self.res = Result()
        self.r = random.Random(desc.get('seed', 1) * 1000003 + desc.get('part', 0) * 7919 + len(desc.get('kind', '')))
        self.scale = int(desc.get('scale', 1))
        exa.quiet()
        self.reg = laws.attach()
        self.sessions = make_sessions()
        self.lawcount: dict[str, int] = {}
        self.render: dict[str, str] = {}
        self.seen: set = set()
        import exabgp

        self.res.extra['exabgp_file'] = exabgp.__file__

    # -- accounting
    def ok(self, label: str, law: str, sig=None) -> None:
        k = f'{label}:{law}'
        self.lawcount[k] = self.lawcount.get(k, 0) + 1
        self.res.ok(k, sig)

    def bad(self, key: str, what: str, witness: dict, label: str, law: str) -> None:
        k = f'{label}:{law}'
        self.lawcount[k] = self.lawcount.get(k, 0) + 1
        self.res.violation(key, what, witness, k)

    def law(self, v: LawViolation, extra: dict) -> None:
        self.bad(v.key, v.what, dict(extra, **v.witness), v.label or extra.get('class', '?'), v.law or '?')

    def finish(self) -> Result:
        res = self.res
        res.extra['law_evaluations'] = dict(self.lawcount)
        res.extra['contract_evaluations'] = dict(M.evals)
        res.extra['registered'] = laws.registry_labels(self.reg)
        res.extra['contracts_attached'] = len(M.attached)
        res.extra['contracts_not_attached'] = list(M.not_attached)
        for k, n in M.info.items():
            res.count(k, n)
        if self.render:
            res.extra['render%d' % int(self.desc.get('hashseed', 0))] = self.render
        return res


# ============================================================================== renderings (L5)


def renderings(obj) -> list:
    """every JSON / text rendering the object offers -> [(name, string)] (a raise is rendered as its type)"""
    out = []
    calls = [('json', (), {}), ('json', (), {'compact': True}), ('extensive', (), {}), ('__str__', (), {}), ('__repr__', (), {})]
    for name, a, kw in calls:
        fn = getattr(obj, name, None)
        if fn is None or not callable(fn):
            continue
        tag = name + ('/compact' if kw else '')
        try:
            out.append((tag, str(fn(*a, **kw))))
        except TypeError as e:
            if kw:
                continue
            out.append((tag, '<raises TypeError %s>' % str(e)[:60]))
        except NotImplementedError:
            continue
        except Exception as e:  # noqa
            out.append((tag, '<raises %s>' % type(e).__name__))
    return out


def render_digest(rs: list) -> str:
    h = hashlib.sha1()
    for n, s in rs:
        h.update(n.encode() + b'\x00' + s.encode('utf-8', 'replace') + b'\x01')
    short = ' | '.join(s for _, s in rs[:2])[:140]
    return h.hexdigest()[:16] + ' ' + short


def check_l5(ctx: Ctx, label: str, decode, wit: dict, case_id: str | None) -> None:
    """same bytes decoded twice in this process render identically; digest kept for the other process"""
    try:
        a = decode()
        b = decode()
    except Exception:  # noqa
        ctx.res.count('L5-decode-raises')
        return
    ra, rb = renderings(a), renderings(b)
    if any(s.startswith('<raises') for _, s in ra):
        ctx.res.count('render-raises:' + label)
    if ra != rb:
        diff = [(n, s, t) for (n, s), (_, t) in zip(ra, rb) if s != t][:2]
        ctx.bad('C15/render-unstable:' + label, f'the same bytes decoded twice render differently: {diff}', dict(wit, renderings=diff), label, 'L5')
    else:
        ctx.ok(label, 'L5', (label, 'L5', wit.get('bytes', '')))
    if case_id is not None:
        ctx.render[case_id] = render_digest(ra)


# ============================================================================== NLRI drivers


def fam_of(x):
    return x.afi, x.safi


def sessions_for(ctx: Ctx, afi, safi) -> list:
    out = [('plain', ctx.sessions['plain'])]
    if ctx.sessions['addpath'].addpath.send(afi, safi):
        out.append(('addpath', ctx.sessions['addpath']))
    return out


def exercise_nlri(ctx: Ctx, x, src: str, text: str | None = None, laws_only=None) -> None:
    """L1 (contract on pack_nlri), L2 on ExaBGP's own bytes, L3 (contract on ==) and L5 for one NLRI object"""
    from exabgp.bgp.message.update.nlri.nlri import NLRI

    label = laws.nlri_label(x)
    sub = laws.nlri_sublabel(x)
    afi, safi = fam_of(x)
    for sname, neg in sessions_for(ctx, afi, safi):
        wit = {'class': label, 'source': src, 'session': sname, 'object': laws.safe_repr(x)}
        if text:
            wit['text'] = text
        # ---- L1
        before = M.ticks
        try:
            with laws.armed():
                b = bytes(x.pack_nlri(neg))
        except LawViolation as v:
            ctx.law(v, wit)
            if sub:
                ctx.ok(sub, 'L1')
            continue
        except Exception as e:  # noqa
            ctx.bad(f'C15/raises:{label}:{type(e).__name__}', f'pack_nlri raises {type(e).__name__}: {str(e)[:160]}', wit, label, 'L1')
            continue
        if M.ticks == before:
            ctx.res.count('contract-not-evaluated:' + label)
            ok, what, w2 = laws.check_l1_nlri(x, neg, b)
            if not ok:
                key = f'C15/raises:{label}:{w2["raises"]}' if 'raises' in w2 else f'C15/roundtrip-nlri:{afi}/{safi}'
                ctx.bad(key, what, dict(wit, **w2), label, 'L1')
                continue
        wit['bytes'] = hx(b)
        ctx.ok(label, 'L1', (label, 'L1', sname, hx(b)))
        if sub:
            ctx.ok(sub, 'L1')
        send = bool(neg.addpath.send(afi, safi))
        # ---- L2: b came out of ExaBGP's encoder
        try:
            y, used, rest = laws.decode_one_nlri(afi, safi, b, send, neg)
            b2 = bytes(y.pack_nlri(neg))
        except Exception as e:  # noqa
            ctx.bad(f'C15/raises:{label}:{type(e).__name__}', f're-encoding what was decoded raises {type(e).__name__}: {str(e)[:160]}', wit, label, 'L2')
            continue
        if y is NLRI.INVALID:
            continue
        if b2 != b:
            ctx.bad('C15/reencode-differs:' + label, f'encode(decode(b)) != b for b produced by ExaBGP: {hx(b)} -> {hx(b2)}', dict(wit, reencoded=hx(b2)), label, 'L2')
        else:
            ctx.ok(label, 'L2', (label, 'L2', sname, hx(b)))
            if sub:
                ctx.ok(sub, 'L2')
        # ---- L3: objects built by different paths (source vs decode)
        check_eq_pair(ctx, x, y, label, dict(wit, pair=f'{src} vs decode'))
        # ---- L5
        key = (label, send, b)
        if key not in ctx.seen:
            ctx.seen.add(key)
            check_l5(ctx, label, lambda: laws.decode_one_nlri(afi, safi, b, send, neg)[0], wit, None)
            if sub:
                ctx.ok(sub, 'L5')


def check_eq_pair(ctx: Ctx, a, b, label: str, wit: dict) -> bool | None:
    """evaluate a == b (and b == a) armed: the post-condition on __eq__ holds the pair to L3. -> a == b"""
    before = M.ticks
    try:
        with laws.armed():
            e1 = a == b
            e2 = b == a
    except LawViolation as v:
        ctx.law(v, wit)
        return True
    except Exception as e:  # noqa
        ctx.bad(f'C15/raises:{label}:{type(e).__name__}', f'== raises {type(e).__name__}: {str(e)[:120]}', wit, label, 'L3')
        return None
    if e1 is not True and e1 is not False or e1 != e2:
        ctx.res.count('eq-asymmetric-or-not-bool:' + label)
    if e1 is True:
        if M.ticks == before:
            ctx.res.count('contract-not-evaluated:' + label)
            ok, what, w2, kind = laws.check_l3(a, b)
            if not ok:
                ctx.bad(f'C15/eq-{kind}:{label}', what, dict(wit, **w2), label, 'L3')
                return True
        ctx.ok(label, 'L3')
    return bool(e1)


def make_route(nlri):
    from exabgp.bgp.message.update.attribute.collection import AttributeCollection
    from exabgp.rib.route import Route

    return Route(nlri, AttributeCollection())


def check_l4_pair(ctx: Ctx, a, b, what: str, wit: dict) -> None:
    """a and b differ in exactly `what` (family / path-id / prefix-address / prefix-mask / rd): indexes must differ"""
    label = laws.nlri_label(a)
    wit = dict(wit, differs=what, a=laws.safe_repr(a), b=laws.safe_repr(b), a_bytes=hx(getattr(a, '_packed', b'')), b_bytes=hx(getattr(b, '_packed', b'')))
    try:
        ia, ib = bytes(a.index()), bytes(b.index())
        ra, rb = bytes(make_route(a).index()), bytes(make_route(b).index())
    except Exception as e:  # noqa
        ctx.bad(f'C15/raises:{label}:{type(e).__name__}', f'index() raises {type(e).__name__}: {str(e)[:120]}', wit, label, 'L4')
        return
    if ia == ib or ra == rb:
        ctx.bad(f'C15/index-collision:{what}:{label}', f'two routes which differ in {what} share an index: {laws.safe_repr(a)[:90]} / {laws.safe_repr(b)[:90]}', dict(wit, index=hx(ia), route_index=hx(ra)), label, 'L4')
        return
    try:
        equal = bool(a == b)
    except Exception:  # noqa
        equal = False
    if equal:
        ctx.bad(f'C15/index-collision:{what}:{label}', f'two routes which differ in {what} compare equal', wit, label, 'L4')
        return
    ctx.ok(label, 'L4', (label, 'L4', what, hx(ia), hx(ib)))


# ============================================================================== IP families (INET / Label / IPVPN)

V4 = [
    ('0.0.0.0', 0), ('128.0.0.0', 1), ('10.0.0.0', 8), ('10.128.0.0', 9), ('10.1.2.0', 24), ('10.1.2.128', 25),
    ('10.1.2.254', 31), ('10.1.2.3', 32), ('255.255.255.255', 32), ('0.0.0.0', 32), ('10.1.2.3', 24), ('192.0.2.0', 23),
]
V6 = [
    ('::', 0), ('8000::', 1), ('2001:db8::', 32), ('2001:db8:8000::', 33), ('2001:db8:0:1::', 64), ('2001:db8::2', 127),
    ('2001:db8::1', 128), ('ffff:ffff:ffff:ffff:ffff:ffff:ffff:ffff', 128), ('::', 128), ('2001:db8::1', 64), ('2001:db8:1:2:3::', 104),
]
PIDS = [None, 0, 1, 0xFFFFFFFF, 0x6E6F2D70]
LABELS = [None, [0], [3], [16], [1048575], [16, 17], [524288]]
RDS = [
    None,
    bytes([0, 0]) + struct.pack('!HL', 65000, 1),
    bytes([0, 1]) + bytes([1, 2, 3, 4]) + struct.pack('!H', 5),
    bytes([0, 2]) + struct.pack('!LH', 70000, 1),
    bytes(8),
    bytes([0, 0]) + b'\xff' * 6,
    bytes([0, 2]) + b'\xff' * 6,
]


def ip_pton(s: str) -> bytes:
    import socket

    return socket.inet_pton(socket.AF_INET6 if ':' in s else socket.AF_INET, s)


def ip_ntop(b: bytes) -> str:
    import socket

    return socket.inet_ntop(socket.AF_INET6 if len(b) == 16 else socket.AF_INET, b)


def host_bits_zero(ip: bytes, mask: int) -> bool:
    v = int.from_bytes(ip, 'big')
    bits = len(ip) * 8
    return v & ((1 << (bits - mask)) - 1) == 0 if mask < bits else True


def rd_text(rd: bytes) -> str | None:
    t = struct.unpack('!H', rd[:2])[0]
    if t == 0:
        a, n = struct.unpack('!HL', rd[2:])
        return f'{a}:{n}'
    if t == 1:
        return '%d.%d.%d.%d:%d' % (rd[2], rd[3], rd[4], rd[5], struct.unpack('!H', rd[6:])[0])
    if t == 2:
        a, n = struct.unpack('!LH', rd[2:])
        if a < 65536:
            return None  # the text form of a small AS is read back as type 0
        return f'{a}:{n}'
    return None


def ip_desc_key(d: dict) -> tuple:
    return (d['afi'], d['safi'], d['ip'], d['mask'], d['pid'], tuple(d['labels']) if d['labels'] else None, d['rd'])


def build_ip(d: dict, how: str = 'from_cidr'):
    from exabgp.bgp.message.update.nlri.cidr import CIDR
    from exabgp.bgp.message.update.nlri.inet import INET
    from exabgp.bgp.message.update.nlri.ipvpn import IPVPN
    from exabgp.bgp.message.update.nlri.label import Label
    from exabgp.bgp.message.update.nlri.qualifier import Labels, PathInfo, RouteDistinguisher
    from exabgp.bgp.message.update.nlri.settings import INETSettings
    from exabgp.protocol.family import AFI, SAFI

    afi = AFI.from_int(d['afi'])
    safi = SAFI.from_int(d['safi'])
    cidr = CIDR.create_cidr(d['ip'], d['mask'])
    pi = PathInfo.DISABLED if d['pid'] is None else PathInfo.make_from_integer(d['pid'])
    labels = Labels.make_labels(list(d['labels'])) if d['labels'] else None
    rd = RouteDistinguisher(d['rd']) if d['rd'] else None
    klass = {1: INET, 2: INET, 4: Label, 128: IPVPN}[d['safi']]
    if how == 'from_settings':
        s = INETSettings()
        s.cidr, s.afi, s.safi, s.path_info = cidr, afi, safi, pi
        if d['safi'] in (4, 128):
            s.labels = labels
        if d['safi'] == 128:
            s.rd = rd
        from exabgp.protocol.ip import IP

        s.nexthop = IP.from_string('1.2.3.4')
        return klass.from_settings(s)
    if how == 'make_route' and klass is INET:
        return INET.make_route(afi, safi, d['ip'], d['mask'], path_info=pi)
    if how == 'make_route' and klass is IPVPN:
        return IPVPN.make_vpn_route(afi, safi, d['ip'], d['mask'], labels if labels is not None else Labels.NOLABEL, rd if rd is not None else RouteDistinguisher.NORD, pi)
    if klass is INET:
        return INET.from_cidr(cidr, afi, safi, pi)
    if klass is Label:
        return Label.from_cidr(cidr, afi, safi, pi, labels=labels)
    return IPVPN.from_cidr(cidr, afi, safi, pi, labels=labels, rd=rd)


def ip_descs(ctx: Ctx, afi: int, safi: int) -> list:
    vals = V4 if afi == 1 else V6
    out = []
    labels = LABELS if safi in (4, 128) else [None]
    rds = RDS if safi == 128 else [None]
    for ip, mask in vals:
        raw = ip_pton(ip)
        for pid in PIDS:
            for lab in labels:
                for rd in rds:
                    out.append({'afi': afi, 'safi': safi, 'ip': raw, 'mask': mask, 'pid': pid, 'labels': lab, 'rd': rd})
    # seeded random values on top of the boundary grid
    n = 40 * ctx.scale
    size = 4 if afi == 1 else 16
    for _ in range(n):
        mask = ctx.r.choice([ctx.r.randrange(0, size * 8 + 1), size * 8, 0, 24])
        v = ctx.r.getrandbits(size * 8)
        if mask < size * 8:
            v &= ~((1 << (size * 8 - mask)) - 1)
        out.append(
            {
                'afi': afi, 'safi': safi, 'ip': v.to_bytes(size, 'big'), 'mask': mask,
                'pid': ctx.r.choice([None, ctx.r.getrandbits(32)]),
                'labels': ctx.r.choice(labels) if ctx.r.random() < 0.5 or safi == 1 else [ctx.r.randrange(0, 1 << 20) for _ in range(ctx.r.choice([1, 1, 2, 3]))],
                'rd': ctx.r.choice(rds) if ctx.r.random() < 0.5 or safi != 128 else bytes([0, ctx.r.choice([0, 1, 2])]) + ctx.r.getrandbits(48).to_bytes(6, 'big'),
            }
        )
    if safi in (1, 2):
        for d in out:
            d['labels'] = None
            d['rd'] = None
    return out


def ip_text_line(d: dict) -> str | None:
    if d['safi'] == 2 or not host_bits_zero(d['ip'], d['mask']):
        return None
    nh = '1.2.3.4' if d['afi'] == 1 else '2001:db8::ffff'
    line = f'route {ip_ntop(d["ip"])}/{d["mask"]} next-hop {nh}'
    if d['pid'] is not None:
        line += ' path-information %d.%d.%d.%d' % tuple(d['pid'].to_bytes(4, 'big'))
    if d['safi'] in (4, 128) and d['labels']:
        line += ' label [ %s ]' % ' '.join(str(v) for v in d['labels'])
    if d['safi'] == 4 and not d['labels']:
        return None
    if d['safi'] == 128:
        if not d['rd']:
            return None
        t = rd_text(d['rd'])
        if t is None:
            return None
        line += ' rd ' + t
    return line + ';'


def parse_routes(ctx: Ctx, lines: list, families, chunk: int = 60) -> list:
    """[(tag, line)] -> [(tag, line, Route)] through the real configuration parser; a refused line is logged"""
    out = []

    def load(batch):
        body = 'static {\n' + '\n'.join(l for _, l in batch) + '\n}'
        conf = exa.load_config(exa.neighbor_text(families=families, body=body, addpath=3, addpath_families=[f for f in families if f in ((1, 1), (2, 1), (1, 4), (2, 4), (1, 128), (2, 128))]))
        nb = list(conf.neighbors.values())[0]
        return list(nb.routes)

    for i in range(0, len(lines), chunk):
        batch = lines[i : i + chunk]
        try:
            routes = load(batch)
            if len(routes) != len(batch):
                raise exa.ConfigError('route count')
            out.extend((t, l, r) for (t, l), r in zip(batch, routes))
        except Exception:  # noqa
            for t, l in batch:
                try:
                    routes = load([(t, l)])
                    if len(routes) == 1:
                        out.append((t, l, routes[0]))
                    else:
                        ctx.res.count('text-route-count-%d' % len(routes))
                except Exception as e:  # noqa
                    ctx.res.count('text-refused')
                    ctx.res.extra.setdefault('text_refused', []).append((l + ' => ' + str(e).strip().split('\n')[-1])[:200])
    return out


def run_ip_family(ctx: Ctx, afi: int, safi: int) -> None:
    from exabgp.bgp.message.update.nlri.qualifier import PathInfo

    descs = ip_descs(ctx, afi, safi)
    built = {}
    for d in descs:
        k = ip_desc_key(d)
        if k in built:
            continue
        try:
            x = build_ip(d)
        except Exception as e:  # noqa
            ctx.res.count('factory-refused:%s' % type(e).__name__)
            continue
        built[k] = (d, x)
        exercise_nlri(ctx, x, 'factory:from_cidr')
        # the other factories must give an equal object; equal objects are then held to L3 by the contract
        for how in ('make_route', 'from_settings'):
            try:
                x2 = build_ip(d, how)
            except Exception as e:  # noqa
                ctx.res.count(f'factory-refused:{how}:{type(e).__name__}')
                continue
            eq = check_eq_pair(ctx, x, x2, laws.nlri_label(x), {'class': laws.nlri_label(x), 'pair': f'from_cidr vs {how}', 'a': laws.safe_repr(x), 'b': laws.safe_repr(x2)})
            if eq is False:
                ctx.res.count('factories-disagree:' + how)
    # ---- text grammar
    if safi != 2:
        lines = []
        for k, (d, x) in built.items():
            line = ip_text_line(d)
            if line:
                lines.append((k, line))
        lines = lines[: 400 * ctx.scale]
        for k, line, route in parse_routes(ctx, lines, [(afi, safi)]):
            t = route.nlri
            if fam_of(t) != (afi, safi):
                ctx.res.count('text-other-family')
                exercise_nlri(ctx, t, 'text', line)
                continue
            exercise_nlri(ctx, t, 'text', line)
            d, f = built[k]
            label = laws.nlri_label(t)
            eq = check_eq_pair(ctx, t, f, label, {'class': label, 'pair': 'text vs factory', 'text': line, 'a': laws.safe_repr(t), 'b': laws.safe_repr(f)})
            if eq is False:
                ctx.res.count('text-vs-factory-unequal:' + label)
                ctx.res.extra.setdefault('text_vs_factory_unequal', []).append(f'{line} -> {laws.safe_repr(t)} != {laws.safe_repr(f)}'[:240])
            # Route level: equal routes have equal indexes
            check_eq_pair(ctx, make_route(t), make_route(f), 'route:%s/%s' % fam_of(t), {'pair': 'Route(text) vs Route(factory)', 'text': line})
    # ---- label variants: equal by index, different bytes (the statement's hash clause)
    if safi in (4, 128):
        n = 0
        for k, (d, x) in list(built.items()):
            if not d['labels'] or n > 150 * ctx.scale:
                continue
            d2 = dict(d, labels=[(d['labels'][0] + 1) % (1 << 20)] + list(d['labels'][1:]))
            try:
                x2 = build_ip(d2)
            except Exception:  # noqa
                continue
            n += 1
            label = laws.nlri_label(x)
            eq = check_eq_pair(ctx, x, x2, label, {'class': label, 'pair': 'same prefix, different label', 'a': laws.safe_repr(x), 'b': laws.safe_repr(x2)})
            ctx.res.count('label-variant-equal' if eq else 'label-variant-unequal')
            check_eq_pair(ctx, make_route(x), make_route(x2), 'route:%s/%s' % fam_of(x), {'pair': 'Route, same prefix different label'})
    # ---- L4
    bits = 32 if afi == 1 else 128
    items = list(built.values())
    ctx.r.shuffle(items)
    for d, x in items[: 250 * ctx.scale]:
        wit = {'class': laws.nlri_label(x)}
        variants = []
        # family
        other_safi = {1: [2, 4], 2: [1], 4: [1, 128], 128: [4]}[safi]
        for s2 in other_safi:
            d2 = dict(d, safi=s2)
            if s2 in (1, 2):
                d2['labels'], d2['rd'] = None, None
            if s2 == 4:
                d2['rd'] = None
            variants.append(('family', d2))
        if d['mask'] <= 32:
            raw = d['ip'][:4] if afi == 2 else d['ip'] + bytes(12)
            if afi == 1 or host_bits_zero(d['ip'], 32) or True:
                variants.append(('family', dict(d, afi=3 - afi, ip=(d['ip'][:4] if afi == 2 else d['ip'] + bytes(12)))))
        # path identifier
        if d['pid'] is not None:
            for p2 in (0, 1, 0xFFFFFFFF, d['pid'] ^ 0x100):
                if p2 != d['pid']:
                    variants.append(('path-id', dict(d, pid=p2)))
        # prefix
        if d['mask'] > 0:
            bit = ctx.r.randrange(0, d['mask'])
            v = int.from_bytes(d['ip'], 'big') ^ (1 << (bits - 1 - bit))
            variants.append(('prefix-address', dict(d, ip=v.to_bytes(bits // 8, 'big'))))
        if d['mask'] < bits and host_bits_zero(d['ip'], d['mask']):
            variants.append(('prefix-mask', dict(d, mask=d['mask'] + 1)))
        if d['mask'] > 0 and host_bits_zero(d['ip'], d['mask'] - 1):
            variants.append(('prefix-mask', dict(d, mask=d['mask'] - 1)))
        if d['rd']:
            for rd2 in (RDS[1], RDS[3], bytes([d['rd'][0], d['rd'][1] ^ 1]) + d['rd'][2:], d['rd'][:7] + bytes([d['rd'][7] ^ 1])):
                if rd2 != d['rd']:
                    variants.append(('rd', dict(d, rd=rd2)))
        for what, d2 in variants:
            try:
                y = build_ip(d2)
            except Exception:  # noqa
                ctx.res.count('l4-variant-refused')
                continue
            check_l4_pair(ctx, x, y, what, wit)
        if d['labels']:
            try:
                y = build_ip(dict(d, labels=[d['labels'][0] ^ 1] + list(d['labels'][1:])))
                ctx.res.count('label-insensitive-index' if bytes(y.index()) == bytes(x.index()) else 'label-sensitive-index')
            except Exception:  # noqa
                pass
    # ---- adversarial: the index is a concatenation; a path-id spelled like a sentinel must not alias another route
    if safi in (4, 128):
        for sentinel in (b'no-pi', b'disabled'):
            pid = int.from_bytes(sentinel[:4], 'big')
            rest = sentinel[4:]
            for mask_a in range(0, bits + 1):
                ip_a = (int.from_bytes(b'\xa5' * (bits // 8), 'big') >> (bits - mask_a) << (bits - mask_a)).to_bytes(bits // 8, 'big') if mask_a else bytes(bits // 8)
                na = (mask_a + 7) // 8
                # B index = fam + pid + mask_b + ip_b ; A index = fam + sentinel + mask_a(+rd bits) + [rd] + ip_a
                rd = RDS[1] if safi == 128 else None
                mask_byte_a = mask_a + (64 if rd else 0)
                tail = rest[1:] + bytes([mask_byte_a]) + (rd or b'') + ip_a[:na]
                mask_byte_b = rest[0]
                if safi == 128:
                    if len(tail) < 8:
                        continue
                    rd_b, ipb = tail[:8], tail[8:]
                    mask_b = mask_byte_b - 64
                else:
                    rd_b, ipb = None, tail
                    mask_b = mask_byte_b
                if mask_b < 0 or mask_b > bits or (mask_b + 7) // 8 != len(ipb):
                    continue
                da = {'afi': afi, 'safi': safi, 'ip': ip_a, 'mask': mask_a, 'pid': 0 if sentinel == b'no-pi' else None, 'labels': [16], 'rd': rd}
                db = {'afi': afi, 'safi': safi, 'ip': ipb + bytes(bits // 8 - len(ipb)), 'mask': mask_b, 'pid': pid, 'labels': [16], 'rd': rd_b}
                try:
                    a, b = build_ip(da), build_ip(db)
                except Exception:  # noqa
                    continue
                check_l4_pair(ctx, a, b, 'path-id+prefix', {'class': laws.nlri_label(a), 'note': 'path identifier bytes spell the start of the %r sentinel' % sentinel.decode()})
