"""C15 - every registered family and attribute survives an encode/decode round trip.

Runtime monitor with law-style oracles (vlib/laws.py): the real pack/unpack/index/hash/==/json code
is exercised on objects from three sources (text grammar, factory methods, decoding of the qa corpus
and mutated-but-decodable variants); the oracle is the algebraic law evaluated on the real objects.
L1 and L3 are icontract post-conditions attached from the harness to pack_nlri / pack_attribute /
__eq__ of the classes the registries hold; L2, L4, L5 are explicit comparisons.
"""

from __future__ import annotations

import glob
import hashlib
import os
import random
import struct

from vlib import corpus, exa, laws
from vlib.laws import M, LawViolation, hx
from vlib.mon import Result

PROPERTY = 'C15'
LEVEL = 'exploration'
RULE = (
    'objects per registry entry from three sources: (i) the real configuration parser over etc/exabgp/*.conf, the files '
    'named by qa/encoding/*.ci and generated route text with boundary values; (ii) make_*/from_* factories fed boundary '
    'values (mask 0/32/128, path-id 0/2^32-1, label 0/3/16/2^20-1, RD types 0/1/2, empty/maximal lists); (iii) every '
    'MP_REACH/MP_UNREACH NLRI and attribute sliced from the qa corpus UPDATEs plus seeded byte mutations that still '
    'decode. Laws L1..L5 evaluated per (registry entry, law); distinct = distinct (class, law, encoded bytes)'
)
ASSUMPTIONS = [
    '"equal object" is ExaBGP\'s own == on the decoded object (both directions); classes without __eq__ (BGP-LS attribute TLVs, SR/tunnel sub-TLVs) are compared by type + packed bytes + content/json',
    'canonical bytes = bytes ExaBGP\'s own encoder produced; a corpus/mutated slice whose first re-encode differs is logged as non-canonical-input and the re-encoded bytes are then held to L2',
    'ADD-PATH is a property of the session: an object without a path identifier packed on an ADD-PATH session (or the reverse) is held to L1 through the object the session can carry (decode(encode(y)) == y)',
    'a multi-TLV pack_attribute result (AS_PATH+AS4_PATH, AGGREGATOR+AS4_AGGREGATOR on a 2-byte AS session) is decoded through AttributeCollection.unpack, the production path which reconstructs',
    'MP_REACH/MP_UNREACH have no pack_attribute: they are exercised through UpdateCollection.messages()/unpack_message() on routes',
    'BGP-LS attribute TLVs have no encoder besides their make_* factory; encode(x) is taken to be the stored payload',
    'labels are not in the statement for L4: an index that ignores the label stack is logged, not flagged',
    'cross-process determinism is checked between PYTHONHASHSEED=0 and PYTHONHASHSEED=1 only',
    'the extended next hop capability is not negotiated in the sessions used (MP_REACH decoding of non-IP families raises KeyError with it, outside this property)',
]
MANIFEST = {
    'level': 'exploration',
    'technique': 'runtime law monitor: icontract post-conditions (decode(encode(x))==x, a==b => hash/index alike) attached from the harness to the real registry classes, plus explicit re-encode / index-separation / render-determinism comparisons, over text-parsed, factory-built and corpus-decoded objects; second process with another PYTHONHASHSEED for renderings',
    'text': 'Seeded exploration per registry entry (23 NLRI keys, 22 attribute codes, extended community and BGP-LS TLV registries). '
    'Held means no law was violated on the objects generated; registry entries with zero evaluations are listed as not exercised and are outside the claim.',
    'note': 'every two distinct objects of one class are compared (an __eq__ which leaves a field out makes neighbours equal and is then held to L3); the repository own unit tests are run in a child pytest with the contracts attached in record-only mode (L3 verdicts, L1 listed); oracle is the law itself on the real objects (no reference decoder); == is ExaBGP own; canonical = produced by ExaBGP encoder; labels excluded from index separation',
}
SHARD_TIMEOUT = {'quick': 240, 'thorough': 1500}

REPO = os.environ.get('VERIF_REPO', '/repo')


# ============================================================================== sessions


def make_neighbor(asn4=True, addpath=0, las=65533, pas=65533):
    cap = f'asn4 {"enable" if asn4 else "disable"}; route-refresh enable; extended-message enable; aigp enable;'
    ap = ''
    if addpath:
        cap += ' add-path send/receive;'
        ap = 'add-path { ipv4 unicast; ipv6 unicast; ipv4 nlri-mpls; ipv6 nlri-mpls; ipv4 mpls-vpn; ipv6 mpls-vpn; }'
    text = f"""
neighbor 127.0.0.2 {{
    router-id 10.0.0.1;
    local-address 127.0.0.1;
    local-as {las};
    peer-as {pas};
    family {{ {corpus.ALL_FAMILIES_TEXT} }}
    capability {{ {cap} }}
    {ap}
}}
"""
    conf = exa.load_config(text)
    return list(conf.neighbors.values())[0]


def make_sessions() -> dict:
    s = {}
    s['plain'] = corpus.mirror_session(make_neighbor())
    s['addpath'] = corpus.mirror_session(make_neighbor(addpath=3))
    s['asn2'] = corpus.mirror_session(make_neighbor(asn4=False, las=65000, pas=65001), peer_asn4=False)
    return s


# ============================================================================== context


class Ctx:
    def __init__(self, desc: dict) -> None:
        self.desc = desc
        self.res = Result()
        self.r = random.Random(desc.get('seed', 1) * 1000003 + desc.get('part', 0) * 7919 + len(desc.get('kind', '')))
        self.scale = int(desc.get('scale', 1))
        exa.quiet()
        self.reg = laws.attach()
        self.sessions = make_sessions()
        self.lawcount: dict[str, int] = {}
        self.render: dict[str, str] = {}
        self.seen: set = set()
        self.pool: dict[str, list] = {}  # every object exercised, per registry label: compared pairwise at the end (all_pairs)
        self.neigh: dict[str, int] = {}  # wire-neighbour sweeps done per class
        import exabgp

        self.res.extra['exabgp_file'] = exabgp.__file__

    # -- accounting
    def ok(self, label: str, law: str, sig=None) -> None:
        k = f'{label}:{law}'
        self.lawcount[k] = self.lawcount.get(k, 0) + 1
        self.res.ok(k, sig)

    def bad(self, key: str, what: str, witness: dict, label: str, law: str) -> None:
        k = f'{label}:{law}'
        self.lawcount[k] = self.lawcount.get(k, 0) + 1
        if ':no-label' in key:
            # a labelled/VPN object without a label stack is refused by the production send path
            # (validate_announce_nlri): it is never encoded, so the round-trip law does not apply to it.
            # Whether such text should be accepted at all is C18's business.
            self.res.count('outside-claim:' + key)
            return
        self.res.violation(key, what, witness, k)

    def law(self, v: LawViolation, extra: dict) -> None:
        self.bad(v.key, v.what, dict(extra, **v.witness), v.label or extra.get('class', '?'), v.law or '?')

    def all_pairs(self, limit: int = 4000) -> None:
        """every two distinct objects of one class: when the class says they are equal (an __eq__ which leaves a field out
        makes neighbours equal) the contract on __eq__ holds them to L3 - same hash, same index"""
        for label, objs in sorted(self.pool.items()):
            uniq = {}
            for o in objs:
                try:
                    uniq.setdefault(bytes(getattr(o, '_packed', b'')) + repr(getattr(o, 'afi', '')).encode(), o)
                except Exception:  # noqa
                    continue
            objs = list(uniq.values())
            n = len(objs)
            pairs = [(i, j) for i in range(n) for j in range(i + 1, n)]
            if len(pairs) > limit:
                pairs = self.r.sample(pairs, limit)
            for i, j in pairs:
                a, b = objs[i], objs[j]
                eq = check_eq_pair(self, a, b, label, {'class': label, 'pair': 'two distinct objects of one class', 'a': laws.safe_repr(a), 'b': laws.safe_repr(b), 'a_bytes': hx(getattr(a, '_packed', b'')), 'b_bytes': hx(getattr(b, '_packed', b''))})
                self.res.count('all-pairs:' + ('equal' if eq else 'distinct'))

    def finish(self) -> Result:
        try:
            self.all_pairs()
        except Exception as e:  # noqa
            self.res.inconclusive.append(f'all_pairs raised {type(e).__name__}: {e}')
        res = self.res
        res.extra['law_evaluations'] = dict(self.lawcount)
        res.extra['contract_evaluations'] = dict(M.evals)
        res.extra['registered'] = laws.registry_labels(self.reg)
        res.extra['contracts_attached'] = list(M.attached)
        res.extra['contracts_not_attached'] = list(M.not_attached)
        for k, n in M.info.items():
            res.count(k, n)
        if self.render:
            res.extra['render%d' % int(self.desc.get('hashseed', 0))] = self.render
        return res


# ============================================================================== renderings (L5)


def renderings(obj) -> list:
    """every JSON / text rendering the object offers -> [(name, string)] (a raise is rendered as its type)"""
    out = []
    calls = [('json', (), {}), ('json', (), {'compact': True}), ('extensive', (), {}), ('__str__', (), {}), ('__repr__', (), {})]
    for name, a, kw in calls:
        fn = getattr(obj, name, None)
        if fn is None or not callable(fn):
            continue
        if name in ('__str__', '__repr__') and getattr(type(obj), name) in (object.__str__, object.__repr__):
            continue  # the default repr prints the address of the object: not a rendering of its value
        if name == '__str__' and type(obj).__str__ is object.__str__:
            continue
        tag = name + ('/compact' if kw else '')
        try:
            out.append((tag, str(fn(*a, **kw))))
        except TypeError as e:
            if kw:
                continue
            out.append((tag, '<raises TypeError %s>' % str(e)[:60]))
        except NotImplementedError:
            continue
        except Exception as e:  # noqa
            out.append((tag, '<raises %s>' % type(e).__name__))
    return out


def render_digest(rs: list) -> str:
    h = hashlib.sha1()
    for n, s in rs:
        h.update(n.encode() + b'\x00' + s.encode('utf-8', 'replace') + b'\x01')
    short = ' | '.join(s for _, s in rs[:2])[:140]
    return h.hexdigest()[:16] + ' ' + short


def case_id(label: str, aux, b: bytes) -> str:
    h = hx(b)
    if len(h) > 240:
        h = h[:200] + '..' + laws.sha(b)
    return f'{label}|{aux}|{h}'


def check_l5(ctx: Ctx, label: str, decode, wit: dict, case_id: str | None) -> None:
    """same bytes decoded twice in this process render identically; digest kept for the other process"""
    try:
        a = decode()
        b = decode()
    except Exception:  # noqa
        ctx.res.count('L5-decode-raises')
        return
    ra, rb = renderings(a), renderings(b)
    if any(s.startswith('<raises') for _, s in ra):
        ctx.res.count('render-raises:' + label)
        ctx.res.extra.setdefault('render_raises_samples', []).append(f'{label} {wit.get("bytes", "")[:60]}: ' + '; '.join(f'{n} {s}' for n, s in ra if s.startswith('<raises'))[:160])
    if ra != rb:
        diff = [(n, s, t) for (n, s), (_, t) in zip(ra, rb) if s != t][:2]
        ctx.bad('C15/render-unstable:' + label, f'the same bytes decoded twice render differently: {diff}', dict(wit, renderings=diff), label, 'L5')
    else:
        ctx.ok(label, 'L5', (label, 'L5', wit.get('bytes', '')))
    if case_id is not None:
        ctx.render[case_id] = render_digest(ra)
    check_render_order(ctx, label, decode, wit)


FLAG_SETS = {'include_nexthop': ({}, {'include_nexthop': True}), 'generic': ({}, {'generic': True}), 'announced': ({}, {'announced': False})}


def check_render_order(ctx: Ctx, label: str, decode, wit: dict) -> None:
    """a rendering which takes options is a function of (bytes, options): asked with options A then B on one fresh object and
    B then A on another, each option set gives one text.  A memo filled by whichever call comes first breaks exactly this"""
    import inspect

    try:
        probe = decode()
        params = inspect.signature(probe.json).parameters
    except Exception:  # noqa
        return
    for flag, (A, B) in FLAG_SETS.items():
        if flag not in params:
            continue
        try:
            c, d = decode(), decode()
            ca, cb = c.json(**A), c.json(**B)
            db, da = d.json(**B), d.json(**A)
        except Exception:  # noqa
            ctx.res.count('render-order-raises:' + label)
            continue
        if ca != da or cb != db:
            which = 'default' if ca != da else flag
            ctx.bad(f'C15/render-depends-on-call-order:{label}:{flag}', f'json({which}) of the same bytes differs with the order of the calls: {ca[:80]!r} / {da[:80]!r} / {cb[:80]!r} / {db[:80]!r}', dict(wit, flag=flag), label, 'L5')
        else:
            ctx.ok(label, 'L5')
            ctx.res.ok('render-order:' + flag)


# ============================================================================== NLRI drivers


def fam_of(x):
    return x.afi, x.safi


def sessions_for(ctx: Ctx, afi, safi) -> list:
    out = [('plain', ctx.sessions['plain'])]
    if ctx.sessions['addpath'].addpath.send(afi, safi):
        out.append(('addpath', ctx.sessions['addpath']))
    return out


def exercise_nlri(ctx: Ctx, x, src: str, text: str | None = None, laws_only=None) -> None:
    """L1 (contract on pack_nlri), L2 on ExaBGP's own bytes, L3 (contract on ==) and L5 for one NLRI object"""
    from exabgp.bgp.message.update.nlri.nlri import NLRI

    label = laws.nlri_label(x)
    sub = laws.nlri_sublabel(x)
    afi, safi = fam_of(x)
    if len(ctx.pool.setdefault((sub or label) if (sub or label).startswith('nlri:') else label, [])) < 400:
        ctx.pool[(sub or label) if (sub or label).startswith('nlri:') else label].append(x)
    for sname, neg in sessions_for(ctx, afi, safi):
        wit = {'class': label, 'source': src, 'session': sname, 'object': laws.safe_repr(x)}
        if text:
            wit['text'] = text
        # ---- L1
        before = M.ticks
        try:
            with laws.armed():
                b = bytes(x.pack_nlri(neg))
        except LawViolation as v:
            ctx.law(v, wit)
            if sub:
                ctx.ok(sub, 'L1')
            l5_only_nlri(ctx, x, label, neg, wit)
            continue
        except Exception as e:  # noqa
            ctx.bad(f'C15/raises:{label}:{type(e).__name__}', f'pack_nlri raises {type(e).__name__}: {str(e)[:160]}', wit, label, 'L1')
            continue
        if M.ticks == before:
            ctx.res.count('contract-not-evaluated:' + label)
            ok, what, w2 = laws.check_l1_nlri(x, neg, b)
            if not ok:
                key = f'C15/raises:{label}:{w2["raises"]}' if 'raises' in w2 else f'C15/roundtrip-nlri:{afi}/{safi}'
                ctx.bad(key, what, dict(wit, **w2), label, 'L1')
                continue
        wit['bytes'] = hx(b)
        ctx.ok(label, 'L1', (label, 'L1', sname, hx(b)))
        if sub:
            ctx.ok(sub, 'L1')
        send = bool(neg.addpath.send(afi, safi))
        # ---- L2: b came out of ExaBGP's encoder
        try:
            y, used, rest = laws.decode_one_nlri(afi, safi, b, send, neg)
            b2 = bytes(y.pack_nlri(neg))
        except Exception as e:  # noqa
            ctx.bad(f'C15/raises:{label}:{type(e).__name__}', f're-encoding what was decoded raises {type(e).__name__}: {str(e)[:160]}', wit, label, 'L2')
            continue
        if y is NLRI.INVALID:
            continue
        if b2 != b:
            ctx.bad('C15/reencode-differs:' + label, f'encode(decode(b)) != b for b produced by ExaBGP: {hx(b)} -> {hx(b2)}', dict(wit, reencoded=hx(b2)), label, 'L2')
        else:
            ctx.ok(label, 'L2', (label, 'L2', sname, hx(b)))
            if sub:
                ctx.ok(sub, 'L2')
        # ---- L3: objects built by different paths (source vs decode)
        check_eq_pair(ctx, x, y, label, dict(wit, pair=f'{src} vs decode'))
        wire_neighbours(ctx, y, b, afi, safi, send, neg, label, sub, src, sname)
        # ---- L5
        key = (label, send, b)
        if key not in ctx.seen:
            ctx.seen.add(key)
            check_l5(ctx, label, lambda: laws.decode_one_nlri(afi, safi, b, send, neg)[0], wit, case_id(label, int(send), b))
            if sub:
                ctx.ok(sub, 'L5')


def wire_neighbours(ctx: Ctx, y, b: bytes, afi, safi, send: bool, neg, label: str, sub, src: str, sname: str) -> None:
    """every NLRI one octet away from b (each position: low bit, high bit, +1, zero, 255, 128, 32, x4, /4 - the last ones turn one
    legal length octet into another) which still decodes to its end is held
    against y: an __eq__ or __hash__ which leaves out ONE field that index() keeps (or the reverse) shows on the neighbour
    which differs in that field only - systematically, not when two random objects happen to be that close"""
    from exabgp.bgp.message.update.nlri.nlri import NLRI

    k = sub or label
    n = ctx.neigh.get(k, 0)
    if n >= 3 * ctx.scale:
        return
    ctx.neigh[k] = n + 1
    seen = set()
    for i in range(len(b)):
        for op in range(9):
            m = bytearray(b)
            m[i] = (m[i] ^ 1, m[i] ^ 0x80, (m[i] + 1) & 0xFF, 0, 0xFF, 0x80, 0x20, (m[i] << 2) & 0xFF, m[i] >> 2)[op]
            mb = bytes(m)
            if mb == b or mb in seen:
                continue
            seen.add(mb)
            try:
                y2, used, rest = laws.decode_one_nlri(afi, safi, mb, send, neg)
            except Exception:  # noqa
                ctx.res.count('wire-neighbour:not-decodable')
                continue
            if y2 is NLRI.INVALID or rest or type(y2) is not type(y):
                ctx.res.count('wire-neighbour:other')
                continue
            wit = {'class': label, 'source': src, 'session': sname, 'pair': f'decoded vs the same octets with octet {i} changed', 'a_bytes': hx(b), 'b_bytes': hx(mb), 'a': laws.safe_repr(y), 'b': laws.safe_repr(y2)}
            eq = check_eq_pair(ctx, y, y2, label, wit)
            ctx.res.count('wire-neighbour:' + ('equal' if eq else 'distinct'))
            ctx.res.ok('wire-neighbour', (k, i, op) if n == 0 else None)


def l5_only_nlri(ctx: Ctx, x, label: str, neg, wit: dict) -> None:
    """L1 failed: the renderings of the bytes ExaBGP produced are still held to L5"""
    afi, safi = fam_of(x)
    try:
        b = bytes(x.pack_nlri(neg))
    except Exception:  # noqa
        return
    send = bool(neg.addpath.send(afi, safi))
    key = (label, send, b)
    if key not in ctx.seen:
        ctx.seen.add(key)
        check_l5(ctx, label, lambda: laws.decode_one_nlri(afi, safi, b, send, neg)[0], dict(wit, bytes=hx(b)), case_id(label, int(send), b))


def l5_only_attr(ctx: Ctx, a, label: str, code: int, sname: str, neg, wit: dict) -> None:
    try:
        b = bytes(a.pack_attribute(neg))
    except Exception:  # noqa
        return
    key = (label, sname, b)
    if b and key not in ctx.seen:
        ctx.seen.add(key)
        check_l5(ctx, label, lambda: decode_attr_bytes(b, code, neg), dict(wit, bytes=hx(b)), case_id(label, sname, b))


def check_eq_pair(ctx: Ctx, a, b, label: str, wit: dict) -> bool | None:
    """evaluate a == b (and b == a) armed: the post-condition on __eq__ holds the pair to L3. -> a == b"""
    before = M.ticks
    try:
        with laws.armed():
            e1 = a == b
            e2 = b == a
    except LawViolation as v:
        ctx.law(v, wit)
        return True
    except Exception as e:  # noqa
        ctx.bad(f'C15/raises:{label}:{type(e).__name__}', f'== raises {type(e).__name__}: {str(e)[:120]}', wit, label, 'L3')
        return None
    if e1 is not True and e1 is not False or e1 != e2:
        ctx.res.count('eq-asymmetric-or-not-bool:' + label)
    if e1 is True:
        if M.ticks == before:
            ctx.res.count('contract-not-evaluated:' + label)
            ok, what, w2, kind = laws.check_l3(a, b)
            if not ok:
                sub = (':' + type(a).__name__) if label.startswith('nlri:') and laws.nlri_sublabel(a) else ''
                ctx.bad(f'C15/eq-{kind}:{label}{sub}', what, dict(wit, **w2), label, 'L3')
                return True
        ctx.ok(label, 'L3')
    return bool(e1)


def make_route(nlri):
    from exabgp.bgp.message.update.attribute.collection import AttributeCollection
    from exabgp.rib.route import Route

    return Route(nlri, AttributeCollection())


def check_l4_pair(ctx: Ctx, a, b, what: str, wit: dict, label: str | None = None) -> None:
    """a and b differ in exactly `what` (family / path-id / prefix-address / prefix-mask / rd): indexes must differ"""
    label = label or laws.nlri_label(a)
    wit = dict(wit, differs=what, a=laws.safe_repr(a), b=laws.safe_repr(b), a_bytes=hx(getattr(a, '_packed', b'')), b_bytes=hx(getattr(b, '_packed', b'')))
    try:
        ia, ib = bytes(a.index()), bytes(b.index())
        ra, rb = bytes(make_route(a).index()), bytes(make_route(b).index())
    except Exception as e:  # noqa
        ctx.bad(f'C15/raises:{label}:{type(e).__name__}', f'index() raises {type(e).__name__}: {str(e)[:120]}', wit, label, 'L4')
        return
    if ia == ib or ra == rb:
        ctx.bad(f'C15/index-collision:{what}:{label}', f'two routes which differ in {what} share an index: {laws.safe_repr(a)[:90]} / {laws.safe_repr(b)[:90]}', dict(wit, index=hx(ia), route_index=hx(ra)), label, 'L4')
        return
    ctx.ok(label, 'L4', (label, 'L4', what, hx(ia), hx(ib)))
    # the statement asks for distinct indexes only; if the class nevertheless says the two are equal, the pair is
    # an (a == b, index differs) pair and the post-condition on == holds it to L3
    if check_eq_pair(ctx, a, b, label, dict(wit, pair=f'differ in {what}')):
        ctx.res.count(f'differ-in-{what}-but-equal:{label}')


# ============================================================================== IP families (INET / Label / IPVPN)

V4 = [
    ('0.0.0.0', 0), ('128.0.0.0', 1), ('10.0.0.0', 8), ('10.128.0.0', 9), ('10.1.2.0', 24), ('10.1.2.128', 25),
    ('10.1.2.254', 31), ('10.1.2.3', 32), ('255.255.255.255', 32), ('0.0.0.0', 32), ('10.1.2.3', 24), ('192.0.2.0', 23),
]
V6 = [
    ('::', 0), ('8000::', 1), ('2001:db8::', 32), ('2001:db8:1::', 48), ('2001:db8:1:8000::', 49), ('2001:db8:8000::', 33), ('2001:db8:0:1::', 64), ('2001:db8::2', 127),
    ('2001:db8::1', 128), ('ffff:ffff:ffff:ffff:ffff:ffff:ffff:ffff', 128), ('::', 128), ('2001:db8::1', 64), ('2001:db8:1:2:3::', 104),
]
PIDS = [None, 0, 1, 0xFFFFFFFF, 0x6E6F2D70]
LABELS = [None, [0], [3], [16], [1048575], [16, 17], [524288]]
RDS = [
    None,
    bytes([0, 0]) + struct.pack('!HL', 65000, 1),
    bytes([0, 1]) + bytes([1, 2, 3, 4]) + struct.pack('!H', 5),
    bytes([0, 2]) + struct.pack('!LH', 70000, 1),
    bytes(8),
    bytes([0, 0]) + b'\xff' * 6,
    bytes([0, 2]) + b'\xff' * 6,
]


def ip_pton(s: str) -> bytes:
    import socket

    return socket.inet_pton(socket.AF_INET6 if ':' in s else socket.AF_INET, s)


def ip_ntop(b: bytes) -> str:
    import socket

    return socket.inet_ntop(socket.AF_INET6 if len(b) == 16 else socket.AF_INET, b)


def host_bits_zero(ip: bytes, mask: int) -> bool:
    v = int.from_bytes(ip, 'big')
    bits = len(ip) * 8
    return v & ((1 << (bits - mask)) - 1) == 0 if mask < bits else True


def rd_text(rd: bytes) -> str | None:
    t = struct.unpack('!H', rd[:2])[0]
    if t == 0:
        a, n = struct.unpack('!HL', rd[2:])
        return f'{a}:{n}'
    if t == 1:
        return '%d.%d.%d.%d:%d' % (rd[2], rd[3], rd[4], rd[5], struct.unpack('!H', rd[6:])[0])
    if t == 2:
        a, n = struct.unpack('!LH', rd[2:])
        if a < 65536:
            return None  # the text form of a small AS is read back as type 0
        return f'{a}:{n}'
    return None


def ip_desc_key(d: dict) -> tuple:
    return (d['afi'], d['safi'], d['ip'], d['mask'], d['pid'], tuple(d['labels']) if d['labels'] else None, d['rd'])


def build_ip(d: dict, how: str = 'from_cidr'):
    from exabgp.bgp.message.update.nlri.cidr import CIDR
    from exabgp.bgp.message.update.nlri.inet import INET
    from exabgp.bgp.message.update.nlri.ipvpn import IPVPN
    from exabgp.bgp.message.update.nlri.label import Label
    from exabgp.bgp.message.update.nlri.qualifier import Labels, PathInfo, RouteDistinguisher
    from exabgp.bgp.message.update.nlri.settings import INETSettings
    from exabgp.protocol.family import AFI, SAFI

    afi = AFI.from_int(d['afi'])
    safi = SAFI.from_int(d['safi'])
    cidr = CIDR.create_cidr(d['ip'], d['mask'])
    pi = PathInfo.DISABLED if d['pid'] is None else PathInfo.make_from_integer(d['pid'])
    labels = Labels.make_labels(list(d['labels'])) if d['labels'] else None
    rd = RouteDistinguisher(d['rd']) if d['rd'] else None
    klass = {1: INET, 2: INET, 4: Label, 128: IPVPN}[d['safi']]
    if how == 'from_settings':
        s = INETSettings()
        s.cidr, s.afi, s.safi, s.path_info = cidr, afi, safi, pi
        if d['safi'] in (4, 128):
            s.labels = labels
        if d['safi'] == 128:
            s.rd = rd
        from exabgp.protocol.ip import IP

        s.nexthop = IP.from_string('1.2.3.4')
        return klass.from_settings(s)
    if how == 'make_route' and klass is INET:
        return INET.make_route(afi, safi, d['ip'], d['mask'], path_info=pi)
    if how == 'make_route' and klass is IPVPN:
        return IPVPN.make_vpn_route(afi, safi, d['ip'], d['mask'], labels if labels is not None else Labels.NOLABEL, rd if rd is not None else RouteDistinguisher.NORD, pi)
    if klass is INET:
        return INET.from_cidr(cidr, afi, safi, pi)
    if klass is Label:
        return Label.from_cidr(cidr, afi, safi, pi, labels=labels)
    return IPVPN.from_cidr(cidr, afi, safi, pi, labels=labels, rd=rd)


def ip_descs(ctx: Ctx, afi: int, safi: int) -> list:
    vals = V4 if afi == 1 else V6
    out = []
    labels = LABELS if safi in (4, 128) else [None]
    rds = RDS if safi == 128 else [None]
    for ip, mask in vals:
        raw = ip_pton(ip)
        for pid in PIDS:
            for lab in labels:
                for rd in rds:
                    out.append({'afi': afi, 'safi': safi, 'ip': raw, 'mask': mask, 'pid': pid, 'labels': lab, 'rd': rd})
    # seeded random values on top of the boundary grid
    n = 40 * ctx.scale
    size = 4 if afi == 1 else 16
    for _ in range(n):
        mask = ctx.r.choice([ctx.r.randrange(0, size * 8 + 1), size * 8, 0, 24])
        v = ctx.r.getrandbits(size * 8)
        if mask < size * 8:
            v &= ~((1 << (size * 8 - mask)) - 1)
        out.append(
            {
                'afi': afi, 'safi': safi, 'ip': v.to_bytes(size, 'big'), 'mask': mask,
                'pid': ctx.r.choice([None, ctx.r.getrandbits(32)]),
                'labels': ctx.r.choice(labels) if ctx.r.random() < 0.5 or safi == 1 else [ctx.r.randrange(0, 1 << 20) for _ in range(ctx.r.choice([1, 1, 2, 3]))],
                'rd': ctx.r.choice(rds) if ctx.r.random() < 0.5 or safi != 128 else bytes([0, ctx.r.choice([0, 1, 2])]) + ctx.r.getrandbits(48).to_bytes(6, 'big'),
            }
        )
    if safi in (1, 2):
        for d in out:
            d['labels'] = None
            d['rd'] = None
    return out


def ip_text_line(d: dict) -> str | None:
    if d['safi'] == 2 or not host_bits_zero(d['ip'], d['mask']):
        return None
    nh = '1.2.3.4' if d['afi'] == 1 else '2001:db8::ffff'
    line = f'route {ip_ntop(d["ip"])}/{d["mask"]} next-hop {nh}'
    if d['pid'] is not None:
        line += ' path-information %d.%d.%d.%d' % tuple(d['pid'].to_bytes(4, 'big'))
    if d['safi'] in (4, 128) and d['labels']:
        line += ' label [ %s ]' % ' '.join(str(v) for v in d['labels'])
    if d['safi'] == 4 and not d['labels']:
        return None
    if d['safi'] == 128:
        if not d['rd']:
            return None
        t = rd_text(d['rd'])
        if t is None:
            return None
        line += ' rd ' + t
    return line + ';'


def parse_routes(ctx: Ctx, lines: list, families, chunk: int = 60) -> list:
    """[(tag, line)] -> [(tag, line, Route)] through the real configuration parser; a refused line is logged"""
    out = []

    def load(batch):
        body = 'static {\n' + '\n'.join(l for _, l in batch) + '\n}'
        conf = exa.load_config(exa.neighbor_text(families=families, body=body, addpath=3, addpath_families=[f for f in families if f in ((1, 1), (2, 1), (1, 4), (2, 4), (1, 128), (2, 128))]))
        nb = list(conf.neighbors.values())[0]
        return list(nb.routes)

    for i in range(0, len(lines), chunk):
        batch = lines[i : i + chunk]
        try:
            routes = load(batch)
            if len(routes) != len(batch):
                raise exa.ConfigError('route count')
            out.extend((t, l, r) for (t, l), r in zip(batch, routes))
        except Exception:  # noqa
            for t, l in batch:
                try:
                    routes = load([(t, l)])
                    if len(routes) == 1:
                        out.append((t, l, routes[0]))
                    else:
                        ctx.res.count('text-route-count-%d' % len(routes))
                except Exception as e:  # noqa
                    ctx.res.count('text-refused')
                    ctx.res.extra.setdefault('text_refused', []).append((l + ' => ' + str(e).strip().split('\n')[-1])[:200])
    return out


def run_spare_bits(ctx: Ctx, afi: int, safi: int) -> None:
    """prefixes as a peer may send them: when the mask is not a multiple of 8 the last octet has spare low bits, which RFC 4271
    4.3 calls irrelevant. Whatever ExaBGP makes of them, two decoded routes which compare equal must hash and index alike"""
    if safi not in (1, 2):
        return
    bits = 32 if afi == 1 else 128
    base = bytes([10, 1, 2, 128]) if afi == 1 else bytes.fromhex('20010db8000100020003000400050080')
    for sname in ('plain', 'addpath'):
        neg = ctx.sessions[sname]
        addpath = sname == 'addpath'
        if addpath and not neg.addpath.receive(afi, safi) and not neg.addpath.send(afi, safi):
            continue
        for mask in [m for m in (1, 7, 9, 17, 25, 31, 33, 63, 65, 120, 127) if m < bits]:
            nbytes = (mask + 7) // 8
            spare = 8 * nbytes - mask
            clean = bytearray(base[:nbytes])
            clean[-1] &= (0xFF << spare) & 0xFF
            for fill in (0xFF >> (8 - spare), 1):
                dirty = bytearray(clean)
                dirty[-1] |= fill & (0xFF >> (8 - spare))
                pid = b'\0\0\0\1' if addpath else b''
                objs = []
                for raw in (clean, dirty):
                    got = decode_field(afi, safi, pid + bytes([mask]) + bytes(raw), addpath, neg, False)
                    if not got or len(got) != 1:
                        objs = []
                        break
                    objs.append(got[0][1])
                if len(objs) != 2:
                    ctx.res.count('spare-bits:refused')
                    continue
                wit = {'class': laws.nlri_label(objs[0]), 'source': 'wire: spare bits of the last prefix octet', 'mask': mask, 'clean': hx(bytes(clean)), 'dirty': hx(bytes(dirty)), 'a': laws.safe_repr(objs[0]), 'b': laws.safe_repr(objs[1])}
                eq = check_eq_pair(ctx, objs[0], objs[1], laws.nlri_label(objs[0]), wit)
                ctx.res.count('spare-bits:' + ('equal' if eq else 'distinct'))
                if eq is False:
                    # kept apart: then they are two routes and may not share an index
                    check_l4_pair(ctx, objs[0], objs[1], 'prefix-address', wit)


def run_ip_family(ctx: Ctx, afi: int, safi: int) -> None:
    from exabgp.bgp.message.update.nlri.qualifier import PathInfo

    run_spare_bits(ctx, afi, safi)
    descs = ip_descs(ctx, afi, safi)
    built = {}
    for d in descs:
        k = ip_desc_key(d)
        if k in built:
            continue
        try:
            x = build_ip(d)
        except Exception as e:  # noqa
            ctx.res.count('factory-refused:%s' % type(e).__name__)
            continue
        built[k] = (d, x)
        if (safi in (4, 128) and not d['labels']) or (safi == 128 and not d['rd']):
            # a labelled / VPN object without a label stack or RD only exists as a factory default; it is not a
            # value of the family (the wire form has no way to say "no label"), so it is not held to L1 here.
            # The text grammar can build the VPN one (rd without label): that one is exercised below.
            ctx.res.count('degenerate-factory-object-not-exercised')
            continue
        exercise_nlri(ctx, x, 'factory:from_cidr')
        # the other factories must give an equal object; equal objects are then held to L3 by the contract
        for how in ('make_route', 'from_settings'):
            try:
                x2 = build_ip(d, how)
            except Exception as e:  # noqa
                ctx.res.count(f'factory-refused:{how}:{type(e).__name__}')
                continue
            eq = check_eq_pair(ctx, x, x2, laws.nlri_label(x), {'class': laws.nlri_label(x), 'pair': f'from_cidr vs {how}', 'a': laws.safe_repr(x), 'b': laws.safe_repr(x2)})
            if eq is False:
                ctx.res.count('factories-disagree:' + how)
    # ---- text grammar
    if safi != 2:
        lines = []
        for k, (d, x) in built.items():
            line = ip_text_line(d)
            if line:
                lines.append((k, line))
        ctx.r.shuffle(lines)  # the grid is ordered by prefix: sample it rather than take its head
        lines = lines[: 400 * ctx.scale]
        for k, line, route in parse_routes(ctx, lines, [(afi, safi)]):
            t = route.nlri
            if fam_of(t) != (afi, safi):
                ctx.res.count('text-other-family')
                exercise_nlri(ctx, t, 'text', line)
                continue
            exercise_nlri(ctx, t, 'text', line)
            d, f = built[k]
            label = laws.nlri_label(t)
            eq = check_eq_pair(ctx, t, f, label, {'class': label, 'pair': 'text vs factory', 'text': line, 'a': laws.safe_repr(t), 'b': laws.safe_repr(f)})
            if eq is False:
                ctx.res.count('text-vs-factory-unequal:' + label)
                ctx.res.extra.setdefault('text_vs_factory_unequal', []).append(f'{line} -> {laws.safe_repr(t)} != {laws.safe_repr(f)}'[:240])
            # Route level: equal routes have equal indexes
            check_eq_pair(ctx, make_route(t), make_route(f), 'route:%s/%s' % fam_of(t), {'pair': 'Route(text) vs Route(factory)', 'text': line})
    # ---- label variants: equal by index, different bytes (the statement's hash clause)
    if safi in (4, 128):
        n = 0
        for k, (d, x) in list(built.items()):
            if not d['labels'] or n > 150 * ctx.scale:
                continue
            d2 = dict(d, labels=[(d['labels'][0] + 1) % (1 << 20)] + list(d['labels'][1:]))
            try:
                x2 = build_ip(d2)
            except Exception:  # noqa
                continue
            n += 1
            label = laws.nlri_label(x)
            eq = check_eq_pair(ctx, x, x2, label, {'class': label, 'pair': 'same prefix, different label', 'a': laws.safe_repr(x), 'b': laws.safe_repr(x2)})
            ctx.res.count('label-variant-equal' if eq else 'label-variant-unequal')
            check_eq_pair(ctx, make_route(x), make_route(x2), 'route:%s/%s' % fam_of(x), {'pair': 'Route, same prefix different label'})
    # ---- L4
    bits = 32 if afi == 1 else 128
    items = list(built.values())
    ctx.r.shuffle(items)
    for d, x in items[: 250 * ctx.scale]:
        wit = {'class': laws.nlri_label(x)}
        variants = []
        # family
        other_safi = {1: [2, 4], 2: [1], 4: [1, 128], 128: [4]}[safi]
        for s2 in other_safi:
            d2 = dict(d, safi=s2)
            if s2 in (1, 2):
                d2['labels'], d2['rd'] = None, None
            if s2 == 4:
                d2['rd'] = None
            variants.append(('family', d2))
        if d['mask'] <= 32:
            raw = d['ip'][:4] if afi == 2 else d['ip'] + bytes(12)
            if afi == 1 or host_bits_zero(d['ip'], 32) or True:
                variants.append(('family', dict(d, afi=3 - afi, ip=(d['ip'][:4] if afi == 2 else d['ip'] + bytes(12)))))
        # path identifier
        if d['pid'] is not None:
            for p2 in (0, 1, 0xFFFFFFFF, d['pid'] ^ 0x100):
                if p2 != d['pid']:
                    variants.append(('path-id', dict(d, pid=p2)))
        # prefix
        if d['mask'] > 0:
            bit = ctx.r.randrange(0, d['mask'])
            v = int.from_bytes(d['ip'], 'big') ^ (1 << (bits - 1 - bit))
            variants.append(('prefix-address', dict(d, ip=v.to_bytes(bits // 8, 'big'))))
        if d['mask'] < bits and host_bits_zero(d['ip'], d['mask']):
            variants.append(('prefix-mask', dict(d, mask=d['mask'] + 1)))
        if d['mask'] > 0 and host_bits_zero(d['ip'], d['mask'] - 1):
            variants.append(('prefix-mask', dict(d, mask=d['mask'] - 1)))
        if d['rd']:
            for rd2 in (RDS[1], RDS[3], bytes([d['rd'][0], d['rd'][1] ^ 1]) + d['rd'][2:], d['rd'][:7] + bytes([d['rd'][7] ^ 1])):
                if rd2 != d['rd']:
                    variants.append(('rd', dict(d, rd=rd2)))
        for what, d2 in variants:
            try:
                y = build_ip(d2)
            except Exception:  # noqa
                ctx.res.count('l4-variant-refused')
                continue
            check_l4_pair(ctx, x, y, what, wit)
        if d['labels']:
            try:
                y = build_ip(dict(d, labels=[d['labels'][0] ^ 1] + list(d['labels'][1:])))
                ctx.res.count('label-insensitive-index' if bytes(y.index()) == bytes(x.index()) else 'label-sensitive-index')
            except Exception:  # noqa
                pass
    # ---- adversarial: the index is a concatenation; a path-id spelled like a sentinel must not alias another route
    if safi in (4, 128):
        for sentinel in (b'no-pi', b'disabled'):
            pid = int.from_bytes(sentinel[:4], 'big')
            rest = sentinel[4:]
            for mask_a in range(0, bits + 1):
                ip_a = (int.from_bytes(b'\xa5' * (bits // 8), 'big') >> (bits - mask_a) << (bits - mask_a)).to_bytes(bits // 8, 'big') if mask_a else bytes(bits // 8)
                na = (mask_a + 7) // 8
                # B index = fam + pid + mask_b + ip_b ; A index = fam + sentinel + mask_a(+rd bits) + [rd] + ip_a
                rd = RDS[1] if safi == 128 else None
                mask_byte_a = mask_a + (64 if rd else 0)
                tail = rest[1:] + bytes([mask_byte_a]) + (rd or b'') + ip_a[:na]
                mask_byte_b = rest[0]
                if safi == 128:
                    if len(tail) < 8:
                        continue
                    rd_b, ipb = tail[:8], tail[8:]
                    mask_b = mask_byte_b - 64
                else:
                    rd_b, ipb = None, tail
                    mask_b = mask_byte_b
                if mask_b < 0 or mask_b > bits or (mask_b + 7) // 8 != len(ipb):
                    continue
                da = {'afi': afi, 'safi': safi, 'ip': ip_a, 'mask': mask_a, 'pid': 0 if sentinel == b'no-pi' else None, 'labels': [16], 'rd': rd}
                db = {'afi': afi, 'safi': safi, 'ip': ipb + bytes(bits // 8 - len(ipb)), 'mask': mask_b, 'pid': pid, 'labels': [16], 'rd': rd_b}
                try:
                    a, b = build_ip(da), build_ip(db)
                except Exception:  # noqa
                    continue
                check_l4_pair(ctx, a, b, 'path-id+prefix', {'class': laws.nlri_label(a), 'note': 'path identifier bytes spell the start of the %r sentinel' % sentinel.decode()})


# ============================================================================== other NLRI families: factories


def _rd(b: bytes):
    from exabgp.bgp.message.update.nlri.qualifier import RouteDistinguisher

    return RouteDistinguisher(b)


def _ip(s: str):
    from exabgp.protocol.ip import IP

    return IP.create_ip(ip_pton(s))


RD_SET = [RDS[1], RDS[2], RDS[3], RDS[4], RDS[6]]


def try_build(ctx: Ctx, name: str, fn):
    try:
        return fn()
    except Exception as e:  # noqa
        ctx.res.count(f'factory-refused:{name}:{type(e).__name__}')
        ctx.res.extra.setdefault('factory_refused', []).append(f'{name}: {type(e).__name__}: {str(e)[:120]}')
        return None


def rd_l4(ctx: Ctx, name: str, build) -> None:
    """build(rd_bytes) -> NLRI; objects which differ in the RD only must not share an index"""
    base = try_build(ctx, name, lambda: build(RD_SET[0]))
    if base is None:
        return
    for rd in RD_SET[1:] + [RD_SET[0][:7] + b'\x02']:
        other = try_build(ctx, name, lambda: build(rd))
        if other is not None:
            check_l4_pair(ctx, base, other, 'rd', {'class': laws.nlri_label(base), 'factory': name})


def evpn_objects(ctx: Ctx) -> list:
    from exabgp.bgp.message.update.nlri.evpn.ethernetad import EthernetAD
    from exabgp.bgp.message.update.nlri.evpn.mac import MAC
    from exabgp.bgp.message.update.nlri.evpn.multicast import Multicast
    from exabgp.bgp.message.update.nlri.evpn.prefix import Prefix
    from exabgp.bgp.message.update.nlri.evpn.segment import EthernetSegment
    from exabgp.bgp.message.update.nlri.qualifier import ESI, EthernetTag, Labels
    from exabgp.bgp.message.update.nlri.qualifier import MAC as MACQ

    out = []
    esis = [ESI.make_default(), ESI.make_esi(b'\xff' * 10), ESI.make_esi(bytes(range(1, 11)))]
    etags = [EthernetTag.make_etag(0), EthernetTag.make_etag(0xFFFFFFFF), EthernetTag.make_etag(100)]
    macs = [MACQ('00:00:00:00:00:00'), MACQ('ff:ff:ff:ff:ff:ff'), MACQ('00:11:22:33:44:55')]
    labs = [Labels.make_labels([0]), Labels.make_labels([1048575]), Labels.make_labels([16, 17]), None]
    ips = [None, _ip('10.1.2.3'), _ip('2001:db8::1'), _ip('0.0.0.0'), _ip('255.255.255.255')]
    for rd in RD_SET[:3]:
        for esi in esis:
            for et in etags:
                for lab in labs:
                    out.append(('make_ethernetad', lambda rd=rd, esi=esi, et=et, lab=lab: EthernetAD.make_ethernetad(_rd(rd), esi, et, lab)))
                    for ip in ips[:3]:
                        if lab is None:
                            continue  # a MAC/IP route without a label is a factory default, not a value of the type
                        out.append(('make_mac', lambda rd=rd, esi=esi, et=et, lab=lab, ip=ip: MAC.make_mac(_rd(rd), esi, et, macs[2], 48, lab, ip)))
        for mac in macs:
            for ml in (0, 1, 48):
                out.append(('make_mac', lambda rd=rd, mac=mac, ml=ml: MAC.make_mac(_rd(rd), esis[0], etags[0], mac, ml, labs[0], ips[1])))
        for et in etags:
            for ip in ips[1:]:
                out.append(('make_multicast', lambda rd=rd, et=et, ip=ip: Multicast.make_multicast(_rd(rd), et, ip)))
        for esi in esis:
            for ip in ips[1:]:
                out.append(('make_ethernetsegment', lambda rd=rd, esi=esi, ip=ip: EthernetSegment.make_ethernetsegment(_rd(rd), esi, ip)))
        for ip, ln, gw in (('10.1.2.0', 24, '10.0.0.1'), ('0.0.0.0', 0, '0.0.0.0'), ('10.1.2.3', 32, '255.255.255.255'), ('2001:db8::', 32, '2001:db8::1'), ('::', 0, '::'), ('2001:db8::1', 128, '::1')):
            for lab in labs[:2]:  # a type 5 route carries exactly one label
                out.append(('make_prefix', lambda rd=rd, ip=ip, ln=ln, gw=gw, lab=lab: Prefix.make_prefix(_rd(rd), esis[0], etags[2], lab, _ip(ip), ln, _ip(gw))))
    return out


def run_evpn(ctx: Ctx) -> None:
    from exabgp.bgp.message.update.nlri.evpn.ethernetad import EthernetAD
    from exabgp.bgp.message.update.nlri.evpn.mac import MAC
    from exabgp.bgp.message.update.nlri.evpn.multicast import Multicast
    from exabgp.bgp.message.update.nlri.evpn.prefix import Prefix
    from exabgp.bgp.message.update.nlri.evpn.segment import EthernetSegment
    from exabgp.bgp.message.update.nlri.qualifier import ESI, EthernetTag, Labels
    from exabgp.bgp.message.update.nlri.qualifier import MAC as MACQ

    for name, fn in evpn_objects(ctx):
        x = try_build(ctx, name, fn)
        if x is not None:
            exercise_nlri(ctx, x, 'factory:' + name)
    esi, et, lab, mac = ESI.make_default(), EthernetTag.make_etag(7), Labels.make_labels([16]), MACQ('00:11:22:33:44:55')
    rd_l4(ctx, 'make_ethernetad', lambda rd: EthernetAD.make_ethernetad(_rd(rd), esi, et, lab))
    rd_l4(ctx, 'make_mac', lambda rd: MAC.make_mac(_rd(rd), esi, et, mac, 48, lab, _ip('10.1.2.3')))
    rd_l4(ctx, 'make_multicast', lambda rd: Multicast.make_multicast(_rd(rd), et, _ip('10.1.2.3')))
    rd_l4(ctx, 'make_ethernetsegment', lambda rd: EthernetSegment.make_ethernetsegment(_rd(rd), esi, _ip('10.1.2.3')))
    rd_l4(ctx, 'make_prefix', lambda rd: Prefix.make_prefix(_rd(rd), esi, et, lab, _ip('10.1.2.0'), 24, _ip('10.0.0.1')))
    # prefix (type 5): address and length
    mk = lambda ip, ln: Prefix.make_prefix(_rd(RD_SET[0]), esi, et, lab, _ip(ip), ln, _ip('10.0.0.1' if ':' not in ip else '::1'))  # noqa: E731
    for (a, b, what) in ((('10.1.2.0', 24), ('10.1.3.0', 24), 'prefix-address'), (('10.1.2.0', 24), ('10.1.2.0', 25), 'prefix-mask'), (('2001:db8::', 32), ('2001:db9::', 32), 'prefix-address'), (('::', 0), ('::', 1), 'prefix-mask')):
        xa, xb = try_build(ctx, 'make_prefix', lambda: mk(*a)), try_build(ctx, 'make_prefix', lambda: mk(*b))
        if xa is not None and xb is not None:
            check_l4_pair(ctx, xa, xb, what, {'class': 'nlri:l2vpn/evpn', 'factory': 'make_prefix'})
    # equal by ==, different bytes: MAC/IP routes which differ in ESI or label (the class says they are the same route)
    for what, a, b in (
        ('esi', MAC.make_mac(_rd(RD_SET[0]), esi, et, mac, 48, lab, None), MAC.make_mac(_rd(RD_SET[0]), ESI.make_esi(b'\x01' * 10), et, mac, 48, lab, None)),
        ('label', MAC.make_mac(_rd(RD_SET[0]), esi, et, mac, 48, lab, None), MAC.make_mac(_rd(RD_SET[0]), esi, et, mac, 48, Labels.make_labels([17]), None)),
        ('label', EthernetAD.make_ethernetad(_rd(RD_SET[0]), esi, et, lab), EthernetAD.make_ethernetad(_rd(RD_SET[0]), esi, et, Labels.make_labels([17]))),
        ('label', mk('10.1.2.0', 24), Prefix.make_prefix(_rd(RD_SET[0]), esi, et, Labels.make_labels([17]), _ip('10.1.2.0'), 24, _ip('10.0.0.1'))),
        ('gateway', mk('10.1.2.0', 24), Prefix.make_prefix(_rd(RD_SET[0]), esi, et, lab, _ip('10.1.2.0'), 24, _ip('10.0.0.2'))),
    ):
        eq = check_eq_pair(ctx, a, b, 'nlri:l2vpn/evpn', {'class': 'nlri:l2vpn/evpn', 'pair': f'same route key, different {what}', 'a': laws.safe_repr(a), 'b': laws.safe_repr(b)})
        ctx.res.count(f'evpn-{what}-variant-{"equal" if eq else "unequal"}')
        check_eq_pair(ctx, make_route(a), make_route(b), 'route:l2vpn/evpn', {'pair': f'Route, same EVPN key different {what}'})


def run_vpls(ctx: Ctx) -> None:
    from exabgp.bgp.message.update.nlri.settings import VPLSSettings
    from exabgp.bgp.message.update.nlri.vpls import VPLS

    for rd in RD_SET:
        for ep in (0, 1, 65535):
            for base in (0, 3, 16, 1048575):
                for off, size in ((0, 0), (1, 8), (65535, 65535)):
                    x = try_build(ctx, 'make_vpls', lambda: VPLS.make_vpls(_rd(rd), ep, base, off, size))
                    if x is None:
                        continue
                    exercise_nlri(ctx, x, 'factory:make_vpls')

                    def via_settings():
                        s = VPLSSettings()
                        s.rd, s.endpoint, s.base, s.offset, s.size = _rd(rd), ep, base, off, size
                        s.nexthop = _ip('1.2.3.4')
                        return VPLS.from_settings(s)

                    x2 = try_build(ctx, 'vpls.from_settings', via_settings)
                    if x2 is not None:
                        check_eq_pair(ctx, x, x2, 'nlri:l2vpn/vpls', {'class': 'nlri:l2vpn/vpls', 'pair': 'make_vpls vs from_settings'})
    rd_l4(ctx, 'make_vpls', lambda rd: VPLS.make_vpls(_rd(rd), 1, 16, 1, 8))


def run_rtc(ctx: Ctx) -> None:
    from exabgp.bgp.message.open.asn import ASN
    from exabgp.bgp.message.update.attribute.community.extended.rt import RouteTargetASN2Number, RouteTargetASN4Number, RouteTargetIPNumber
    from exabgp.bgp.message.update.nlri.rtc import RTC

    rts = [None]
    for tr in (True, False):
        rts += [
            lambda tr=tr: RouteTargetASN2Number.make_route_target(ASN(65000), 1, tr),
            lambda tr=tr: RouteTargetASN2Number.make_route_target(ASN(0), 0, tr),
            lambda tr=tr: RouteTargetASN2Number.make_route_target(ASN(65535), 0xFFFFFFFF, tr),
            lambda tr=tr: RouteTargetIPNumber.make_route_target('1.2.3.4', 5, tr),
            lambda tr=tr: RouteTargetIPNumber.make_route_target('255.255.255.255', 65535, tr),
            lambda tr=tr: RouteTargetASN4Number.make_route_target(ASN(70000), 1, tr),
            lambda tr=tr: RouteTargetASN4Number.make_route_target(ASN(4294967295), 65535, tr),
        ]
    objs = []
    for origin in (0, 1, 65000, 70000, 4294967295):
        for rt in rts:
            x = try_build(ctx, 'make_rtc', lambda: RTC.make_rtc(ASN(origin), rt() if rt else None))
            if x is not None:
                exercise_nlri(ctx, x, 'factory:make_rtc')
                objs.append((origin, rt, x))
    # RTC "prefix" = origin AS + route target
    a = RTC.make_rtc(ASN(65000), RouteTargetASN2Number.make_route_target(ASN(65000), 1))
    for b, what in ((RTC.make_rtc(ASN(65001), RouteTargetASN2Number.make_route_target(ASN(65000), 1)), 'prefix-address'), (RTC.make_rtc(ASN(65000), RouteTargetASN2Number.make_route_target(ASN(65000), 2)), 'prefix-address'), (RTC.make_rtc(ASN(65000), None), 'prefix-mask')):
        check_l4_pair(ctx, a, b, what, {'class': 'nlri:ipv4/rtc', 'factory': 'make_rtc'})


def run_mvpn(ctx: Ctx) -> None:
    from exabgp.bgp.message.update.nlri.mvpn.sharedjoin import SharedJoin
    from exabgp.bgp.message.update.nlri.mvpn.sourcead import SourceAD
    from exabgp.bgp.message.update.nlri.mvpn.sourcejoin import SourceJoin
    from exabgp.protocol.family import AFI

    for afi, s, g in ((AFI.ipv4, '10.1.2.3', '232.1.1.1'), (AFI.ipv4, '0.0.0.0', '255.255.255.255'), (AFI.ipv6, '2001:db8::1', 'ff0e::1'), (AFI.ipv6, '::', 'ffff:ffff:ffff:ffff:ffff:ffff:ffff:ffff')):
        for rd in RD_SET:
            x = try_build(ctx, 'make_sourcead', lambda: SourceAD.make_sourcead(_rd(rd), afi, _ip(s), _ip(g)))
            if x is not None:
                exercise_nlri(ctx, x, 'factory:make_sourcead')
            for asn in (0, 65000, 4294967295):
                for name, k in (('make_sourcejoin', SourceJoin.make_sourcejoin), ('make_sharedjoin', SharedJoin.make_sharedjoin)):
                    x = try_build(ctx, name, lambda: k(_rd(rd), afi, _ip(s), _ip(g), asn))
                    if x is not None:
                        exercise_nlri(ctx, x, 'factory:' + name)
        rd_l4(ctx, 'make_sourcead', lambda rd: SourceAD.make_sourcead(_rd(rd), afi, _ip(s), _ip(g)))
        rd_l4(ctx, 'make_sourcejoin', lambda rd: SourceJoin.make_sourcejoin(_rd(rd), afi, _ip(s), _ip(g), 65000))
        rd_l4(ctx, 'make_sharedjoin', lambda rd: SharedJoin.make_sharedjoin(_rd(rd), afi, _ip(s), _ip(g), 65000))
    a = SourceAD.make_sourcead(_rd(RD_SET[0]), AFI.ipv4, _ip('10.1.2.3'), _ip('232.1.1.1'))
    b = SourceAD.make_sourcead(_rd(RD_SET[0]), AFI.ipv6, _ip('10.1.2.3'), _ip('232.1.1.1'))
    check_l4_pair(ctx, a, b, 'family', {'class': 'nlri:ipv4/mcast-vpn', 'factory': 'make_sourcead'})


def run_mup(ctx: Ctx) -> None:
    from exabgp.bgp.message.update.nlri.mup.dsd import DirectSegmentDiscoveryRoute as DSD
    from exabgp.bgp.message.update.nlri.mup.isd import InterworkSegmentDiscoveryRoute as ISD
    from exabgp.bgp.message.update.nlri.mup.t1st import Type1SessionTransformedRoute as T1
    from exabgp.bgp.message.update.nlri.mup.t2st import Type2SessionTransformedRoute as T2
    from exabgp.protocol.family import AFI

    for afi, ip, ln, ep in ((AFI.ipv4, '10.1.2.0', 24, '10.9.9.9'), (AFI.ipv4, '0.0.0.0', 0, '0.0.0.0'), (AFI.ipv4, '10.1.2.3', 32, '255.255.255.255'), (AFI.ipv6, '2001:db8::', 32, '2001:db8::9'), (AFI.ipv6, '::', 0, '::'), (AFI.ipv6, '2001:db8::1', 128, '2001:db8::9')):
        v6 = afi == AFI.ipv6
        full = 128 if v6 else 32
        for rd in RD_SET[:3]:
            for name, fn in (
                ('make_dsd', lambda: DSD.make_dsd(_rd(rd), _ip(ep), afi)),
                ('make_isd', lambda: ISD.make_isd(_rd(rd), ln, _ip(ip), afi)),
                ('make_t1st', lambda: T1.make_t1st(_rd(rd), ln, _ip(ip), 12345, 9, full, _ip(ep), 0, b'', afi)),
                ('make_t1st', lambda: T1.make_t1st(_rd(rd), ln, _ip(ip), 0, 0, full, _ip(ep), full, _ip(ep), afi)),
                ('make_t1st', lambda: T1.make_t1st(_rd(rd), ln, _ip(ip), 0xFFFFFFFF, 255, full, _ip(ep), 0, b'', afi)),
                ('make_t2st', lambda: T2.make_t2st(_rd(rd), full, _ip(ep), 0, afi)),
                ('make_t2st', lambda: T2.make_t2st(_rd(rd), full + 32, _ip(ep), 0xFFFFFFFF, afi)),
                ('make_t2st', lambda: T2.make_t2st(_rd(rd), full + 8, _ip(ep), 0xAB, afi)),
            ):
                x = try_build(ctx, name, fn)
                if x is not None:
                    exercise_nlri(ctx, x, 'factory:' + name)
        rd_l4(ctx, 'make_dsd', lambda rd: DSD.make_dsd(_rd(rd), _ip(ep), afi))
        rd_l4(ctx, 'make_isd', lambda rd: ISD.make_isd(_rd(rd), ln, _ip(ip), afi))
        rd_l4(ctx, 'make_t1st', lambda rd: T1.make_t1st(_rd(rd), ln, _ip(ip), 1, 1, full, _ip(ep), 0, b'', afi))
        rd_l4(ctx, 'make_t2st', lambda rd: T2.make_t2st(_rd(rd), full, _ip(ep), 0, afi))
    for a, b, what in ((('10.1.2.0', 24), ('10.1.3.0', 24), 'prefix-address'), (('10.1.2.0', 24), ('10.1.2.0', 25), 'prefix-mask'), (('0.0.0.0', 0), ('0.0.0.0', 1), 'prefix-mask')):
        xa = try_build(ctx, 'make_isd', lambda: ISD.make_isd(_rd(RD_SET[0]), a[1], _ip(a[0]), AFI.ipv4))
        xb = try_build(ctx, 'make_isd', lambda: ISD.make_isd(_rd(RD_SET[0]), b[1], _ip(b[0]), AFI.ipv4))
        if xa is not None and xb is not None:
            check_l4_pair(ctx, xa, xb, what, {'class': 'nlri:ipv4/mup', 'factory': 'make_isd'})
        xa = try_build(ctx, 'make_t1st', lambda: T1.make_t1st(_rd(RD_SET[0]), a[1], _ip(a[0]), 1, 1, 32, _ip('10.9.9.9'), 0, b'', AFI.ipv4))
        xb = try_build(ctx, 'make_t1st', lambda: T1.make_t1st(_rd(RD_SET[0]), b[1], _ip(b[0]), 1, 1, 32, _ip('10.9.9.9'), 0, b'', AFI.ipv4))
        if xa is not None and xb is not None:
            check_l4_pair(ctx, xa, xb, what, {'class': 'nlri:ipv4/mup', 'factory': 'make_t1st'})
    # T1ST: same prefix, different TEID/QFI/endpoint: the class decides; equal objects are held to L3 by the contract
    xa = try_build(ctx, 'make_t1st', lambda: T1.make_t1st(_rd(RD_SET[0]), 24, _ip('10.1.2.0'), 1, 1, 32, _ip('10.9.9.9'), 0, b'', AFI.ipv4))
    xb = try_build(ctx, 'make_t1st', lambda: T1.make_t1st(_rd(RD_SET[0]), 24, _ip('10.1.2.0'), 2, 3, 32, _ip('10.9.9.8'), 0, b'', AFI.ipv4))
    if xa is not None and xb is not None:
        eq = check_eq_pair(ctx, xa, xb, 'nlri:ipv4/mup', {'class': 'nlri:ipv4/mup', 'pair': 'T1ST same prefix, different teid/qfi/endpoint', 'a': laws.safe_repr(xa), 'b': laws.safe_repr(xb)})
        ctx.res.count('mup-t1st-variant-' + ('equal' if eq else 'unequal'))


def run_srpolicy(ctx: Ctx) -> None:
    from exabgp.bgp.message.update.nlri.sr_policy import SRPolicyNLRI
    from exabgp.protocol.family import AFI

    for afi, eps in ((AFI.ipv4, ('0.0.0.0', '10.1.2.3', '255.255.255.255')), (AFI.ipv6, ('::', '2001:db8::1', 'ffff:ffff:ffff:ffff:ffff:ffff:ffff:ffff'))):
        for dist in (0, 1, 0xFFFFFFFF):
            for color in (0, 100, 0xFFFFFFFF):
                for ep in eps:
                    x = try_build(ctx, 'srpolicy.create', lambda: SRPolicyNLRI.create(afi, dist, color, ep))
                    if x is not None:
                        exercise_nlri(ctx, x, 'factory:create')
        a = SRPolicyNLRI.create(afi, 1, 100, eps[1])
        check_l4_pair(ctx, a, SRPolicyNLRI.create(afi, 2, 100, eps[1]), 'rd', {'class': laws.nlri_label(a), 'note': 'distinguisher'})
        check_l4_pair(ctx, a, SRPolicyNLRI.create(afi, 1, 100, eps[2]), 'prefix-address', {'class': laws.nlri_label(a), 'note': 'endpoint'})


FLOW_MATCH = [
    'destination 10.0.0.0/24;', 'destination 0.0.0.0/0;', 'destination 10.1.2.3/32;', 'source 10.0.0.0/8;', 'source 10.0.0.1/32; destination 10.0.0.2/32;',
    'port =80;', 'port [ =80 =8080 ];', 'destination-port [ >8080&<8088 =3128 ];', 'source-port >1024;', 'source-port [ =0 =65535 ];',
    'protocol tcp;', 'protocol [ udp tcp ];', 'protocol [ !=tcp ];', 'packet-length [ >200&<300 >400&<500 ];', 'packet-length =65535;', 'dscp 10;', 'dscp [ =0 =63 ];',
    'icmp-type echo-request;', 'icmp-code [ =0 =255 ];', 'fragment [ last-fragment ];', 'fragment [ dont-fragment is-fragment first-fragment ];',
    'tcp-flags [ syn ];', 'tcp-flags [ fin&push =ack !rst ];', 'port [ >=1&<=65535 ];', 'destination 192.168.0.0/16; port =80; protocol tcp; tcp-flags [ syn ];',
]
FLOW6_MATCH = [
    'destination 2001:db8::/32;', 'source ::1/128/120;', 'destination 2a02:b80:15::7aca:39ff:feae:a87a/128/0;', 'destination ::/0;', 'source 2001:db8:1::/48; next-header udp;',
    'source 2001:db8:1::/48; traffic-class 101;', 'source 2001:db8:1::/48; flow-label 2013;', 'source 2001:db8:1::/48; flow-label [ =0 =1048575 ];', 'source 2001:db8::/64/32; next-header tcp; port =80;',
]


def flow_text(matches: list, rd: str | None = None) -> str:
    out = ['flow {']
    for i, m in enumerate(matches):
        out.append('  route f%d { %s match { %s } then { discard; } }' % (i, f'rd {rd};' if rd else '', m))
    out.append('}')
    return '\n'.join(out)


def run_flow(ctx: Ctx) -> None:
    def load(matches, rd, fams):
        routes = []
        for m in matches:
            try:
                conf = exa.load_config(exa.neighbor_text(families=fams, body=flow_text([m], rd)))
                routes.extend((m, r) for r in list(conf.neighbors.values())[0].routes)
            except Exception as e:  # noqa
                ctx.res.count('text-refused')
                ctx.res.extra.setdefault('text_refused', []).append((m + ' => ' + str(e).strip().split('\n')[-1])[:200])
        return routes

    long_ports = 'port [ %s ];' % ' '.join('=%d' % (1000 + i) for i in range(90))  # 90 * 3 bytes > 255: extended length form
    mid_ports = 'port [ %s ];' % ' '.join('=%d' % (1000 + i) for i in range(79))  # 239..240 bytes: the length form boundary
    mid2_ports = 'port [ %s ];' % ' '.join('=%d' % (1000 + i) for i in range(80))
    # every NLRI length from 232 to 244 octets (the one / two octet length form switches at 240): 3n+1 octets of ports plus a prefix
    around = []
    for n in (77, 78, 79):
        for dst in ('', 'destination 10.0.0.0/8; ', 'destination 10.1.0.0/16; ', 'destination 10.1.2.0/24; ', 'destination 10.1.2.3/32; '):
            around.append(dst + 'port [ %s ];' % ' '.join('=%d' % (1000 + i) for i in range(n)))
    sets = [
        (FLOW_MATCH + [long_ports, mid_ports, mid2_ports] + around, None, [(1, 133)]),
        (FLOW_MATCH[:12] + [long_ports], '65000:1', [(1, 134)]),
        (FLOW6_MATCH, None, [(2, 133)]),
        (FLOW6_MATCH[:5], '1.2.3.4:5', [(2, 134)]),
    ]
    for matches, rd, fams in sets:
        for m, r in load(matches, rd, fams):
            exercise_nlri(ctx, r.nlri, 'text', 'flow route { %smatch { %s } }' % (f'rd {rd}; ' if rd else '', m))
            ctx.res.count('flow-nlri-length-%d' % len(bytes(r.nlri.pack_nlri(ctx.sessions['plain']))) if 235 <= len(bytes(r.nlri.pack_nlri(ctx.sessions['plain']))) <= 250 else 'flow-nlri-length-other')
            ctx.res.count('flow-nlri-bytes-%s' % ('>=256' if len(bytes(r.nlri.pack_nlri(ctx.sessions['plain']))) > 257 else ('>=240' if len(bytes(r.nlri.pack_nlri(ctx.sessions['plain']))) > 240 else '<240')))
    # L4: RD (flow-vpn) and destination prefix
    for fams, m in (([(1, 134)], 'destination 10.0.0.0/24;'), ([(2, 134)], 'destination 2001:db8::/32;')):
        got = [load([m], rd, fams) for rd in ('65000:1', '65000:2', '1.2.3.4:1', '70000:1')]
        got = [g[0][1].nlri for g in got if g]
        for o in got[1:]:
            check_l4_pair(ctx, got[0], o, 'rd', {'class': laws.nlri_label(got[0]), 'text': m})
    for fams, ms in (([(1, 133)], ('destination 10.0.0.0/24;', 'destination 10.0.1.0/24;', 'destination 10.0.0.0/25;')), ([(2, 133)], ('destination 2001:db8::/32;', 'destination 2001:db9::/32;', 'destination 2001:db8::/33;'))):
        got = [load([m], None, fams) for m in ms]
        got = [g[0][1].nlri for g in got if g]
        if len(got) == 3:
            check_l4_pair(ctx, got[0], got[1], 'prefix-address', {'class': laws.nlri_label(got[0]), 'text': ms[1]})
            check_l4_pair(ctx, got[0], got[2], 'prefix-mask', {'class': laws.nlri_label(got[0]), 'text': ms[2]})
    # family: the same rule as flow and flow-vpn
    a = load(['destination 10.0.0.0/24;'], None, [(1, 133)])
    b = load(['destination 10.0.0.0/24;'], '0:0', [(1, 134)])
    if a and b:
        check_l4_pair(ctx, a[0][1].nlri, b[0][1].nlri, 'family', {'class': 'nlri:ipv4/flow'})


def run_other_nlri(ctx: Ctx, which=None) -> None:
    runs = {'evpn': run_evpn, 'vpls': run_vpls, 'rtc': run_rtc, 'mvpn': run_mvpn, 'mup': run_mup, 'srpolicy': run_srpolicy, 'flow': run_flow}
    for name, fn in runs.items():
        if which and name not in which:
            continue
        try:
            fn(ctx)
        except Exception as e:  # noqa
            import traceback

            ctx.res.inconclusive.append(f'generator {name} failed: {type(e).__name__}: {e} {traceback.format_exc()[-300:]}')


# ============================================================================== attributes


def attr_label_of(a) -> str:
    code = int(a.ID)
    return 'attr:%d' % code if type(a).__name__ != 'GenericAttribute' else 'attr:generic'


def attr_sessions(ctx: Ctx, code: int) -> list:
    out = [('plain', ctx.sessions['plain'])]
    if code in (2, 7, 17, 18):
        out.append(('asn2', ctx.sessions['asn2']))
    return out


def decode_attr_bytes(b: bytes, code: int, neg):
    """attribute bytes produced by pack_attribute -> the decoded attribute of that code (production decoders)"""
    return laws.decode_attr_any(b, code, neg)


def exercise_attr(ctx: Ctx, a, src: str, text: str | None = None) -> None:
    code = int(a.ID)
    label = attr_label_of(a)
    if len(ctx.pool.setdefault(label, [])) < 300:
        ctx.pool[label].append(a)
    if label == 'attr:generic' and code in ctx.reg['attr']:
        # `attribute [ 0x20 0xc0 0x... ]`: the generic syntax used for a code ExaBGP knows decodes as the typed
        # attribute; the project's own self check (check_generation) whitelists exactly this, so it is logged
        ctx.res.count('generic-syntax-for-known-code:%d' % code)
        return
    if label == 'attr:generic' and not int(a.FLAG) & 0x20:
        # RFC 4271 9: an unrecognised optional transitive attribute is passed on with the Partial bit set, and
        # ExaBGP sets it when it decodes one; the law is asked of the attribute as it exists after that step
        from exabgp.bgp.message.update.attribute.generic import GenericAttribute

        ctx.res.count('generic-attribute-partial-bit-normalised')
        a = GenericAttribute.make_generic(code, int(a.FLAG) | 0x20, bytes(a._packed))
    if label == 'attr:generic' and len(bytes(a._packed)) > 255 and not int(a.FLAG) & 0x10:
        from exabgp.bgp.message.update.attribute.generic import GenericAttribute

        a = GenericAttribute.make_generic(code, int(a.FLAG) | 0x10, bytes(a._packed))  # the length form is part of the flag
    for sname, neg in attr_sessions(ctx, code):
        wit = {'class': label, 'type': type(a).__name__, 'source': src, 'session': sname, 'object': laws.safe_repr(a)}
        if text:
            wit['text'] = text[:400]
        before = M.ticks
        try:
            with laws.armed():
                b = bytes(a.pack_attribute(neg))
        except LawViolation as v:
            ctx.law(v, wit)
            l5_only_attr(ctx, a, label, code, sname, neg, wit)
            continue
        except NotImplementedError:
            ctx.res.count('pack_attribute-not-implemented:' + label)
            return
        except Exception as e:  # noqa
            ctx.bad(f'C15/raises:{label}:{type(e).__name__}', f'pack_attribute raises {type(e).__name__}: {str(e)[:160]}', wit, label, 'L1')
            continue
        if not b:
            ctx.res.count('attr-not-sent:' + label)
            continue
        if M.ticks == before:
            ctx.res.count('contract-not-evaluated:' + label)
            ok, what, w2 = laws.check_l1_attr(a, neg, b)
            if not ok:
                key = f'C15/raises:{label}:{w2["raises"]}' if 'raises' in w2 else f'C15/roundtrip-attr:{code}{laws.attr_key_suffix(code, neg)}'
                ctx.bad(key, what, dict(wit, **w2), label, 'L1')
                continue
        wit['bytes'] = hx(b)
        ctx.ok(label, 'L1', (label, 'L1', sname, hx(b)))
        # ---- L2
        try:
            y = decode_attr_bytes(b, code, neg)
            b2 = bytes(y.pack_attribute(neg))
        except Exception as e:  # noqa
            ctx.bad(f'C15/raises:{label}:{type(e).__name__}', f're-encoding the decoded attribute raises {type(e).__name__}: {str(e)[:160]}', wit, label, 'L2')
            continue
        if b2 != b:
            ctx.bad('C15/reencode-differs:' + label + laws.attr_key_suffix(code, neg), f'encode(decode(b)) != b for b produced by ExaBGP: {hx(b)[:120]} -> {hx(b2)[:120]}', dict(wit, reencoded=hx(b2)), label, 'L2')
        else:
            ctx.ok(label, 'L2', (label, 'L2', sname, hx(b)))
        # ---- L3
        check_eq_pair(ctx, a, y, label, dict(wit, pair=f'{src} vs decode'))
        attr_wire_neighbours(ctx, y, b, code, neg, label, src, sname)
        # ---- L5
        key = (label, sname, b)
        if key not in ctx.seen:
            ctx.seen.add(key)
            check_l5(ctx, label, lambda: decode_attr_bytes(b, code, neg), wit, case_id(label, sname, b))


def attr_wire_neighbours(ctx: Ctx, y, b: bytes, code: int, neg, label: str, src: str, sname: str) -> None:
    """every attribute one VALUE octet away from b which still decodes to the same class is held against y: equal means same
    hash (L3).  Neighbours which compare equal although they encode differently are counted (an __eq__ which leaves a field
    out is what makes a RIB skip a re-announcement), not judged: the property does not ask for it"""
    k = label + '/' + type(y).__name__
    n = ctx.neigh.get('attr:' + k, 0)
    if n >= 2 * ctx.scale or len(b) > 96:
        return
    ctx.neigh['attr:' + k] = n + 1
    head = 4 if b[0] & 0x10 else 3
    seen = set()
    for i in range(head, len(b)):
        for op in range(4):
            m = bytearray(b)
            m[i] = (m[i] ^ 1, m[i] ^ 0x80, (m[i] + 1) & 0xFF, 0)[op]
            mb = bytes(m)
            if mb == b or mb in seen:
                continue
            seen.add(mb)
            try:
                y2 = decode_attr_bytes(mb, code, neg)
                b2 = bytes(y2.pack_attribute(neg))
            except Exception:  # noqa
                ctx.res.count('attr-neighbour:not-decodable')
                continue
            if type(y2) is not type(y):
                ctx.res.count('attr-neighbour:other')
                continue
            wit = {'class': label, 'type': type(y).__name__, 'source': src, 'session': sname, 'pair': f'decoded vs the same octets with octet {i} changed', 'a_bytes': hx(b), 'b_bytes': hx(mb), 'a': laws.safe_repr(y), 'b': laws.safe_repr(y2)}
            eq = check_eq_pair(ctx, y, y2, label, wit)
            ctx.res.count('attr-neighbour:' + ('equal' if eq else 'distinct'))
            if eq and b2 != bytes(y.pack_attribute(neg)):
                ctx.res.count('attr-neighbour:equal-but-encodes-differently:' + k)
                ctx.res.extra.setdefault('equal_but_encodes_differently', {}).setdefault(k, f'{hx(b)} == {hx(mb)}')
            ctx.res.ok('attr-neighbour', (k, i, op) if n == 0 else None)


def attr_factory_objects(ctx: Ctx) -> list:
    from exabgp.bgp.message.open.asn import ASN
    from exabgp.bgp.message.update.attribute.aggregator import Aggregator, Aggregator4
    from exabgp.bgp.message.update.attribute.aigp import AIGP
    from exabgp.bgp.message.update.attribute.aspath import AS4Path, ASPath, CONFED_SEQUENCE, CONFED_SET, SEQUENCE, SET
    from exabgp.bgp.message.update.attribute.atomicaggregate import AtomicAggregate
    from exabgp.bgp.message.update.attribute.clusterlist import ClusterID, ClusterList
    from exabgp.bgp.message.update.attribute.community.extended.communities import ExtendedCommunities, ExtendedCommunitiesIPv6
    from exabgp.bgp.message.update.attribute.community.extended.community import ExtendedCommunity, ExtendedCommunityIPv6
    from exabgp.bgp.message.update.attribute.community.initial.communities import Communities
    from exabgp.bgp.message.update.attribute.community.initial.community import Community
    from exabgp.bgp.message.update.attribute.community.large.communities import LargeCommunities
    from exabgp.bgp.message.update.attribute.community.large.community import LargeCommunity
    from exabgp.bgp.message.update.attribute.generic import GenericAttribute
    from exabgp.bgp.message.update.attribute.localpref import LocalPreference
    from exabgp.bgp.message.update.attribute.med import MED
    from exabgp.bgp.message.update.attribute.nexthop import NextHop
    from exabgp.bgp.message.update.attribute.origin import Origin
    from exabgp.bgp.message.update.attribute.originatorid import OriginatorID
    from exabgp.bgp.message.update.attribute.pmsi import PMSI, PMSIIngressReplication, PMSINoTunnel
    from exabgp.bgp.message.update.attribute.sr.labelindex import SrLabelIndex
    from exabgp.bgp.message.update.attribute.sr.prefixsid import PrefixSid
    from exabgp.bgp.message.update.attribute.sr.srgb import SrGb
    from exabgp.protocol.ip import IPv4

    r = ctx.r
    U32 = [0, 1, 100, 0x7FFFFFFF, 0xFFFFFFFF]
    out = []
    add = lambda name, fn: out.append((name, fn))  # noqa: E731
    for v in (0, 1, 2):
        add('Origin.from_int', lambda v=v: Origin.from_int(v))
    for v in U32 + [r.getrandbits(32) for _ in range(3 * ctx.scale)]:
        add('MED.from_int', lambda v=v: MED.from_int(v))
        add('LocalPreference.from_int', lambda v=v: LocalPreference.from_int(v))
    for v in (0, 1, 77, 2**32, 2**64 - 1, r.getrandbits(64)):
        add('AIGP.from_int', lambda v=v: AIGP.from_int(v))
    for ip in ('0.0.0.0', '1.2.3.4', '255.255.255.255', '2001:db8::1'):
        add('NextHop.from_string', lambda ip=ip: NextHop.from_string(ip))
    for ip in ('0.0.0.0', '9.9.9.9', '255.255.255.255'):
        add('OriginatorID.from_string', lambda ip=ip: OriginatorID.from_string(ip))
    add('AtomicAggregate.make', lambda: AtomicAggregate.make_atomic_aggregate())
    for asn in (0, 1, 65000, 65535, 23456, 65536, 70000, 4294967295):
        for ip in ('0.0.0.0', '1.2.3.4', '255.255.255.255'):
            add('Aggregator.make_aggregator', lambda asn=asn, ip=ip: Aggregator.make_aggregator(ASN(asn), IPv4.from_string(ip)))
            add('Aggregator4.make_aggregator', lambda asn=asn, ip=ip: Aggregator4.make_aggregator(ASN(asn), IPv4.from_string(ip)))
    for n in (1, 2, 63, 64, 65, 100):
        add('ClusterList.make_clusterlist', lambda n=n: ClusterList.make_clusterlist([ClusterID.from_string('10.0.%d.%d' % (i // 250, i % 250 + 1)) for i in range(n)]))
    # AS_PATH shapes, 2-byte only and with 4-byte ASNs, packed either way
    small = [1, 64512, 65000, 65535, 23456]
    big = [65536, 70000, 4200000000, 4294967295]

    def seq(kind, vals):
        return kind([ASN(v) for v in vals])

    shapes = [
        [],
        [(SEQUENCE, [65000])],
        [(SEQUENCE, small)],
        [(SEQUENCE, [65000, 64999]), (SET, [1, 2])],
        [(CONFED_SEQUENCE, [65001, 65002]), (SEQUENCE, [3])],
        [(CONFED_SET, [65001]), (CONFED_SEQUENCE, [65002]), (SEQUENCE, [1]), (SET, [2, 3])],
        [(SEQUENCE, [100 + i for i in range(255)])],
        [(SEQUENCE, [100 + i for i in range(256)])],
        [(SEQUENCE, [100 + i for i in range(300)])],
        [(SEQUENCE, big)],
        [(SEQUENCE, [65000, 70000])],
        [(SEQUENCE, [70000, 65000]), (SET, [4294967295, 1])],
        [(SEQUENCE, [23456, 70000])],
        [(SEQUENCE, [1000 + i for i in range(130)] + [70000])],
    ]
    for _ in range(6 * ctx.scale):
        shapes.append([(r.choice([SEQUENCE, SEQUENCE, SET, CONFED_SEQUENCE]), [r.choice(small + big) for _ in range(r.randrange(1, 6))]) for _ in range(r.randrange(1, 4))])
    for sh in shapes:
        has_big = any(v > 65535 for _, vals in sh for v in vals)
        for asn4 in (True, False):
            if has_big and not asn4:
                continue  # a 2-byte packing of a 4-byte AS does not exist
            add('ASPath.make_aspath(asn4=%s)' % asn4, lambda sh=sh, asn4=asn4: ASPath.make_aspath([seq(k, v) for k, v in sh], asn4=asn4))
        add('AS4Path.make_aspath', lambda sh=sh: AS4Path.make_aspath([seq(k, v) for k, v in sh]))
    # communities
    for n in (1, 2, 63, 64, 100):
        add('Communities.make_communities', lambda n=n: Communities.make_communities([Community.make_community(65000 - i, i) for i in range(n)]))
    add('Communities.make_communities', lambda: Communities.make_communities([Community.make_community(0, 0), Community.make_community(65535, 65535), Community.make_wellknown(0xFFFFFF01), Community.make_wellknown(0xFFFFFF02), Community.make_wellknown(0xFFFFFF03)]))
    add('Communities.make_communities', lambda: Communities.make_communities([Community.make_community(2, 2), Community.make_community(1, 1), Community.make_community(1, 1)]))
    for n in (1, 2, 21, 22, 50):
        add('LargeCommunities.make_large_communities', lambda n=n: LargeCommunities.make_large_communities([LargeCommunity.make_large_community(4294967295 - i, i, 0) for i in range(n)]))
    add('LargeCommunities.make_large_communities', lambda: LargeCommunities.make_large_communities([LargeCommunity.make_large_community(0, 0, 0), LargeCommunity.make_large_community(2, 1, 0), LargeCommunity.make_large_community(1, 2, 3)]))
    for n in (1, 2, 31, 32, 60):
        add('ExtendedCommunities.make', lambda n=n: ExtendedCommunities.make_extended_communities([ExtendedCommunity.unpack_attribute(bytes([0, 2]) + struct.pack('!HL', 65000, i), None) for i in range(n)]))
    add('ExtendedCommunities.make', lambda: ExtendedCommunities.make_extended_communities([ExtendedCommunity.unpack_attribute(bytes([t, s]) + bytes([1, 2, 3, 4, 5, 6]), None) for t, s in ((0x80, 6), (0x00, 3), (0x01, 2), (0x43, 1), (0x03, 0x0C), (0x06, 0))]))
    for n in (1, 2, 13):
        add('ExtendedCommunitiesIPv6.make', lambda n=n: ExtendedCommunitiesIPv6.make_extended_communities_ipv6([ExtendedCommunityIPv6.unpack_attribute(bytes([0, 0x0C]) + ip_pton('2001:db8::%x' % (i + 1)) + struct.pack('!H', i), None) for i in range(n)]))
    # PMSI
    for tt in range(0, 9):
        for flags, label in ((0, 0), (1, 16), (255, 1048575)):
            tunnel = {0: b'', 6: bytes([10, 0, 0, 1])}.get(tt, bytes(range(tt + 3)))
            add('PMSI.make_pmsi', lambda tt=tt, flags=flags, label=label, tunnel=tunnel: PMSI.make_pmsi(tt, flags, label, tunnel))
    add('PMSI.make_pmsi(raw_label)', lambda: PMSI.make_pmsi(6, 0, 0, bytes([10, 0, 0, 1]), raw_label=0x123456))
    add('PMSINoTunnel.make_no_tunnel', lambda: PMSINoTunnel.make_no_tunnel(0, 0))
    add('PMSINoTunnel.make_no_tunnel', lambda: PMSINoTunnel.make_no_tunnel(1, 1048575))
    add('PMSINoTunnel.make_no_tunnel(raw)', lambda: PMSINoTunnel.make_no_tunnel(0, 0, raw_label=0xFFFFFF))
    for ip in ('0.0.0.0', '10.0.0.1', '255.255.255.255'):
        add('PMSIIngressReplication.make', lambda ip=ip: PMSIIngressReplication.make_ingress_replication(ip, 0, 16))
    add('PMSIIngressReplication.make(raw)', lambda: PMSIIngressReplication.make_ingress_replication('10.0.0.1', 1, 0, raw_label=0x000011))
    # prefix SID
    for idx in (0, 1, 0xFFFFFFFF):
        add('PrefixSid(labelindex)', lambda idx=idx: PrefixSid([SrLabelIndex.make_labelindex(idx)]))
        add('PrefixSid(labelindex,srgb)', lambda idx=idx: PrefixSid([SrLabelIndex.make_labelindex(idx), SrGb.make_srgb([(16000, 8000), (0, 1), (0xFFFFFF, 0xFFFFFF)])]))
    # unknown transitive attribute
    for code, flag, data in ((99, 0xC0, b''), (99, 0xC0, b'\x01'), (200, 0xE0, bytes(300)), (255, 0xC0, bytes(range(255)))):
        add('GenericAttribute.make_generic', lambda code=code, flag=flag, data=data: GenericAttribute.make_generic(code, flag, data))
    return out


ATTR_TEXT = [
    'origin igp', 'origin egp', 'origin incomplete', 'med 0', 'med 4294967295', 'local-preference 0', 'local-preference 4294967295',
    'as-path [ ]', 'as-path [ 65000 ]', 'as-path [ 65000 64999 1 ]', 'as-path [ 65000 64999 ] ( 1 2 )', 'as-path [ 70000 ]', 'as-path [ 65000 4294967295 ]',
    'atomic-aggregate', 'aggregator ( 65000:1.2.3.4 )', 'aggregator ( 70000:1.2.3.4 )', 'aggregator ( 4294967295:255.255.255.255 )',
    'community [ 1:2 ]', 'community [ 0:0 65535:65535 no-export no-advertise no-export-subconfed no-peer blackhole ]', 'community [ 2:2 1:1 ]',
    'community [ %s ]' % ' '.join('65000:%d' % i for i in range(70)),
    'large-community [ 1:2:3 ]', 'large-community [ 4294967295:4294967295:4294967295 0:0:0 ]', 'large-community [ %s ]' % ' '.join('65000:1:%d' % i for i in range(30)),
    'extended-community [ target:65000:1 ]', 'extended-community [ target:1.2.3.4:5 origin:65000:1 origin:1.2.3.4:5 target:70000:3 ]',
    'extended-community [ target4:70000:3 origin4:70000:3 ]', 'extended-community [ 0x0002fde800000001 0x8006000000000000 ]',
    'extended-community [ l2info:19:0:1500:111 ]', 'extended-community [ bandwidth:65000:1000 ]',
    'extended-community [ %s ]' % ' '.join('target:65000:%d' % i for i in range(40)),
    'originator-id 0.0.0.0', 'originator-id 255.255.255.255', 'cluster-list [ 1.1.1.1 ]', 'cluster-list [ 1.1.1.1 2.2.2.2 255.255.255.255 ]',
    'aigp 0', 'aigp 18446744073709551615', 'aigp 77',
    'attribute [ 0x99 0xc0 0x0102 ]', 'attribute [ 0x20 0xc0 0x0000000100000002000000030000000A0000000B0000000C ]',
    'bgp-prefix-sid [ 10, [ ( 16000,8000 ) ] ]', 'bgp-prefix-sid [ 0 ]',
]


def run_attr_text(ctx: Ctx, items: list) -> None:
    for i, t in enumerate(items):
        line = f'route 10.{i // 250}.{i % 250}.0/24 next-hop 1.2.3.4 {t};'
        try:
            conf = exa.load_config(exa.neighbor_text(families=[(1, 1)], body='static { %s }' % line))
            routes = list(list(conf.neighbors.values())[0].routes)
        except Exception as e:  # noqa
            ctx.res.count('text-refused')
            ctx.res.extra.setdefault('text_refused', []).append((t[:80] + ' => ' + str(e).strip().split('\n')[-1])[:220])
            continue
        for r in routes:
            for code, a in r.attributes.items():
                if code in (3,) and i:
                    continue
                if hasattr(a, 'pack_attribute') and int(getattr(a, 'ID', 0xFFFF)) < 0xFF00:
                    exercise_attr(ctx, a, 'text', t)


def run_attr_factories(ctx: Ctx) -> None:
    for name, fn in attr_factory_objects(ctx):
        a = try_build(ctx, name, fn)
        if a is not None:
            exercise_attr(ctx, a, 'factory:' + name)
    run_attr_text(ctx, ATTR_TEXT)
    # crafted-but-well-formed bytes for entries neither the grammar nor a factory reaches
    crafted = [
        (23, 0xC0, bytes.fromhex('000f000c0c060000000000646402aabb'), 'tunnel-encap sr-policy with preference and an unassigned sub-TLV (type 100)'),
        (23, 0xC0, bytes.fromhex('000f00080c06000000000064'), 'tunnel-encap sr-policy with preference'),
        (23, 0xC0, bytes.fromhex('00630004deadbeef'), 'tunnel-encap with an unassigned tunnel type (99)'),
        (40, 0xC0, bytes.fromhex('630002aabb'), 'prefix-sid with an unassigned TLV (99)'),
        (26, 0x80, bytes.fromhex('010b0000000000000064'), 'aigp'),
        (26, 0x80, bytes.fromhex('020003010b0000000000000064'), 'aigp preceded by an unknown TLV'),
    ]
    for code, flag, value, what in crafted:
        try:
            a = laws.decode_attr_tlv(flag, code, value, ctx.sessions['plain'])
        except Exception as e:  # noqa
            ctx.res.count(f'crafted-not-decodable:{code}:{type(e).__name__}')
            continue
        if type(a).__name__ in ('Discard', 'TreatAsWithdraw'):
            ctx.res.count(f'crafted-discarded:{code}')
            continue
        exercise_attr(ctx, a, 'crafted', f'{what}: flag {flag:02x} value {value.hex()}')
    # objects built by different paths: equal ones are held to L3 by the contract on ==
    from exabgp.bgp.message.open.asn import ASN
    from exabgp.bgp.message.update.attribute.aspath import ASPath, SEQUENCE
    from exabgp.bgp.message.update.attribute.community.initial.communities import Communities
    from exabgp.bgp.message.update.attribute.community.initial.community import Community
    from exabgp.bgp.message.update.attribute.collection import AttributeCollection
    from exabgp.bgp.message.update.attribute.med import MED
    from exabgp.bgp.message.update.attribute.origin import Origin

    neg = ctx.sessions['plain']
    pairs = [
        ('as-path asn4 vs asn2 packing', ASPath.make_aspath([SEQUENCE([ASN(65000)])], asn4=True), ASPath.make_aspath([SEQUENCE([ASN(65000)])], asn4=False)),
        ('communities built in another order', Communities.make_communities([Community.make_community(1, 1), Community.make_community(2, 2)]), Communities.make_communities([Community.make_community(2, 2), Community.make_community(1, 1)])),
        ('communities decoded in wire order', Communities.make_communities([Community.make_community(1, 1), Community.make_community(2, 2)]), laws.decode_attr_tlv(0xC0, 8, bytes([0, 2, 0, 2, 0, 1, 0, 1]), neg)),
    ]
    for what, a, b in pairs:
        eq = check_eq_pair(ctx, a, b, attr_label_of(a), {'class': attr_label_of(a), 'pair': what, 'a': laws.safe_repr(a), 'b': laws.safe_repr(b)})
        ctx.res.count(f'attr-pair-{"equal" if eq else "unequal"}:{what}')
    # AttributeCollection: == compares communities as a set, hash/index are built from the text rendering
    def coll(comm):
        c = AttributeCollection()
        c.add(Origin.from_int(0))
        c.add(MED.from_int(5))
        c.add(comm)
        return c

    ca, cb = coll(pairs[2][1]), coll(pairs[2][2])
    eq = check_eq_pair(ctx, ca, cb, 'route:attributes', {'class': 'route:attributes', 'pair': 'same community set, other wire order', 'a': laws.safe_repr(ca), 'b': laws.safe_repr(cb)})
    ctx.res.count('attribute-collection-order-variant-' + ('equal' if eq else 'unequal'))


# ============================================================================== decoding source: qa corpus + mutations


def corpus_slices() -> tuple[list, list]:
    """-> (nlri fields [(src, afi, safi, bytes, withdraw)], attribute slices [(src, flag, code, value, raw)]) deduplicated"""
    nl, at, seen = [], [], set()
    for m in corpus.qa_messages():
        if m['type'] != 2:
            continue
        try:
            wd, attrs, nlri = laws.split_update(m['body'])
            tl = laws.attr_tlvs(attrs)
        except ValueError:
            continue
        fields = []
        if wd:
            fields.append((1, 1, bytes(wd), True))
        if nlri:
            fields.append((1, 1, bytes(nlri), False))
        for flag, code, value, raw in tl:
            try:
                if code == 14:
                    afi, safi, _, data = laws.mp_reach_parts(value)
                    fields.append((afi, safi, bytes(data), False))
                elif code == 15:
                    afi, safi, data = laws.mp_unreach_parts(value)
                    fields.append((afi, safi, bytes(data), True))
            except (ValueError, struct.error):
                continue
            if code not in (14, 15) and ('a', code, raw) not in seen:
                seen.add(('a', code, raw))
                at.append((m['src'], flag, code, bytes(value), bytes(raw)))
        for f in fields:
            if f[2] and ('n',) + f not in seen:
                seen.add(('n',) + f)
                nl.append((m['src'],) + f)
    return nl, at


def decode_field(afi, safi, data: bytes, addpath: bool, neg, withdraw: bool):
    """a whole NLRI field -> [(consumed bytes, nlri)] or None when it does not decode to its end"""
    from exabgp.bgp.message import Action
    from exabgp.bgp.message.update.nlri.nlri import NLRI

    out = []
    act = Action.WITHDRAW if withdraw else Action.ANNOUNCE
    guard = 0
    while data:
        guard += 1
        if guard > 2000:
            return None
        try:
            y, used, rest = laws.decode_one_nlri(afi, safi, data, addpath, neg, act)
        except Exception:  # noqa
            return None
        if not used:
            return None
        if y is not NLRI.INVALID:
            out.append((used, y))
        data = rest
    return out


def mutate(r: random.Random, b: bytes) -> bytes:
    if not b:
        return b
    m = bytearray(b)
    k = r.randrange(6)
    i = r.randrange(len(m))
    if k == 0:
        m[i] ^= 1 << r.randrange(8)
    elif k == 1:
        m[i] = r.choice([0, 1, 0x7F, 0x80, 0xFF])
    elif k == 2:
        m[i] = (m[i] + r.choice([1, -1])) & 0xFF
    elif k == 3:
        m[i] = r.randrange(256)
    elif k == 4 and len(m) > 2:
        j = r.randrange(len(m))
        m[i], m[j] = m[j], m[i]
    else:
        for _ in range(2):
            m[r.randrange(len(m))] = r.randrange(256)
    return bytes(m)


def exercise_decoded_nlri(ctx: Ctx, afi, safi, used: bytes, y, addpath: bool, neg, src: str) -> None:
    label = laws.nlri_label(y)
    want = 'nlri:%s/%s' % (afi, safi)
    if label != want:
        # the registry decoder of one family returned an object which says it belongs to another: whatever it
        # encodes to is then decoded by the other family's decoder, so the round trip is already lost
        ctx.bad(f'C15/roundtrip-nlri:{afi}/{safi}:family-lost', f'an NLRI decoded as {afi}/{safi} reports the family {y.afi}/{y.safi}: {laws.safe_repr(y)[:80]}', {'class': want, 'source': src, 'bytes': hx(used), 'addpath': addpath, 'decoded_family': f'{y.afi}/{y.safi}', 'reencoded': hx(y.pack_nlri(neg))}, want, 'L1')
        return
    try:
        b1 = bytes(y.pack_nlri(neg))
    except Exception as e:  # noqa
        ctx.bad(f'C15/raises:{label}:{type(e).__name__}', f'pack_nlri of a decoded NLRI raises {type(e).__name__}: {str(e)[:140]}', {'class': label, 'source': src, 'bytes': hx(used), 'addpath': addpath}, label, 'L2')
        return
    sub = laws.nlri_sublabel(y)
    if b1 != used:
        ctx.res.count('non-canonical-input:' + label)
        ctx.res.extra.setdefault('non_canonical_samples', []).append(f'{label} {src}: {hx(used)[:80]} -> {hx(b1)[:80]}')
    else:
        ctx.ok(label, 'L2', (label, 'L2', 'corpus', hx(used)))
        if sub:
            ctx.ok(sub, 'L2')
    exercise_nlri(ctx, y, src, 'decoded from %s (addpath %s)' % (hx(used), addpath))


def run_corpus_nlri(ctx: Ctx, part: int, parts: int) -> None:
    nl, _ = corpus_slices()
    # BGP-LS VPN is the BGP-LS NLRI with a route distinguisher after the header: derived from the bgp-ls slices
    extra = []
    for src, afi, safi, data, wd in nl:
        if (afi, safi) == (16388, 71) and len(data) >= 4:
            code, ln = struct.unpack('!HH', data[:4])
            if ln + 4 == len(data):
                for rd in (RDS[1], RDS[3]):
                    extra.append((src + '+rd', 16388, 72, data[:2] + struct.pack('!H', ln + 8) + rd + data[4:], wd))
    nl = nl + extra
    if part == 0:
        from exabgp.protocol.family import AFI, SAFI

        for i in range(0, len(extra) - 1, 2):
            ga = decode_field(AFI.from_int(16388), SAFI.from_int(72), extra[i][3], False, ctx.sessions['plain'], False)
            gb = decode_field(AFI.from_int(16388), SAFI.from_int(72), extra[i + 1][3], False, ctx.sessions['plain'], False)
            if ga and gb and len(ga) == 1 and len(gb) == 1:
                check_l4_pair(ctx, ga[0][1], gb[0][1], 'rd', {'class': 'nlri:bgp-ls/bgp-ls-vpn', 'a_wire': hx(extra[i][3]), 'b_wire': hx(extra[i + 1][3])}, 'nlri:bgp-ls/bgp-ls-vpn')
    for idx, (src, afi, safi, data, wd) in enumerate(nl):
        if idx % parts != part:
            continue
        from exabgp.protocol.family import AFI, SAFI

        a, s = AFI.from_int(afi), SAFI.from_int(safi)
        if f'{a}/{s}' not in ctx.reg['nlri']:
            ctx.res.count('corpus-unregistered-family')
            continue
        tries = [(False, ctx.sessions['plain'])]
        if ctx.sessions['addpath'].addpath.send(a, s):
            tries.append((True, ctx.sessions['addpath']))
        decoded_any = False
        for addpath, neg in tries:
            got = decode_field(a, s, data, addpath, neg, wd)
            if not got:
                continue
            decoded_any = True
            for used, y in got:
                exercise_decoded_nlri(ctx, a, s, used, y, addpath, neg, f'corpus:{src}')
            # mutated but still decodable
            for used, _ in got[:4]:
                for _ in range(12 * ctx.scale):
                    mb = mutate(ctx.r, used)
                    if mb == used:
                        continue
                    g2 = decode_field(a, s, mb, addpath, neg, wd)
                    if not g2:
                        ctx.res.count('mutant-not-decodable')
                        continue
                    for u2, y2 in g2:
                        exercise_decoded_nlri(ctx, a, s, u2, y2, addpath, neg, f'mutated:{src}')
        if not decoded_any:
            ctx.res.count('corpus-field-not-decodable')


def lsattr_tlvs(value: bytes) -> list:
    out, i = [], 0
    while i + 4 <= len(value):
        code, ln = struct.unpack('!HH', value[i : i + 4])
        if i + 4 + ln > len(value):
            break
        out.append((code, bytes(value[i + 4 : i + 4 + ln])))
        i += 4 + ln
    return out


def same_plain_object(a, b) -> tuple[bool, str]:
    """equality for classes without __eq__: same type, same stored bytes, same content / json"""
    if type(a).__name__ != type(b).__name__:
        return False, f'type {type(a).__name__} != {type(b).__name__}'
    pa, pb = getattr(a, '_packed', None), getattr(b, '_packed', None)
    if pa is not None and pb is not None and bytes(pa) != bytes(pb):
        return False, f'stored bytes {hx(pa)} != {hx(pb)}'
    for name in ('content', 'json'):
        try:
            va = getattr(a, name)
            vb = getattr(b, name)
            va = va() if callable(va) else va
            vb = vb() if callable(vb) else vb
        except Exception:  # noqa
            continue
        if repr(va) != repr(vb):  # repr: a NaN is not equal to itself
            return False, f'{name} {str(va)[:80]} != {str(vb)[:80]}'
    return True, ''


def exercise_bgpls_tlv(ctx: Ctx, code: int, payload: bytes, src: str) -> None:
    klass = ctx.reg['bgpls'].get(code)
    label = 'bgpls:%d' % code if klass is not None else 'bgpls:generic'
    if klass is None:
        from exabgp.bgp.message.update.attribute.bgpls.linkstate import LinkState

        klass = LinkState.get_ls_class(code)
    wit = {'class': label, 'tlv': code, 'payload': hx(payload), 'source': src}
    try:
        x = klass.unpack_bgpls(payload)
        if hasattr(x, 'flags'):
            x.flags
    except Exception:  # noqa
        ctx.res.count('bgpls-tlv-not-decodable')
        return
    # L2: there is no encoder besides the stored payload
    stored = bytes(getattr(x, '_packed', b''))
    if stored != payload:
        ctx.res.count('non-canonical-input:' + label)
    else:
        ctx.ok(label, 'L2', (label, 'L2', hx(payload)))
    try:
        y = klass.unpack_bgpls(stored)
        same, why = same_plain_object(x, y)
    except Exception as e:  # noqa
        ctx.bad(f'C15/raises:{label}:{type(e).__name__}', f'decoding the stored payload again raises {type(e).__name__}', wit, label, 'L1')
        return
    if not same:
        ctx.bad(f'C15/roundtrip-bgpls:{code}', f'decode(encode(x)) differs for BGP-LS TLV {code}: {why}', wit, label, 'L1')
    else:
        ctx.ok(label, 'L1', (label, 'L1', hx(payload)))
    key = (label, payload)
    if key not in ctx.seen:
        ctx.seen.add(key)
        check_l5(ctx, label, lambda: klass.unpack_bgpls(payload), wit, case_id(label, 'tlv', payload))


def run_corpus_attrs(ctx: Ctx, part: int, parts: int) -> None:
    from exabgp.bgp.message.update.attribute.attribute import Attribute

    _, at = corpus_slices()
    for idx, (src, flag, code, value, raw) in enumerate(at):
        if idx % parts != part:
            continue
        variants = [(f'corpus:{src}', value)]
        for _ in range(10 * ctx.scale):
            mv = mutate(ctx.r, value)
            if mv != value:
                variants.append((f'mutated:{src}', mv))
        if code in (22, 23, 26, 29, 40):
            # structured (TLV in TLV) attributes: every single length/type byte off by one, deterministically
            for i in range(min(len(value), 48)):
                for d in (-1, 1):
                    mv = value[:i] + bytes([(value[i] + d) & 0xFF]) + value[i + 1 :]
                    variants.append((f'mutated:{src}', mv))
        for vsrc, v in variants:
            done = False
            for sname in ('plain', 'asn2'):
                neg = ctx.sessions[sname]
                if done:
                    break
                try:
                    if not Attribute.registered(code, flag):
                        col = laws.decode_attr_collection(bytes([flag & 0xEF | (0x10 if len(v) > 255 else 0), code]) + (struct.pack('!H', len(v)) if len(v) > 255 else bytes([len(v)])) + v, neg)
                        if code not in col:
                            raise KeyError(code)
                        a = col[code]
                    else:
                        a = laws.decode_attr_tlv(flag, code, v, neg)
                except Exception:  # noqa
                    continue
                if type(a).__name__ in ('Discard', 'TreatAsWithdraw'):
                    continue
                done = True
                label = attr_label_of(a)
                if code == 29:
                    # LinkState: no pack_attribute; the TLVs it holds are the registry entries
                    check_l5(ctx, label, lambda: laws.decode_attr_tlv(flag, code, v, neg), {'class': label, 'bytes': hx(v), 'source': vsrc}, case_id(label, sname, v))
                    for tcode, payload in lsattr_tlvs(v):
                        exercise_bgpls_tlv(ctx, tcode, payload, vsrc)
                    continue
                try:
                    b1 = bytes(a.pack_attribute(neg))
                except Exception as e:  # noqa
                    ctx.bad(f'C15/raises:{label}:{type(e).__name__}', f'pack_attribute of a decoded attribute raises {type(e).__name__}: {str(e)[:140]}', {'class': label, 'source': vsrc, 'flag': flag, 'value': hx(v)}, label, 'L2')
                    continue
                hdr = bytes([flag, code]) + (struct.pack('!H', len(v)) if flag & 0x10 else bytes([len(v) & 0xFF]))
                if b1 != hdr + v:
                    ctx.res.count('non-canonical-input:' + label)
                    ctx.res.extra.setdefault('non_canonical_samples', []).append(f'{label} {vsrc}: {hx(hdr + v)[:80]} -> {hx(b1)[:80]}')
                else:
                    ctx.ok(label, 'L2', (label, 'L2', 'corpus', hx(v)))
                exercise_attr(ctx, a, vsrc, 'decoded from flag %02x value %s' % (flag, hx(v)))
                if code in (16, 25):
                    size = 8 if code == 16 else 20
                    for i in range(0, len(v) - size + 1, size):
                        exercise_extcomm(ctx, v[i : i + size], vsrc)
                if code == 40:
                    for sr in getattr(a, 'sr_attrs', []):
                        exercise_sub_tlv(ctx, 'srid', sr, vsrc)
                if code == 23:
                    exercise_tunnel(ctx, a, vsrc)
            if not done:
                ctx.res.count('corpus-attr-not-decodable' if vsrc.startswith('corpus') else 'mutant-not-decodable')


# ============================================================================== sub-registries


def exercise_sub_tlv(ctx: Ctx, kind: str, x, src: str) -> None:
    """SR prefix-SID / tunnel-encap sub-TLVs: no registry decoder of their own is public; render determinism only"""
    code = getattr(x, 'TLV', getattr(x, 'code', '?'))
    label = f'{kind}:{code}'
    rs = renderings(x)
    ctx.ok(label, 'L5')
    if hasattr(x, 'pack_tlv'):
        try:
            b = bytes(x.pack_tlv())
            ctx.render[case_id(label, 'tlv', b)] = render_digest(rs)
        except Exception:  # noqa
            ctx.res.count('sub-tlv-pack-raises:' + label)


def exercise_tunnel(ctx: Ctx, a, src: str) -> None:
    """tunnel type TLVs and their sub-TLVs inside a decoded/parsed TunnelEncap: pack -> unpack -> pack and renderings"""
    from exabgp.bgp.message.update.attribute.tunnel_encap.tlv import SubTLV, TunnelTypeTLV

    for t in getattr(a, 'tunnel_tlvs', []):
        ttype = getattr(t, 'TUNNEL_TYPE', -1) if type(t).__name__ != 'GenericTunnelTLV' else getattr(t, '_tunnel_type', -1)
        label = 'tunnel:%s' % ttype if ttype in ctx.reg['tunnel'] else 'tunnel:generic'
        try:
            b = bytes(t.pack())
            t2 = TunnelTypeTLV.unpack_tunnel(ttype, b[4:])
            b2 = bytes(t2.pack())
        except Exception as e:  # noqa
            ctx.bad(f'C15/raises:{label}:{type(e).__name__}', f'tunnel TLV pack/unpack raises {type(e).__name__}: {str(e)[:120]}', {'class': label, 'source': src}, label, 'L1')
            continue
        wit = {'class': label, 'source': src, 'bytes': hx(b)}
        if b2 != b:
            ctx.bad('C15/reencode-differs:' + label, f'encode(decode(b)) != b: {hx(b)[:100]} -> {hx(b2)[:100]}', dict(wit, reencoded=hx(b2)), label, 'L2')
        else:
            ctx.ok(label, 'L2', (label, 'L2', hx(b)))
        if (label, b) not in ctx.seen:
            ctx.seen.add((label, b))
            check_l5(ctx, label, lambda: TunnelTypeTLV.unpack_tunnel(ttype, b[4:]), wit, case_id(label, 'tlv', b))
        for st in getattr(t, 'subtlvs', []):
            stype = getattr(st, 'SUBTYPE', -1) if type(st).__name__ != 'GenericSubTLV' else getattr(st, '_subtype', -1)
            sl = 'tunnel-sub:%s' % stype if stype in ctx.reg['tunnel-sub'] else 'tunnel-sub:generic'
            try:
                sb = bytes(st.pack())
                back = SubTLV.unpack_subtlvs(sb)
                sb2 = b''.join(bytes(x.pack()) for x in back)
            except Exception as e:  # noqa
                ctx.bad(f'C15/raises:{sl}:{type(e).__name__}', f'sub-TLV pack/unpack raises {type(e).__name__}: {str(e)[:120]}', {'class': sl, 'source': src}, sl, 'L1')
                continue
            w2 = {'class': sl, 'source': src, 'bytes': hx(sb)}
            if sb2 != sb:
                ctx.bad('C15/reencode-differs:' + sl, f'encode(decode(b)) != b: {hx(sb)[:100]} -> {hx(sb2)[:100]}', dict(w2, reencoded=hx(sb2)), sl, 'L2')
            else:
                ctx.ok(sl, 'L2', (sl, 'L2', hx(sb)))
            if (sl, sb) not in ctx.seen:
                ctx.seen.add((sl, sb))
                check_l5(ctx, sl, lambda: SubTLV.unpack_subtlvs(sb)[0], w2, case_id(sl, 'tlv', sb))


def exercise_extcomm(ctx: Ctx, data: bytes, src: str) -> None:
    from exabgp.bgp.message.update.attribute.community.extended.community import ExtendedCommunity, ExtendedCommunityIPv6

    six = len(data) == 20
    base = ExtendedCommunityIPv6 if six else ExtendedCommunity
    regname = 'extcomm6' if six else 'extcomm'
    k = (data[0] & 0x0F, data[1])
    label = '%s:%d/%d' % (regname, k[0], k[1]) if k in ctx.reg[regname] else regname + ':generic'
    wit = {'class': label, 'bytes': hx(data), 'source': src}
    try:
        c = base.unpack_attribute(data, None)
    except Exception:  # noqa
        ctx.res.count('extcomm-not-decodable')
        return
    try:
        b1 = bytes(c.pack_attribute(None))
    except Exception as e:  # noqa
        ctx.bad(f'C15/raises:{label}:{type(e).__name__}', f'pack_attribute raises {type(e).__name__}', wit, label, 'L2')
        return
    if b1 != data:
        ctx.res.count('non-canonical-input:' + label)
    else:
        ctx.ok(label, 'L2', (label, 'L2', hx(data)))
    try:
        c2 = base.unpack_attribute(b1, None)
        b2 = bytes(c2.pack_attribute(None))
    except Exception as e:  # noqa
        ctx.bad(f'C15/raises:{label}:{type(e).__name__}', f'ExaBGP cannot decode the extended community it encoded: {type(e).__name__}: {str(e)[:100]}', dict(wit, encoded=hx(b1)), label, 'L1')
        return
    if b2 != b1:
        ctx.bad('C15/reencode-differs:' + label, f'encode(decode(b)) != b: {hx(b1)} -> {hx(b2)}', dict(wit, encoded=hx(b1), reencoded=hx(b2)), label, 'L2')
    eq = check_eq_pair(ctx, c, c2, label, dict(wit, pair='decode vs decode(encode)'))
    if eq is False:
        ctx.bad(f'C15/roundtrip-extcomm:{k[0]}/{k[1]}', f'decode(encode(x)) != x: {laws.safe_repr(c)} came back as {laws.safe_repr(c2)}', dict(wit, encoded=hx(b1)), label, 'L1')
    elif eq:
        ctx.ok(label, 'L1', (label, 'L1', hx(data)))
    key = (label, data)
    if key not in ctx.seen:
        ctx.seen.add(key)
        check_l5(ctx, label, lambda: base.unpack_attribute(data, None), wit, case_id(label, 'ec', data))


def guess_args(fn, klass, r: random.Random, mode: int):
    """arguments for a make_* factory from its annotations and parameter names; None when one cannot be guessed"""
    import inspect

    args = {}
    for name, p in list(inspect.signature(fn).parameters.items()):
        ann = str(p.annotation)
        low = name.lower()
        if p.default is not inspect.Parameter.empty and mode == 0:
            continue
        if 'dict' in ann or low == 'flags' and 'int' not in ann:
            flags = getattr(klass, 'FLAGS', None)
            if not flags:
                return None
            args[name] = {f: (mode % 2) for f in flags if f != 'RSV'}
        elif 'list[float]' in ann or 'Sequence[float]' in ann:
            args[name] = [0.0, 1000.0, 1e9][: 1 + mode] * 1 if 'unreserved' not in fn.__name__ else [float(i * mode) for i in range(8)]
        elif 'list[tuple' in ann:
            args[name] = [(16000, 8000)] if mode else [(0, 1)]
        elif 'list[int]' in ann or 'Sequence[int]' in ann:
            args[name] = [0, 1, 0xFFFF][: 1 + mode]
        elif 'list[str]' in ann:
            args[name] = ['1.2.3.4']
        elif 'float' in ann:
            args[name] = [0.0, 1000.0, 1.25e9][mode % 3]
        elif 'bool' in ann:
            args[name] = bool(mode % 2)
        elif 'bytes' in ann or 'Buffer' in ann:
            args[name] = [b'', b'\x01\x02\x03', bytes(range(16))][mode % 3] if 'sid' not in low else bytes(range(16))
        elif 'int' in ann:
            if 'mask' in low or 'flag' in low:
                args[name] = [0, 0x80, 0xFF][mode % 3]
            elif 'weight' in low or 'algo' in low or 'len' in low:
                args[name] = [0, 1, 255][mode % 3]
            else:
                args[name] = [0, 1, 0xFFFF, 0xFFFFFF][mode % 4]
        elif 'str' in ann or 'IP' in ann:
            if any(t in low for t in ('ip', 'addr', 'router', 'sid', 'speaker')):
                args[name] = ['1.2.3.4', '2001:db8::1', '255.255.255.255'][mode % 3]
            elif 'area' in low:
                args[name] = '49.0001'
            else:
                args[name] = ['a', 'router-1', 'x' * 255][mode % 3]
        else:
            return None
    return args


def run_bgpls_factories(ctx: Ctx) -> None:
    import inspect

    for code, klass in sorted(ctx.reg['bgpls'].items()):
        label = 'bgpls:%d' % code
        names = [n for n in dir(klass) if n.startswith('make_')]
        if not names:
            ctx.res.count('bgpls-no-factory')
        for n in names:
            fn = getattr(klass, n)
            for mode in range(4):
                try:
                    args = guess_args(fn, klass, ctx.r, mode)
                except (TypeError, ValueError):
                    args = None
                if args is None:
                    ctx.res.count('bgpls-factory-args-not-guessed')
                    break
                try:
                    x = fn(**args)
                except Exception as e:  # noqa
                    ctx.res.count('bgpls-factory-refused:' + type(e).__name__)
                    continue
                payload = bytes(getattr(x, '_packed', b''))
                wit = {'class': label, 'factory': f'{klass.__name__}.{n}', 'args': repr(args)[:200], 'payload': hx(payload)}
                try:
                    y = klass.unpack_bgpls(payload)
                    if hasattr(y, 'flags'):
                        y.flags
                    same, why = same_plain_object(x, y)
                except Exception as e:  # noqa
                    # the arguments are guessed from annotations and may be inconsistent with each other (flags vs
                    # sizes); a refusal by the decoder is then the decoder being right, so it is only logged
                    ctx.res.count('bgpls-guessed-args-not-decodable:%d' % code)
                    continue
                if not same:
                    ctx.bad(f'C15/roundtrip-bgpls:{code}', f'decode(encode(x)) differs for BGP-LS TLV {code}: {why}', wit, label, 'L1')
                else:
                    ctx.ok(label, 'L1', (label, 'L1', hx(payload)))
                exercise_bgpls_tlv(ctx, code, payload, f'factory:{n}')


def run_extcomm_enumeration(ctx: Ctx) -> None:
    r = ctx.r
    payloads6 = [bytes(6), b'\xff' * 6, bytes([1, 2, 3, 4, 5, 6]), bytes([0, 0, 0xFD, 0xE8, 0, 1]), bytes([0x80, 0, 0, 0, 0, 0])]
    for (t, s) in sorted(ctx.reg['extcomm']):
        for tb in (t, t | 0x40, t | 0x80):
            for p in payloads6 + [bytes(r.getrandbits(8) for _ in range(6)) for _ in range(3 * ctx.scale)]:
                exercise_extcomm(ctx, bytes([tb, s]) + p, 'enumerated')
    for (t, s) in sorted(ctx.reg['extcomm6']):
        for tb in (t, t | 0x40):
            for p in (bytes(18), b'\xff' * 18, ip_pton('2001:db8::1') + b'\x00\x05', bytes(r.getrandbits(8) for _ in range(18))):
                exercise_extcomm(ctx, bytes([tb, s]) + p, 'enumerated')
    # unregistered types go through the generic class
    for tb, s in ((0x0F, 0xFF), (0x05, 0x01), (0x00, 0xFE)):
        exercise_extcomm(ctx, bytes([tb, s]) + payloads6[2], 'enumerated')


# ============================================================================== UPDATE level (MP_REACH / MP_UNREACH) and configuration files


def exercise_update(ctx: Ctx, route, src: str, withdraw: bool = False) -> None:
    from exabgp.bgp.message.update.collection import RoutedNLRI, UpdateCollection
    from exabgp.protocol.ip import IP

    nlri = route.nlri
    afi, safi = fam_of(nlri)
    neg = ctx.sessions['plain']
    if laws.has_path_info(nlri):
        # a route with a path identifier only exists on an ADD-PATH session
        neg = ctx.sessions['addpath']
        if not neg.addpath.send(afi, safi):
            ctx.res.count('update-path-id-family-without-addpath')
            return
    if not withdraw and route.nexthop is not IP.NoNextHop and int(afi) == 1 and len(bytes(route.nexthop.pack_ip())) == 16:
        ctx.res.count('update-needs-extended-nexthop-session')
        return
    wit = {'class': laws.nlri_label(nlri), 'source': src, 'route': laws.safe_repr(route)[:300], 'withdraw': withdraw}
    try:
        if withdraw:
            msgs = list(UpdateCollection([], [nlri], route.attributes).messages(neg))
        else:
            if route.nexthop is IP.NoNextHop:
                ctx.res.count('update-no-nexthop')
                return
            msgs = list(UpdateCollection([RoutedNLRI(nlri, route.nexthop)], [], route.attributes).messages(neg))
    except Exception as e:  # noqa
        ctx.res.count(f'update-pack-raises:{type(e).__name__}')
        ctx.res.extra.setdefault('update_pack_raises', []).append(f'{src}: {type(e).__name__}: {str(e)[:120]}')
        return
    if len(msgs) != 1:
        ctx.res.count('update-messages-%d' % len(msgs))
        return
    body = bytes(msgs[0])[19:]
    wit['update'] = hx(body)[:600]
    try:
        codes = [c for _, c, _, _ in laws.attr_tlvs(laws.split_update(body)[1])]
    except ValueError:
        codes = []
    label = 'attr:15' if 15 in codes else ('attr:14' if 14 in codes else 'update:classic')
    try:
        u = UpdateCollection.unpack_message(body, neg)
        got = list(u.withdraws) if withdraw else [rn.nlri for rn in u.announces]
        nh = None if withdraw or not u.announces else u.announces[0].nexthop
    except Exception as e:  # noqa
        if 'next-hop length' in str(e):
            # the configured next hop family needs a capability (RFC 8950) or is not one this family carries
            ctx.res.count('update-nexthop-not-valid-on-this-session')
            return
        ctx.bad(f'C15/raises:{label}:{type(e).__name__}', f'ExaBGP cannot decode the UPDATE it encoded: {type(e).__name__}: {str(e)[:140]}', wit, label, 'L1')
        return
    ok = len(got) == 1
    if ok:
        eq = check_eq_pair(ctx, got[0], nlri, laws.nlri_label(nlri), dict(wit, pair='update decode vs source'))
        ok = bool(eq)
    if ok and not withdraw and str(nh) != str(route.nexthop):
        ok = False
        wit['nexthop'] = f'{route.nexthop} -> {nh}'
    if not ok:
        ctx.bad(f'C15/roundtrip-attr:{label.split(":")[1]}' if label.startswith('attr') else f'C15/roundtrip-nlri:{afi}/{safi}', f'decoding the UPDATE ExaBGP encoded does not give the route back: {[laws.safe_repr(g) for g in got][:2]}', wit, label, 'L1')
        return
    ctx.ok(label, 'L1', (label, 'L1', hx(body)))
    # the same bytes decoded a second time, back to back (the decoder keeps the last attribute set it saw): same routes
    try:
        u2 = UpdateCollection.unpack_message(body, neg)
        got2 = list(u2.withdraws) if withdraw else [rn.nlri for rn in u2.announces]
    except Exception as e:  # noqa
        ctx.bad(f'C15/decode-twice-raises:{label}:{type(e).__name__}', f'the second decode of the same UPDATE raises {type(e).__name__}: {str(e)[:140]}', wit, label, 'L5')
        return
    if len(got2) != len(got) or not all(check_eq_pair(ctx, a, b, laws.nlri_label(nlri), dict(wit, pair='first decode vs second decode')) for a, b in zip(got, got2)):
        ctx.bad(f'C15/decode-twice-differs:{label}', f'decoding the same UPDATE twice gives {len(got)} then {len(got2)} routes: {[laws.safe_repr(g) for g in got2][:2]}', wit, label, 'L5')
        return
    ctx.ok(label, 'L5', (label, 'L5-twice', hx(body)))
    # L2 at the UPDATE level: re-encode what was decoded
    try:
        if withdraw:
            again = list(UpdateCollection([], got, u.attributes).messages(neg))
        else:
            again = list(UpdateCollection(list(u.announces), [], u.attributes).messages(neg))
    except Exception as e:  # noqa
        ctx.bad(f'C15/raises:{label}:{type(e).__name__}', f're-encoding the decoded UPDATE raises {type(e).__name__}: {str(e)[:140]}', wit, label, 'L2')
        return
    if len(again) != 1 or bytes(again[0]) != bytes(msgs[0]):
        ctx.bad('C15/reencode-differs:' + label, 'encode(decode(UPDATE)) != UPDATE for an UPDATE produced by ExaBGP', dict(wit, reencoded=hx(bytes(again[0])[19:])[:600] if again else ''), label, 'L2')
    else:
        ctx.ok(label, 'L2', (label, 'L2', hx(body)))
    key = ('update', body)
    if key not in ctx.seen:
        ctx.seen.add(key)

        def dec():
            laws.decode_attr_collection(b'', neg)
            return UpdateCollection.unpack_message(body, neg).attributes

        check_l5(ctx, 'route:attributes', dec, wit, case_id('route:attributes', 'plain', body))


def config_files() -> list:
    base = os.path.join(REPO, 'etc', 'exabgp')
    names = set(os.path.basename(p) for p in glob.glob(os.path.join(base, '*.conf')))
    for p in glob.glob(os.path.join(REPO, 'qa', 'encoding', '*.ci')):
        for line in open(p, errors='replace'):
            if line.startswith('option:file:'):
                names.add(line.strip().split(':', 2)[2])
    return sorted(os.path.join(base, n) for n in names if os.path.exists(os.path.join(base, n)))


def run_configs(ctx: Ctx, part: int, parts: int) -> None:
    cwd = os.getcwd()
    os.chdir(os.path.join(REPO, 'etc', 'exabgp'))  # `run ./run/x.run` in process sections is relative to the file
    try:
        for idx, path in enumerate(config_files()):
            if idx % parts != part:
                continue
            name = os.path.basename(path)
            try:
                text = open(path, errors='replace').read().replace('\\\n', ' ')
                conf = exa.load_config(text)
            except Exception as e:  # noqa
                ctx.res.count('config-refused')
                ctx.res.extra.setdefault('config_refused', []).append(f'{name}: {str(e).strip().splitlines()[-1][:120] if str(e).strip() else type(e).__name__}')
                continue
            ctx.res.count('config-parsed')
            for nb in conf.neighbors.values():
                for route in list(nb.routes):
                    ctx.res.count('config-route')
                    src = f'config:{name}'
                    exercise_nlri(ctx, route.nlri, src, laws.safe_repr(route)[:300])
                    for code, a in route.attributes.items():
                        if int(code) >= 0xFF00 or not hasattr(a, 'pack_attribute'):
                            continue
                        k = ('cfgattr', int(code), bytes(getattr(a, '_packed', b'')) or laws.safe_repr(a))
                        if k in ctx.seen:
                            continue
                        ctx.seen.add(k)
                        exercise_attr(ctx, a, src)
                        if int(code) in (16, 25):
                            v = bytes(a._packed)
                            size = 8 if int(code) == 16 else 20
                            for i in range(0, len(v) - size + 1, size):
                                exercise_extcomm(ctx, v[i : i + size], src)
                        if int(code) == 40:
                            for sr in getattr(a, 'sr_attrs', []):
                                exercise_sub_tlv(ctx, 'srid', sr, src)
                        if int(code) == 23:
                            exercise_tunnel(ctx, a, src)
                    exercise_update(ctx, route, src)
                    exercise_update(ctx, route, src, withdraw=True)
    finally:
        os.chdir(cwd)


# ============================================================================== plan / shards / finish

IP_GROUPS = [[(2, 128)], [(1, 128)], [(1, 4), (2, 4)], [(1, 1), (1, 2), (2, 1), (2, 2)]]


REPO_TESTS_QUICK = ['test_evpn.py', 'test_mvpn.py', 'test_mup.py', 'test_bgpls.py', 'test_flow.py', 'test_flowspec.py', 'test_inet.py', 'test_ipvpn.py', 'test_label.py', 'test_l2vpn.py', 'test_vpls.py', 'test_rtc.py',
                    'test_nlri_hash_contract.py', 'test_nlri_roundtrip.py', 'test_nlri_prefix_index.py', 'test_attribute_equality.py', 'test_attributes.py', 'test_aspath.py', 'test_communities.py',
                    'test_collection.py', 'test_encode_decode.py', 'test_multiprotocol.py', 'test_path_attributes.py', 'test_sr_attributes.py', 'test_sr_policy.py', 'test_route.py', 'test_rib_index.py', 'test_cidr_equality.py']


def run_repo_tests(ctx: Ctx, tier: str) -> None:
    """the repository's own unit tests, run by pytest in a child process with the law contracts attached in record-only mode
    (vlib/pytest_laws.py): the tests build objects this generator does not, the contracts judge them. L3 (a == b => same hash
    and index) holds for any two instances however they were built and is a verdict; L1 (round trip) depends on the object
    being one a parser or decoder can produce, which a test is free to ignore: those are listed, not judged."""
    import glob as _glob
    import json as _json
    import shutil
    import subprocess
    import sys
    import tempfile

    out = tempfile.mkdtemp(prefix='exaverif-laws-')
    try:
        tests = os.path.join(REPO, 'tests', 'unit')
        if not os.path.isdir(tests):
            tests = '/repo/tests/unit'  # a scratch copy of src/ only (VERIF_REPO): the tests are inputs, read from the reference checkout
        args = [sys.executable, '-m', 'pytest', '-q', '-p', 'no:cacheprovider', '-p', 'vlib.pytest_laws', '--timeout=600', '-x', '--no-header', '-o', 'addopts=']
        if tier == 'quick':
            args += [os.path.join(tests, f) for f in REPO_TESTS_QUICK if os.path.exists(os.path.join(tests, f))]
        else:
            args += ['-n', '8', tests, '--deselect', os.path.join(tests, 'test_gates_are_wired.py')]
            args.remove('-x')
        env = dict(os.environ, VERIF_LAWS_OUT=out)
        try:
            p = subprocess.run(args, cwd=os.path.dirname(os.path.dirname(tests)), env=env, capture_output=True, timeout=900 if tier == 'quick' else 2400)
            tail = p.stdout.decode(errors='replace').strip().split('\n')[-1][:160]
        except subprocess.TimeoutExpired:
            ctx.res.inconclusive.append('repo-tests: pytest did not finish in time')
            return
        ctx.res.extra['repo_tests_summary'] = [tail]
        evals = 0
        seen: dict = {}
        for f in _glob.glob(os.path.join(out, '*.json')):
            d = _json.load(open(f))
            evals += sum(d['evals'].values())
            for k, n in d['evals'].items():
                ctx.lawcount[k] = ctx.lawcount.get(k, 0) + n
            for v in d['violations']:
                seen.setdefault(v['key'], v)
        if not evals:
            ctx.res.inconclusive.append(f'repo-tests: no contract was evaluated ({tail})')
            return
        ctx.res.ok('repo-tests:contracts-evaluated', None, evals)
        for key, v in sorted(seen.items()):
            wit = dict(v['witness'], source="the repository's own unit tests under the law contracts")
            if v['law'] == 'L3':
                ctx.bad(key, v['what'], wit, v['label'] or 'repo-tests', 'L3')
            else:
                ctx.res.count('repo-tests:not-judged:' + key)
                lst = ctx.res.extra.setdefault('repo_tests_round_trip_differences', [])
                if len(lst) < 40:
                    lst.append(f'{key}: {v["what"][:160]}')
    finally:
        shutil.rmtree(out, ignore_errors=True)


def plan(tier, seed):
    base = []
    if tier == 'quick':
        for g in IP_GROUPS:
            base.append({'kind': 'ip', 'fams': g, 'scale': 1})
        base.append({'kind': 'other', 'scale': 1})
        base.append({'kind': 'attrs', 'scale': 1})
        base.append({'kind': 'configs', 'part': 0, 'parts': 1, 'scale': 1})
        for p in range(2):
            base.append({'kind': 'corpus', 'part': p, 'parts': 2, 'scale': 1})
    else:
        for g in IP_GROUPS:
            for f in g:
                for p in range(3 if f[1] in (4, 128) else 1):
                    base.append({'kind': 'ip', 'fams': [f], 'scale': 8, 'part': p})
        base.append({'kind': 'other', 'scale': 4})
        for p in range(3):
            base.append({'kind': 'attrs', 'scale': 6, 'part': p})
        for p in range(2):
            base.append({'kind': 'configs', 'part': p, 'parts': 2, 'scale': 1})
        for p in range(8):
            base.append({'kind': 'corpus', 'part': p, 'parts': 8, 'scale': 25})
    out = []
    for i, d in enumerate(base):
        for hs in (0, 1):
            out.append(dict(d, shard=i, hashseed=hs))
    out.append({'kind': 'repo-tests', 'shard': len(base), 'hashseed': 0})
    return out


def run_shard(desc):
    ctx = Ctx(desc)
    kind = desc['kind']
    try:
        if kind == 'ip':
            for afi, safi in desc['fams']:
                run_ip_family(ctx, afi, safi)
        elif kind == 'repo-tests':
            run_repo_tests(ctx, desc.get('tier', 'quick'))
        elif kind == 'other':
            run_other_nlri(ctx)
        elif kind == 'attrs':
            run_attr_factories(ctx)
            run_extcomm_enumeration(ctx)
            run_bgpls_factories(ctx)
        elif kind == 'configs':
            run_configs(ctx, desc.get('part', 0), desc.get('parts', 1))
        elif kind == 'corpus':
            run_corpus_nlri(ctx, desc.get('part', 0), desc.get('parts', 1))
            run_corpus_attrs(ctx, desc.get('part', 0), desc.get('parts', 1))
        else:
            ctx.res.inconclusive.append(f'unknown shard kind {kind}')
    except Exception as e:  # noqa
        import traceback

        ctx.res.inconclusive.append(f'shard {kind} crashed: {type(e).__name__}: {e} | {traceback.format_exc()[-500:]}')
    if desc.get('hashseed', 0) == 0:
        ctx.res.sample({'shard': kind, 'law_evaluations': dict(list(sorted(ctx.lawcount.items()))[:6]), 'contracts_attached': len(M.attached)})
    return ctx.finish()


LAWS = ('L1', 'L2', 'L3', 'L4', 'L5', 'L5x')


def finish(merged, tier, seed):
    extra = merged['extra']
    r0 = extra.pop('render0', {}) or {}
    r1 = extra.pop('render1', {}) or {}
    counts = dict(extra.get('law_evaluations', {}))
    compared = 0
    for cid in sorted(set(r0) & set(r1)):
        label = cid.split('|', 1)[0]
        k = f'{label}:L5x'
        compared += 1
        if r0[cid].split(' ', 1)[0] != r1[cid].split(' ', 1)[0]:
            merged['violations'].append(
                {
                    'key': 'C15/render-depends-on-hashseed:' + label,
                    'what': f'the renderings of the same bytes differ between PYTHONHASHSEED=0 and 1: {r0[cid][17:120]!r} / {r1[cid][17:120]!r}',
                    'witness': {'class': label, 'case': cid, 'hashseed0': r0[cid], 'hashseed1': r1[cid]},
                    'count': 1,
                }
            )
        merged['classes'][k] = merged['classes'].get(k, 0) + 1
        counts[k] = counts.get(k, 0) + 1
    merged['evaluations'] += compared
    only = len(set(r0) ^ set(r1))
    if only:
        merged['info']['render-case-in-one-process-only'] = only
    extra['render_cases_compared_across_hashseed'] = compared
    if not compared:
        merged['inconclusive'].append('no rendering was compared across PYTHONHASHSEED 0/1')
    extra['law_evaluations'] = counts
    registered = list(extra.get('registered', []))
    table, not_ex = {}, []
    for label in registered:
        row = {law: counts.get(f'{label}:{law}', 0) for law in LAWS}
        row = {k: v for k, v in row.items() if v}
        table[label] = row
        if not row:
            not_ex.append(label)
    extra['coverage_by_registry_entry'] = table
    extra['not_exercised'] = not_ex
    extra['registered_total'] = len(registered)
    extra['exercised_total'] = len(registered) - len(not_ex)
    files = extra.get('exabgp_file')
    extra['exabgp_file'] = files


_IPF = ['ipv4/unicast', 'ipv4/multicast', 'ipv6/unicast', 'ipv6/multicast', 'ipv4/nlri-mpls', 'ipv6/nlri-mpls', 'ipv4/mpls-vpn', 'ipv6/mpls-vpn']
_REQ = []
for _f in _IPF:
    _REQ += [f'nlri:{_f}:{law}' for law in ('L1', 'L2', 'L3', 'L4', 'L5', 'L5x')]
for _f in ('ipv4/flow', 'ipv6/flow', 'ipv4/flow-vpn', 'ipv6/flow-vpn', 'l2vpn/vpls', 'l2vpn/evpn'):
    _REQ += [f'nlri:{_f}:{law}' for law in ('L1', 'L2', 'L3', 'L4', 'L5', 'L5x')]
for _c in (1, 2, 3, 4, 5, 8, 16, 32, 26, 22, 9, 10):
    _REQ += [f'attr:{_c}:{law}' for law in ('L1', 'L2', 'L3', 'L5', 'L5x')]
REQUIRED_CLASSES = {'quick': list(_REQ), 'thorough': list(_REQ)}
