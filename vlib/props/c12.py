"""C12 - hold and keepalive timers keep their RFC promises.

Lab (virtual clock): the remote speaker establishes a session with chosen hold times, then sends messages with
chosen gaps / goes silent / floods / stops reading; monitors look at virtual timestamps of every KEEPALIVE and
NOTIFICATION the remote receives and of connection close.
"""

from __future__ import annotations

import random
import struct

from vlib import refwire as rw
from vlib import scen
from vlib.mon import Result

PROPERTY = 'C12'
LEVEL = 'exploration'
G = 1.3  # scheduling granularity: the timers use int(time.time()) (1 s) + one 0.1 s read timeout + loop ticks
RULE = (
    'sessions under a virtual clock: negotiated hold time H from both sides (min rule) in {0,3,4,5,9,10,30,90}; remote '
    'inter-message gaps around H (H-1, H-0.5, H/2, then silence), message kinds KEEPALIVE/UPDATE/ROUTE-REFRESH, idle, '
    'long outbound batch, inbound burst, open-wait with W in {2,10}. distinct = distinct (scenario kind, H pair, gap, '
    'message kind) tuples; monitors: never-early (4/0 implies silence > H), bounded-late (closed by H+G), keepalive gap '
    '<= H/3+G, H=0 rules, open wait 5/1 in [W, W+G]'
)
ASSUMPTIONS = [
    f'scheduling granularity G fixed at {G} s (int-second timers + 0.1 s read timeout + loop tick)',
    'virtual clock: spinning costs one quantum (0.2 ms, 2 ms for long idle scenarios); socket readiness is real',
    'the unbounded "is closed" is restated as: closed with 4/0 no later than H + G after the last message the remote sent',
]
MANIFEST = {
    'level': 'exploration',
    'technique': 'runtime monitoring under a virtual clock: timestamped trace of KEEPALIVE/NOTIFICATION/close seen by a scripted remote speaker, checked against timer bounds; hold and keepalive timers of the real exabgp process observed in real time (only what load cannot excuse is a violation: early expiry, a session dropped despite keepalives, a silence of a whole hold time)',
    'text': 'Timing schedules around the hold time and keepalive interval are generated per negotiated H and played against the '
    'real Peer main loop with time.time and the asyncio clock virtualised; each trace is checked for never-early, '
    'bounded-late, keepalive spacing, H=0 and open-wait bounds.',
    'note': 'virtual clock faithful for timer order, not for kernel TCP timing; G is fixed once; also driven: silence in OPENCONFIRM, a late confirming KEEPALIVE, bytes of a never completed message, a remote which reads 200 octets/s, and a remote which stops reading (blocked writer: recorded known finding)',
}
SHARD_TIMEOUT = {'quick': 900, 'thorough': 3000}

HS = [3, 4, 5, 9, 10, 30, 90]


def msg_of(kind, i):
    if kind == 'ka':
        return rw.keepalive()
    if kind == 'update':
        return scen.simple_update(i)
    return rw.message(rw.ROUTE_REFRESH, struct.pack('!HBB', 1, 0, 1))


def cases(tier, seed):
    r = random.Random(seed)
    out = []
    pairs = [(a, b) for a in HS for b in HS]
    r.shuffle(pairs)
    npairs = 14 if tier == 'quick' else len(pairs)
    # make sure every H value is the negotiated one at least once
    base = [(h, h) for h in HS] + pairs
    seen = set()
    chosen = []
    for p in base:
        if p in seen:
            continue
        seen.add(p)
        chosen.append(p)
        if len(chosen) >= npairs + len(HS):
            break
    for ours, theirs in chosen:
        H = min(ours, theirs)
        q = 0.0002 if H <= 10 else 0.002
        cfg = {'hold': ours, 'peer_hold': theirs, 'routes': 2, 'families': [(1, 1)]}
        # (1) silence after establishment (optionally after k messages)
        for kind in ['ka', 'update', 'refresh'] if tier != 'quick' else [r.choice(['ka', 'update', 'refresh'])]:
            k = r.choice([0, 1, 3])
            steps = [['accept', 20.0], ['establish'], ['sleep', 0.3]]
            for i in range(k):
                steps += [['send', msg_of(kind, i).hex()], ['sleep', r.choice([0.5, 1.0, H / 2])]]
            if k:
                steps[-1] = ['mark', 'last-sent']
            steps += [['wait_closed', H + 5.0], ['sleep', 0.2]]
            out.append({'kind': 'silence', 'config': cfg, 'steps': steps, 'H': H, 'pair': [ours, theirs], 'mk': kind, 'quantum': q, 'vtimeout': 4 * H + 60, 'wall': 120})
        # (2) gaps shorter than H keep the session up, for every inbound message kind
        for kind in ['ka', 'update', 'refresh']:
            gap = r.choice([H - 1, H - 0.5, H / 2, H - 0.1])
            rounds = 4 if H <= 10 else 2
            steps = [['accept', 20.0], ['establish']]
            for i in range(rounds):
                steps += [['sleep', gap], ['send', msg_of(kind, i).hex()]]
            steps += [['mark', 'end-of-gaps'], ['sleep', 0.2], ['eof']]
            out.append({'kind': 'gaps', 'config': cfg, 'steps': steps, 'H': H, 'pair': [ours, theirs], 'mk': kind, 'gap': gap, 'quantum': q, 'vtimeout': (rounds + 1) * H + 60, 'wall': 120})
    # (3) keepalive spacing: idle, outbound batch, inbound burst
    for H in ([3, 9, 30] if tier == 'quick' else HS):
        q = 0.0002 if H <= 10 else 0.002
        for load in ('idle', 'outbound', 'inbound'):
            cfg = {'hold': H, 'peer_hold': H, 'families': [(1, 1)], 'routes': 3000 if load == 'outbound' else 2, 'group_updates': False if load == 'outbound' else None, 'adjin': load == 'inbound'}
            steps = [['accept', 20.0], ['establish']]
            dur = max(3 * H, 12)
            if load == 'inbound':
                # bursts of 400 updates every second, keepalives included so the session stays up
                t = 0.0
                i = 0
                while t < dur:
                    burst = b''.join(scen.simple_update(i + j) for j in range(300))
                    i += 300
                    steps += [['send', (burst + rw.keepalive()).hex()], ['sleep', 1.0]]
                    t += 1.0
            else:
                t = 0.0
                step = min(H / 3.0, 2.0)
                while t < dur:
                    steps += [['sleep', step], ['ka']]
                    t += step
            steps += [['mark', 'end'], ['eof']]
            out.append({'kind': 'ka-interval', 'config': cfg, 'steps': steps, 'H': H, 'load': load, 'quantum': q, 'vtimeout': dur + 120, 'wall': 150})
    # (4) H = 0
    for ours, theirs in [(0, 90), (90, 0), (0, 0)]:
        T = 300 if tier == 'quick' else 3600
        cfg = {'hold': ours, 'peer_hold': theirs, 'routes': 2, 'families': [(1, 1)]}
        steps = [['accept', 20.0], ['establish'], ['sleep', 1.0], ['mark', 'idle-start'], ['sleep', float(T)], ['mark', 'idle-end'], ['eof']]
        out.append({'kind': 'h0', 'config': cfg, 'steps': steps, 'H': 0, 'pair': [ours, theirs], 'T': T, 'quantum': 0.01, 'vtimeout': T + 100, 'wall': 200})
    # (5) open wait
    for W in (2, 10):
        cfg = {'hold': 90, 'routes': 0, 'families': [(1, 1)]}
        steps = [['accept', 20.0], ['wait_msg', rw.OPEN, 5.0], ['mark', 'open-seen'], ['wait_closed', W + 5.0], ['sleep', 0.2]]
        out.append({'kind': 'openwait', 'config': cfg, 'steps': steps, 'W': W, 'env': {'bgp.openwait': W}, 'quantum': 0.0002, 'vtimeout': 100, 'wall': 90})
    # (6) silence in OPENCONFIRM: both OPENs exchanged (H is negotiated), the remote never sends its KEEPALIVE
    for ours, theirs in ([(3, 3), (9, 30), (30, 10)] if tier == 'quick' else [(a, b) for a in (3, 5, 9, 30, 90) for b in (3, 10, 90)]):
        H = min(ours, theirs)
        cfg = {'hold': ours, 'peer_hold': theirs, 'routes': 2, 'families': [(1, 1)]}
        steps = [['accept', 20.0], ['wait_msg', rw.OPEN, 5.0], ['open'], ['mark', 'open-sent'], ['wait_closed', H + 6.0], ['sleep', 0.2]]
        out.append({'kind': 'openconfirm', 'config': cfg, 'steps': steps, 'H': H, 'pair': [ours, theirs], 'quantum': 0.0002 if H <= 10 else 0.002, 'vtimeout': 2 * H + 60, 'wall': 120})
    out.append({'kind': 'openconfirm', 'config': {'hold': 0, 'peer_hold': 90, 'routes': 2, 'families': [(1, 1)]}, 'H': 0, 'pair': [0, 90], 'quantum': 0.01, 'vtimeout': 500, 'wall': 120,
                'steps': [['accept', 20.0], ['wait_msg', rw.OPEN, 5.0], ['open'], ['mark', 'open-sent'], ['sleep', 300.0], ['mark', 'idle-end'], ['eof']]})
    # (7) bytes which never complete a message do not count as "something received"
    for H in ([3, 9] if tier == 'quick' else [3, 5, 9, 30]):
        cfg = {'hold': H, 'peer_hold': H, 'routes': 2, 'families': [(1, 1)]}
        steps = [['accept', 20.0], ['establish'], ['sleep', 0.3], ['send', rw.keepalive().hex()], ['mark', 'last-sent']]
        part = (b'\xff' * 16 + struct.pack('!HB', 4000, 2) + b'\0' * 64)  # the start of an UPDATE of 4000 bytes
        tr = []
        for i in range(0, min(len(part), 2 * H + 8)):
            tr += [part[i : i + 1].hex(), 0.5]
        steps += [['sendseg', tr], ['wait_closed', 4.0], ['sleep', 0.2]]
        out.append({'kind': 'trickle', 'config': cfg, 'steps': steps, 'H': H, 'quantum': 0.0002 if H <= 10 else 0.002, 'vtimeout': 4 * H + 60, 'wall': 120})
    # (9) the KEEPALIVE which confirms the OPEN comes late (T < H after the OPEN); from then on the remote is never silent for
    # more than H/3: the hold timer counts from the last message received, not from the moment OPENCONFIRM was entered
    for H in ([6, 9] if tier == 'quick' else [4, 6, 9, 30]):
        for T in (H - 1.5, H / 2.0):
            cfg = {'hold': H, 'peer_hold': H, 'routes': 2, 'families': [(1, 1)]}
            steps = [['accept', 20.0], ['wait_msg', rw.OPEN, 5.0], ['open'], ['sleep', T], ['ka'], ['wait_msg', rw.KEEPALIVE, 5.0]]
            for i in range(int(2 * H / (H / 3.0)) + 2):
                steps += [['sleep', H / 3.0], ['ka']]
            steps += [['mark', 'end-of-gaps'], ['sleep', 0.2], ['eof']]
            out.append({'kind': 'gaps', 'config': cfg, 'steps': steps, 'H': H, 'pair': [H, H], 'mk': 'late-confirm', 'gap': H / 3.0, 'quantum': 0.0002 if H <= 10 else 0.002, 'vtimeout': 5 * H + 60, 'wall': 120})
    # (10) a slow consumer: the remote takes 200 octets a second from its socket (small buffers, a batch of 600 routes: one
    # pass of the peer loop stays in its write for longer than H) and keeps sending a KEEPALIVE every H/3: it is never silent
    for H in ([6] if tier == 'quick' else [4, 6, 9]):
        cfg = {'hold': H, 'peer_hold': H, 'families': [(1, 1)], 'routes': 600, 'group_updates': False}
        steps = [['accept', 20.0], ['sndbuf', 4096], ['establish'], ['throttle', 200.0]]
        for i in range(int(8 * H / (H / 3.0))):
            steps += [['sleep', H / 3.0], ['ka']]
        steps += [['mark', 'end-of-gaps'], ['throttle', 0], ['sleep', 0.5], ['eof']]
        out.append({'kind': 'gaps', 'config': cfg, 'steps': steps, 'H': H, 'pair': [H, H], 'mk': 'slow-reader', 'gap': H / 3.0, 'rcvbuf': 4096, 'quantum': 0.0005, 'vtimeout': 12 * H + 100, 'wall': 150})
    # (8) the remote stops reading while ExaBGP has a long batch to write (small socket buffers: the writer blocks) and stays silent
    for H in ([3, 9] if tier == 'quick' else [3, 5, 9, 30]):
        cfg = {'hold': H, 'peer_hold': H, 'families': [(1, 1)], 'routes': 6000, 'group_updates': False}
        steps = [['accept', 20.0], ['sndbuf', 4096], ['establish'], ['stop_reading'], ['mark', 'silent'], ['sleep', H + G + 0.5], ['mark', 'deadline'], ['sleep', 3.0], ['mark', 'resume'], ['resume_reading'], ['wait_closed', 20.0], ['sleep', 0.2]]
        out.append({'kind': 'blocked-writer', 'config': cfg, 'steps': steps, 'H': H, 'rcvbuf': 4096, 'quantum': 0.0002 if H <= 10 else 0.002, 'vtimeout': 4 * H + 100, 'wall': 150})
    return out


def plan(tier, seed):
    n = 16
    return [{'shard': i, 'nshards': n} for i in range(n)] + [{'shard': 900 + i, 'daemon': True, 'part': i} for i in range(4)]


def kas(sess):
    return [m[0] for m in sess['rx'] if m[1] == rw.KEEPALIVE]


def notifs(sess):
    out = []
    for m in sess['rx']:
        if m[1] == rw.NOTIFICATION:
            b = bytes.fromhex(m[2].split('..')[0])
            out.append((m[0], b[0], b[1]))
    return out


def judge(res: Result, case, rec):
    kind = case['kind']
    wit = {'case': {k: v for k, v in case.items() if k != 'steps'}, 'steps': case['steps'][:40], 'notes': rec['notes']}
    if not rec['sessions']:
        res.inconclusive.append(f'{kind}: no session')
        return
    sess = rec['sessions'][0]
    if any(n[1] in ('no-connection', 'not-established') for n in rec['notes']):
        res.inconclusive.append(f'{kind}: not established {rec["notes"]}')
        return
    txs = [t for t, ln, ty in sess['tx']]
    last_tx = max(txs) if txs else 0.0
    nts = notifs(sess)
    wit.update(last_tx=last_tx, notifications=nts, eof_at=sess['eof_at'], keepalives=kas(sess)[:40])
    H = case.get('H')
    if kind == 'silence':
        cls = f'silence:H{H}:{case["mk"]}'
        hold = [n for n in nts if (n[1], n[2]) == (4, 0)]
        if not hold:
            res.violation(f'C12/no-hold-expiry', f'H={H}: silent for {rec["end"] - last_tx:.2f}s, no 4/0 received (closed={sess["eof_at"]})', wit, cls)
            return
        silence = hold[0][0] - last_tx
        if silence <= H:
            res.violation('C12/hold-fires-early', f'H={H}: 4/0 after only {silence:.3f}s of silence', wit, cls)
        elif silence > H + G:
            res.violation('C12/hold-fires-late', f'H={H}: 4/0 after {silence:.3f}s of silence (> H+G={H + G})', wit, cls)
        else:
            res.ok(cls, ('silence', tuple(case['pair']), case['mk'], round(silence - H, 1)))
            res.extra.setdefault('hold_overshoot_max_ms', 0)
            res.extra['hold_overshoot_max_ms'] = max(res.extra['hold_overshoot_max_ms'], int((silence - H) * 1000))
        return
    if kind == 'gaps':
        cls = f'gaps:H{H}:{case["mk"]}'
        end = [e['t'] for e in rec['events'] if e['kind'] == 'mark' and e.get('name') == 'end-of-gaps']
        if not end:
            res.inconclusive.append('gaps: end mark missing')
            return
        early = [n for n in nts if n[0] <= end[0]]
        closed_early = sess['eof_at'] is not None and sess['eof_at'] < end[0]
        # what a throttled remote has not read yet it cannot report: the in-process tap sees the session being left
        est = [e['t'] for e in rec['events'] if e['kind'] == 'fsm' and e['dst'] == 'ESTABLISHED']
        left = [e['t'] for e in rec['events'] if e['kind'] == 'fsm' and e['src'] == 'ESTABLISHED' and e['t'] <= end[0]]
        if not est:
            res.inconclusive.append(f'gaps:{case["mk"]}: never established {rec["notes"]}')
            return
        if left and not early and not closed_early:
            closed_early = True
            wit['left_established_at'] = left
        if early or closed_early:
            what = f'H={H}: session ended ({early or "closed"}) although the remote sent a {case["mk"]} every {case["gap"]}s (< H)'
            res.violation(f'C12/closed-despite-traffic:{case["mk"]}', what, wit, cls)
        else:
            res.ok(cls, ('gaps', tuple(case['pair']), case['mk'], case['gap'] - H))
        return
    if kind == 'ka-interval':
        cls = f'ka:{case["load"]}:H{H}'
        end = [e['t'] for e in rec['events'] if e['kind'] == 'mark' and e.get('name') == 'end']
        t_end = end[0] if end else rec['end']
        if sess['eof_at'] is not None and sess['eof_at'] < t_end - 0.001:
            res.violation(f'C12/session-lost-under-load:{case["load"]}', f'H={H} load={case["load"]}: session closed at {sess["eof_at"]} while the remote kept sending ({nts})', wit, cls)
            return
        ks = [t for t in kas(sess) if t <= t_end]
        if len(ks) < 2:
            res.violation(f'C12/no-keepalives:{case["load"]}', f'H={H}: {len(ks)} keepalives in {t_end:.1f}s', wit, cls)
            return
        limit = H / 3.0 + G
        gaps = [b - a for a, b in zip(ks, ks[1:])] + [t_end - ks[-1]]
        worst = max(gaps)
        if worst > limit:
            res.violation(f'C12/keepalive-gap:{case["load"]}', f'H={H} load={case["load"]}: {worst:.2f}s between KEEPALIVEs (limit H/3+G={limit:.2f})', wit, cls)
        else:
            res.ok(cls, ('ka', H, case['load'], round(worst, 1)))
        return
    if kind == 'h0':
        cls = f'h0:{case["pair"][0]}-{case["pair"][1]}'
        t0 = [e['t'] for e in rec['events'] if e['kind'] == 'mark' and e.get('name') == 'idle-start'][0]
        t1 = [e['t'] for e in rec['events'] if e['kind'] == 'mark' and e.get('name') == 'idle-end']
        if not t1:
            res.inconclusive.append('h0: idle-end not reached')
            return
        late_kas = [t for t in kas(sess) if t > t0]
        if late_kas:
            res.violation('C12/h0-periodic-keepalive', f'hold time 0 negotiated but {len(late_kas)} KEEPALIVEs sent while idle (first at {late_kas[0]:.1f})', wit, cls)
        elif nts or (sess['eof_at'] is not None and sess['eof_at'] < t1[0]):
            res.violation('C12/h0-session-ended', f'hold time 0 negotiated but session ended: {nts} eof={sess["eof_at"]}', wit, cls)
        else:
            res.ok(cls, ('h0', tuple(case['pair']), case['T']))
        return
    if kind == 'openconfirm':
        cls = f'openconfirm:H{H}'
        t_open = [t for t, ln, ty in sess['tx'] if ty == rw.OPEN]
        confirm = [e['t'] for e in rec['events'] if e['kind'] == 'fsm' and e['dst'] == 'OPENCONFIRM']
        if not t_open or not confirm:
            res.inconclusive.append(f'openconfirm: OPENCONFIRM not reached {rec["notes"]}')
            return
        if H == 0:
            if nts or sess['eof_at'] is not None:
                res.violation('C12/h0-openconfirm-ended', f'hold time 0 negotiated but the attempt ended in OPENCONFIRM: {nts} eof={sess["eof_at"]}', wit, cls)
            else:
                res.ok(cls, ('openconfirm', 0))
            return
        hold = [n for n in nts if (n[1], n[2]) == (4, 0)]
        if not hold:
            res.violation('C12/no-hold-expiry:openconfirm', f'H={H}: OPENs exchanged, remote silent for {rec["end"] - t_open[0]:.1f}s without its KEEPALIVE, no 4/0 (got {nts}, closed={sess["eof_at"]})', wit, cls)
            return
        silence = hold[0][0] - t_open[0]
        if silence <= H:
            res.violation('C12/hold-fires-early:openconfirm', f'H={H}: 4/0 after only {silence:.3f}s of silence in OPENCONFIRM', wit, cls)
        elif silence > H + G:
            res.violation('C12/hold-fires-late:openconfirm', f'H={H}: 4/0 after {silence:.3f}s of silence in OPENCONFIRM (> H+G)', wit, cls)
        else:
            res.ok(cls, ('openconfirm', tuple(case['pair']), round(silence - H, 1)))
        return
    if kind == 'trickle':
        cls = f'trickle:H{H}'
        t_last = [e['t'] for e in rec['events'] if e['kind'] == 'mark' and e.get('name') == 'last-sent'][0]
        hold = [n for n in nts if (n[1], n[2]) == (4, 0)]
        if not hold:
            res.violation('C12/no-hold-expiry:partial-message', f'H={H}: only bytes of a never completed message for {rec["end"] - t_last:.1f}s, no 4/0 (got {nts}, closed={sess["eof_at"]})', wit, cls)
            return
        silence = hold[0][0] - t_last
        if silence <= H - 0.01:
            res.violation('C12/hold-fires-early', f'H={H}: 4/0 after only {silence:.3f}s', wit, cls)
        elif silence > H + G:
            res.violation('C12/hold-fires-late:partial-message', f'H={H}: 4/0 {silence:.3f}s after the last complete message (> H+G) while bytes of an incomplete message kept arriving', wit, cls)
        else:
            res.ok(cls, ('trickle', H, round(silence - H, 1)))
        return
    if kind == 'blocked-writer':
        cls = f'blocked-writer:H{H}'
        marks = {e['name']: e for e in rec['events'] if e['kind'] == 'mark'}
        if 'deadline' not in marks or 'resume' not in marks:
            res.inconclusive.append('blocked-writer: marks missing')
            return
        dl = marks['deadline']
        # precondition: a write was started and had not returned for the whole silence (the writer really was blocked)
        blocked = dl['writes_started'] > dl['writes_done'] and marks['resume']['writes_done'] == dl['writes_done']
        if not blocked:
            res.count('blocked-writer:writer-never-blocked')
            left = [e['t'] for e in rec['events'] if e['kind'] == 'fsm' and e['src'] == 'ESTABLISHED']
            if left and left[0] - last_tx <= H + G:
                res.ok(f'unblocked-writer:H{H}', ('unblocked', H))
            return
        closes = [e['t'] for e in rec['events'] if e['kind'] == 'conn-close']
        left = [e['t'] for e in rec['events'] if e['kind'] == 'fsm' and e['src'] == 'ESTABLISHED']
        t_end = min(closes + left) if closes + left else None
        wit.update(conn_close=closes, left_established=left, deadline=dl['t'], resume=marks['resume']['t'])
        if t_end is None or t_end - last_tx > H + G:
            after = 'never' if t_end is None else f'{t_end - last_tx:.2f}s after the last message, once the remote read again'
            res.violation('C12/hold-starved-by-blocked-writer', f'H={H}: the remote stopped reading and sending while a batch was being written; the session was ended {after} (limit H+G={H + G})', wit, cls)
        else:
            res.ok(cls, ('blocked', H))
        return
    if kind == 'openwait':
        cls = f'openwait:W{case["W"]}'
        t0 = [e['t'] for e in rec['events'] if e['kind'] == 'mark' and e.get('name') == 'open-seen'][0]
        # the wait starts when our OPEN has been written: take the arrival time of that OPEN
        t_open = [m[0] for m in sess['rx'] if m[1] == rw.OPEN][0]
        fsm = [n for n in nts if (n[1], n[2]) == (5, 1)]
        if not fsm:
            res.violation('C12/openwait-no-5/1', f'W={case["W"]}: no 5/1 (got {nts}, eof={sess["eof_at"]})', wit, cls)
            return
        d = fsm[0][0] - t_open
        if d < case['W'] - 0.01 or d > case['W'] + G:
            res.violation('C12/openwait-timing', f'W={case["W"]}: 5/1 after {d:.2f}s', wit, cls)
        else:
            res.ok(cls, ('openwait', case['W'], round(d - case['W'], 1)))
        return


def run_daemon(desc):
    """the timers of the REAL daemon in REAL time (the lab runs them on a virtual clock).  Only what no load on the machine can
    excuse is a violation: a hold-timer NOTIFICATION EARLIER than H after the peer's last message, a session dropped although
    the peer sent a KEEPALIVE every H/3, a silence of the daemon of H seconds or more while the peer was reading.  A
    NOTIFICATION which comes late, or not within H + 15 s, is counted / skipped"""
    import time

    from vlib import daemon, exa

    res = Result()
    mode = ('silent', 'chatty', 'silent', 'chatty')[desc['part'] % 4]
    H = 3 if mode == 'silent' else 6
    text = exa.neighbor_text(families=[(1, 1)], hold=H)
    d = daemon.Daemon(text, env={'exabgp_log_level': 'ERROR'})
    peer = None
    wit = {'mode': mode, 'hold': H, 'level': 'daemon'}
    try:
        d.start()
        peer = d.accept()
        peer.establish(65001, hold=H)
        t_last_tx = time.monotonic()
        rx_times = [time.monotonic()]
        if mode == 'silent':
            got = None
            while time.monotonic() - t_last_tx < H + 15:
                t, body = peer.read_message(0.2)
                if t == 3:
                    got = (time.monotonic() - t_last_tx, body[0], body[1])
                    break
                if t is None:
                    got = (time.monotonic() - t_last_tx, None, None)
                    break
            wit['observed'] = got
            if got is None:
                daemon.skipped(res, f'no hold-timer NOTIFICATION within H + 15 s of silence (H={H})')
            elif got[1] is None:
                res.violation('C12/daemon:closed-without-notification', f'silent peer, H={H}: the connection was closed after {got[0]:.2f} s without a NOTIFICATION', wit, 'daemon:silent')
            elif (got[1], got[2]) != (4, 0):
                res.violation(f'C12/daemon:wrong-notification:{got[1]}/{got[2]}', f'silent peer, H={H}: NOTIFICATION {got[1]}/{got[2]} after {got[0]:.2f} s', wit, 'daemon:silent')
            elif got[0] < H - 0.3:
                res.violation('C12/daemon:hold-expired-early', f'H={H}: hold-timer NOTIFICATION {got[0]:.2f} s after the peer\'s last message', wit, 'daemon:silent')
            else:
                res.ok('daemon:silent', ('daemon', 'silent', H))
                res.ok('daemon:timers')
                res.count('daemon:hold-expiry-late' if got[0] > H + 2 else 'daemon:hold-expiry-on-time')
        else:
            t0 = time.monotonic()
            next_ka = t0 + H / 3
            ended = None
            stall = 0.0  # the longest pause of THIS loop: a machine which starves the observer starves the daemon too
            last_turn = t0
            while time.monotonic() - t0 < 2.5 * H:
                stall = max(stall, time.monotonic() - last_turn)
                last_turn = time.monotonic()
                if time.monotonic() >= next_ka:
                    peer.send(4)
                    next_ka += H / 3
                t, body = peer.read_message(0.1)
                if t in (2, 4):
                    rx_times.append(time.monotonic())
                elif t == 3:
                    ended = ('notification', body[0], body[1], time.monotonic() - t0)
                    break
                elif t is None:
                    ended = ('closed', None, None, time.monotonic() - t0)
                    break
            gaps = [b - a for a, b in zip(rx_times, rx_times[1:])] + [time.monotonic() - rx_times[-1]]
            wit.update(ended=ended, max_gap=round(max(gaps), 2), keepalives_received=len(rx_times) - 1)
            wit['observer_longest_pause'] = round(stall, 2)
            if stall > 1.0:
                daemon.skipped(res, f'the observing loop itself paused for {stall:.1f} s: real-time verdicts are not taken on such a run')
            elif ended:
                res.violation(f'C12/daemon:closed-despite-traffic:{ended[0]}', f'H={H}: the peer sent a KEEPALIVE every {H / 3:.1f} s and the session ended ({ended[:3]}) after {ended[3]:.1f} s', wit, 'daemon:chatty')
            elif max(gaps) >= H:
                res.violation('C12/daemon:silent-for-a-hold-time', f'H={H}: the daemon sent nothing for {max(gaps):.1f} s while the peer was reading (it promises a KEEPALIVE every H/3)', wit, 'daemon:chatty')
            else:
                res.ok('daemon:chatty', ('daemon', 'chatty', H))
                res.ok('daemon:timers')
    except daemon.Inconclusive as e:
        daemon.skipped(res, str(e))
    finally:
        try:
            if peer is not None:
                peer.close()
        except Exception:  # noqa
            pass
        d.stop()
    return res


def run_shard(desc):
    if desc.get('daemon'):
        return run_daemon(desc)
    res = Result()
    cs = cases(desc['tier'], desc['seed'])
    # longest first for balance
    cs.sort(key=lambda c: -c.get('vtimeout', 0))
    mine = [c for i, c in enumerate(cs) if i % desc['nshards'] == desc['shard']]
    for case in mine:
        status, rec = scen.run_case(case)
        if status != 'ok':
            res.inconclusive.append(f'{case["kind"]} H={case.get("H")}: lab {status} {str(rec)[:300]}')
            continue
        judge(res, case, rec)
        res.sample({'kind': case['kind'], 'H': case.get('H'), 'keepalives': kas(rec['sessions'][0])[:8] if rec['sessions'] else [], 'end': rec['end']}, limit=3)
    return res


def finish(merged, tier, seed):
    need = ['silence', 'gaps', 'ka:idle', 'ka:outbound', 'ka:inbound', 'h0', 'openwait', 'openconfirm', 'trickle', 'blocked-writer', 'daemon:timers']
    for n in need:
        if not any(c.startswith(n) and v for c, v in merged['classes'].items()):
            merged['inconclusive'].append(f'scenario class never judged: {n}')
