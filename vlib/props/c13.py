"""C13 - API events stay well-formed whatever a peer sends.

Every message that the real decoders accept is rendered by the four real encoders (Response.JSON, Response.Text,
Response.V4.JSON, Response.V4.Text) with the arguments production passes, and the returned string is handed to the real
Processes.write of a Processes object owning one harness process per encoder (no fork: a pipe end as stdin).  Observed:
exceptions of the encoders and of write(), and the bytes queued for the process.

Oracles (none shares code with ExaBGP): json.loads with a duplicate-key rejecting hook, an envelope schema, line and
character rules for text, and a shape comparison between a message and the same message with one peer-chosen byte field
replaced by a canary (non-interference).
"""

from __future__ import annotations

import collections
import io
import os
import random
import re
import struct
import types

from vlib import c13_helpers as H
from vlib import corpus, exa, gen_wire as gw, norm
from vlib import refwire as rw
from vlib.mon import Result
from vlib.props import c03

PROPERTY = 'C13'
LEVEL = 'exploration'
RULE = (
    'every message that decodes: generated well-formed UPDATEs (8 session kinds), the qa corpus (every family) and seeded '
    'mutations of it that still decode, OPEN with host name / software version / unknown capabilities, NOTIFICATION with '
    'shutdown communication and arbitrary data, ROUTE-REFRESH, KEEPALIVE, OPERATIONAL (advisory, query, counter, unknown), state '
    'events; RFC-shaped repetitions of TLVs; plus field/canary pairs: one peer-chosen byte field replaced by each of 27 canaries. '
    'Each is rendered by 4 encoders in parsed and consolidate (header/body) form and through packets(). distinct = distinct '
    '(encoder, message type, class reached, attribute/NLRI classes, form) signatures'
)
ASSUMPTIONS = [
    'the record of a text event is what Processes.write queues: the lines of the encoder plus the terminator write() appends; the single empty line this leaves after most text events is the long standing wire format and is counted, not flagged',
    'the raw line of a consolidated text update (" header 0x.. body 0x..") carries no neighbor prefix by design of the text format; it is checked against its own pattern instead',
    'a Notify raised while rendering is counted as a late refusal of the message (the statement quantifies over messages that decode), any other exception is a violation',
    'envelope = keys of reactor/api/response/json.py _header/_neighbor: exabgp,time,host,pid,ppid,type (+counter, neighbor.address.local/peer, neighbor.asn.local/peer, direction for message events); v4 differs by the version string only',
    'expected line count of a text update = start + announced NLRI + withdrawn NLRI (+ raw) + end, or start + 1 route line + end for End-of-RIB; counts come from the intent for generated UPDATEs and from the decoded message otherwise',
    'down(reason): production only passes its own strings; hostile reasons are exercised too because the encoders document that they neutralise them',
]
MANIFEST = {  # (pipe conservation: 200 KB of events through the real flush_write_queue() and a real pipe with a late, odd-sized reader)
    'level': 'exploration',
    'technique': 'runtime monitoring: real decoders -> real four API encoders -> real Processes.write, observed strings/bytes/exceptions judged by independent oracles (strict JSON parse, envelope schema, text line and character rules, shape non-interference under canary substitution)',
    'text': 'Generated, corpus, mutated and hand-built hostile messages that decode are rendered by Response.JSON/Text and Response.V4.JSON/Text '
    'with production arguments and queued through Processes.write. Held = no exception, every JSON event one parseable line without '
    'duplicate keys and with the documented envelope, every text event with the expected lines, prefixes and no control byte, and no '
    'canary able to change the shape of an event.',
    'note': 'only the inputs generated are judged; the reach list (json/__str__/extensive/... under bgp/message never entered) is in evidence coverage.not_exercised and is outside the claim',
}
SHARD_TIMEOUT = {'quick': 240, 'thorough': 2400}

ENCODERS = ('json6', 'text6', 'json4', 'text4')
PEER_IP, LOCAL_IP, LAS, PAS = '127.0.0.2', '127.0.0.1', 65000, 65001
FAMS = c03.FAMS


def plan(tier, seed):
    if tier == 'quick':
        return [{'shard': i, 'of': 16, 'updates': 400, 'mutants': 300, 'sweeps': 400, 'others': 2} for i in range(16)]
    return [{'shard': i, 'of': 64, 'updates': 5000, 'mutants': 3500, 'sweeps': 5000, 'others': 25} for i in range(64)]


def normkey(s: str) -> str:
    s = re.sub(r'0x[0-9A-Fa-f]+', '0xN', str(s))
    s = re.sub(r'(?<![A-Za-z])\d+', 'N', s)
    return s[:60]


class FakeProcess:
    """what Processes needs of a subprocess.Popen: stdin (a pipe end) and nothing else"""

    def __init__(self) -> None:
        self.r, w = os.pipe()
        os.set_blocking(self.r, False)
        os.set_blocking(w, False)
        self.stdin = io.FileIO(w, 'w', closefd=True)
        self.stdout = None
        self.pid = 0

    def drain(self) -> bytes:
        out = b''
        while True:
            try:
                chunk = os.read(self.r, 1 << 16)
            except BlockingIOError:
                break
            if not chunk:
                break
            out += chunk
        return out


class Harness:
    def __init__(self, res: Result):
        from exabgp.reactor.api.processes import Processes
        from exabgp.reactor.api.response import Response
        from exabgp.version import json as v6
        from exabgp.version import json_v4, text_v4

        self.res = res
        self.enc = {
            'json6': Response.JSON(v6),
            'text6': Response.Text(v6),
            'json4': Response.V4.JSON(json_v4),
            'text4': Response.V4.Text(text_v4),
        }
        self.version = {'json6': v6, 'text6': v6, 'json4': json_v4, 'text4': text_v4}
        # async mode: write() queues the bytes (what the reactor does in production)
        self.procs = Processes()
        self.procs._async_mode = True
        # sync mode: write() puts the bytes on the pipe itself
        self.sync = Processes()
        self.sync._async_mode = False
        self.fake = {}
        for name, enc in self.enc.items():
            for p in (self.procs, self.sync):
                fp = FakeProcess()
                self.fake[(id(p), name)] = fp
                p._process[name] = fp
                p._encoder[name] = enc
                p._ack[name] = True
                p._ackjson[name] = False
                p._write_queue[name] = collections.deque()
        self.n = 0
        self.late = 0

    # ------------------------------------------------------------------ one event through one encoder
    def emit(self, encname, mt, what, call, spec, wit, field=None, sig=None):
        """-> ('json', parsed) | ('text', [lines]) | ('none', None) | None when an oracle fired / nothing to compare"""
        from exabgp.bgp.message import Notify

        res = self.res
        cls = f'{encname}:{mt}:{what}'
        wit = dict(wit, encoder=encname, event=f'{mt}:{what}')
        self.n += 1
        try:
            s = call(self.enc[encname])
        except Notify as n:
            self.late += 1
            res.count(f'late-notify:{encname}:{mt}')
            lst = res.extra.setdefault('late_notify', [])
            item = f'{encname}:{mt}:{n.code}/{n.subcode}:{c03.innermost(n.__traceback__)}'
            if item not in lst and len(lst) < 40:
                lst.append(item)
            return None
        except Exception as e:  # noqa
            where = c03.innermost(e.__traceback__)
            res.violation(f'C13/render-raises:{encname}:{mt}:{type(e).__name__}:{where}', f'{encname}.{mt} raised {type(e).__name__}: {str(e)[:160]} in {where}', wit, cls)
            return None
        q = self.procs._write_queue[encname]
        q.clear()
        try:
            ret = self.procs.write(encname, s, self.nb)
        except Exception as e:  # noqa
            detail = ''
            if isinstance(e, UnicodeEncodeError):
                detail = f' character {e.object[e.start:e.end]!r} at {e.start}'
            res.violation(f'C13/write-raises:{encname}:{type(e).__name__}', f'Processes.write raised {type(e).__name__}{detail} for a {encname} {mt} event', dict(wit, output=repr(s)[:700]), f'write:{encname}')
            return None
        data = b''.join(q)
        q.clear()
        if ret is not True:
            res.violation(f'C13/write-raises:{encname}:returned-{ret!r}', f'Processes.write returned {ret!r}', dict(wit, output=repr(s)[:300]), f'write:{encname}')
            return None
        if s is None:
            if data:
                res.violation(f'C13/write-raises:{encname}:queued-for-None', 'write queued bytes for an event the encoder does not emit', wit, f'write:{encname}')
                return None
            res.ok(f'{encname}:{mt}:none', (encname, mt, 'none'))
            return ('none', None)
        if not data:
            res.violation(f'C13/write-raises:{encname}:nothing-queued', 'write queued nothing for a rendered event', wit, f'write:{encname}')
            return None
        # the same string through the sync flavour of write(): the bytes on the pipe must be the bytes queued
        if self.n % 7 == 0 and len(data) < 30000:
            fp = self.fake[(id(self.sync), encname)]
            try:
                self.sync.write(encname, s, self.nb)
                got = fp.drain()
                if got != data:
                    res.violation(f'C13/write-raises:{encname}:pipe-differs', 'bytes put on the pipe by the sync write differ from the bytes queued by the async write', dict(wit, pipe=repr(got[:200]), queued=repr(data[:200])), f'write:{encname}')
                    return None
                res.ok(f'write-pipe:{encname}')
            except Exception as e:  # noqa
                res.violation(f'C13/write-raises:{encname}:{type(e).__name__}', f'sync Processes.write raised {type(e).__name__}', dict(wit, output=repr(s)[:300]), f'write:{encname}')
                return None
        res.ok(f'write:{encname}')
        wit = dict(wit, output=repr(data[:900]))
        if encname.startswith('json'):
            out = self.judge_json(encname, mt, what, data, spec, wit, field, cls)
        else:
            out = self.judge_text(encname, mt, what, data, spec, wit, field, cls)
        if out is not None:
            res.ok(cls, sig if sig is not None else (encname, mt, what))
            res.classes[f'{encname}:{mt}'] = res.classes.get(f'{encname}:{mt}', 0) + 1
        return out

    def judge_json(self, encname, mt, what, data, spec, wit, field, cls):
        res = self.res
        js = spec['json']
        if not data.endswith(b'\n') or b'\n' in data[:-1] or b'\r' in data:
            res.violation(f'C13/json-multiline:{encname}:{mt}', 'a JSON event is not exactly one newline terminated line', wit, cls)
            return None
        text = data.decode('ascii')
        try:
            ev = norm.strict_loads(text)
        except norm.DupKey as d:
            res.violation(f'C13/json-duplicate-key:{encname}:{normkey(d.args[0])}', f'duplicate key {d.args[0]!r} inside one object of a {mt} event', dict(wit, key=d.args[0]), cls)
            return None
        except ValueError as e:
            where = (spec.get('locate') or (lambda: ''))() or (field.split(':', 1)[1] if field else '')
            pos = getattr(e, 'pos', 0)
            res.violation(f'C13/json-unparseable:{encname}:{mt}:{normkey(where)}', f'JSON event does not parse: {str(e)[:80]}', dict(wit, around=text[max(0, pos - 160) : pos + 80]), cls)
            return None
        errs = H.envelope_errors(ev, self.version[encname], js['etype'], js.get('nb', True), js.get('direction'), PEER_IP, LOCAL_IP, LAS, PAS, js.get('header', False), js.get('body', False), js.get('content'))
        if errs:
            for e in errs[:3]:
                res.violation(f'C13/envelope:{encname}:{e}', f'envelope of a {mt} event: {e}', wit, cls)
            return None
        if field:
            bad = [k for k in H.all_keys(ev) if any(m in k for m in H.MARKERS)]
            if bad:
                res.violation(f'C13/injection:{encname}:{field}:key-added', f'canary text became the key {bad[0]!r}', wit, cls)
                return None
        return ('json', ev)

    def judge_text(self, encname, mt, what, data, spec, wit, field, cls):
        res = self.res
        ts = spec['text']
        lines, blank, problems = H.split_record(data)
        if blank:
            res.count('text-record-ends-with-empty-line')
        if problems:
            res.violation(f'C13/text-line-count:{encname}:{mt}', f'text event record: {",".join(problems)}', wit, cls)
            return None
        for ln in lines:
            cb = H.control_bytes(ln)
            if cb:
                if field:
                    kind = field.split(':', 1)[1]
                elif mt == 'update':
                    kind = normkey((ln.decode('latin-1').split(' ')[4:5] or ['line'])[0])
                else:
                    kind = 'line'
                res.violation(f'C13/text-control-char:{encname}:{mt}:{kind}', f'text line carries bytes {[hex(b) for b in cb][:6]}', wit, cls)
                return None
        tl = [ln.decode('ascii') for ln in lines]
        if ts['kind'] == 'single':
            if len(tl) != 1:
                res.violation(f'C13/text-line-count:{encname}:{mt}', f'{len(tl)} lines for a one line {mt} event', wit, cls)
                return None
            m = re.match(ts['pattern'], tl[0])
            if not m:
                res.violation(f'C13/text-prefix:{encname}', f'{mt} line does not start with {ts["pattern"]!r}', wit, cls)
                return None
            return ('text', tl)
        # update
        pre = f'neighbor {PEER_IP} {ts["direction"]} update '
        kinds = []
        for ln in tl:
            if ln.startswith(pre):
                kinds.append(ln[len(pre) :].split(' ')[0])
            elif ts.get('raw') and H.RAW_LINE.match(ln):
                kinds.append('raw')
            else:
                res.violation(f'C13/text-prefix:{encname}', f'update line does not start with {pre!r}', dict(wit, line=ln[:200]), cls)
                return None
        c = collections.Counter(kinds)
        exp = {'start': 1, 'end': 1, 'announced': ts['ann'], 'withdrawn': ts['wd'], 'route': ts['eor'], 'raw': 1 if ts.get('raw') else 0}
        got = {k: c.get(k, 0) for k in exp}
        extra = set(c) - set(exp)
        order_ok = kinds[:1] == ['start'] and kinds[-1:] == ['end']
        if ts.get('total_only'):
            same = got['announced'] + got['withdrawn'] == exp['announced'] + exp['withdrawn'] and all(got[k] == exp[k] for k in ('start', 'end', 'route', 'raw'))
        else:
            same = got == exp
        if extra or not same or not order_ok:
            res.violation(f'C13/text-line-count:{encname}:{mt}', f'update text lines {dict(c)} expected {exp}', wit, cls)
            return None
        return ('text', tl)


# ---------------------------------------------------------------------------------------------- specs per message type

HB = r'( header 0x[0-9A-F]+( body 0x[0-9A-F]+)?)?$'
SINGLE = {
    'open': rf'^neighbor {re.escape(PEER_IP)} receive open version \d+ asn \d+ hold_time \d+ router_id [0-9.]+ capabilities \[.*\]' + HB,
    'notification': rf'^neighbor {re.escape(PEER_IP)} receive notification code \d+ subcode \d+ data 0x[0-9A-F]*' + HB,
    'keepalive': rf'^neighbor {re.escape(PEER_IP)} receive keepalive' + HB,
    'refresh': rf'^neighbor {re.escape(PEER_IP)} receive route-refresh afi .+ safi .+ \S+' + HB,
    'operational': rf'^neighbor {re.escape(PEER_IP)} receive operational ',
    'packets': rf'^neighbor {re.escape(PEER_IP)} receive \d+ header 0x[0-9A-F]+( body 0x[0-9A-F]+)?$',
    'state-up': rf'^neighbor {re.escape(PEER_IP)} up$',
    'state-connected': rf'^neighbor {re.escape(PEER_IP)} connected$',
    'state-down': rf'^neighbor {re.escape(PEER_IP)} down - ',
    'shutdown': r'^shutdown \d+ \d+$',
}
JSON_TYPE = {'open': 'open', 'update': 'update', 'notification': 'notification', 'keepalive': 'keepalive', 'refresh': 'refresh', 'operational': 'operational'}
JSON_CONTENT = {'open': 'open', 'update': 'message', 'notification': 'notification', 'keepalive': None, 'refresh': 'route-refresh', 'operational': 'operational'}
PACKET_TYPE = {1: 'open', 2: 'update', 3: 'notification', 4: 'keepalive', 5: 'route-refresh', 6: 'operational'}


def locate_update(coll, v4: bool):
    """diagnosis only: which fragment of an update does not parse on its own"""

    def closure():
        try:
            if getattr(coll, 'IS_EOR', False):
                return 'eor'
            for frag in coll.attributes._generate_json():
                try:
                    norm.strict_loads('{' + frag + '}')
                except ValueError:
                    return 'attribute:' + frag.split(':', 1)[0].strip().strip('"')
            for n in [r.nlri for r in coll.announces] + list(coll.withdraws):
                j = str(n.v4_json() if v4 else n.json())
                try:
                    norm.strict_loads(j)
                except ValueError:
                    try:
                        norm.strict_loads('{' + j + '}')
                    except ValueError:
                        return 'nlri:' + type(n).__name__
        except Exception:  # noqa
            return ''
        return ''

    return closure


def locate_open(msg):
    """diagnosis only: which capability does not render as JSON on its own"""

    def closure():
        try:
            for cap in msg.capabilities.values():
                try:
                    norm.strict_loads(cap.json())
                except ValueError:
                    return 'capability:' + type(cap).__name__
        except Exception:  # noqa
            return ''
        return ''

    return closure


class Driver:
    def __init__(self, desc):
        self.desc = desc
        self.res = Result()
        exa.quiet()
        self.reach = H.ReachSet()
        self.reach.discover()
        self.reach.install()
        self.h = Harness(self.res)
        self.kinds = c03.session_kinds()
        self.built = {}
        self.decoded = 0

    def sess(self, i):
        sk = self.kinds[i % len(self.kinds)]
        if sk['name'] not in self.built:
            self.built[sk['name']] = c03.build_session(sk)
        nb, neg = self.built[sk['name']]
        self.h.nb = nb
        return sk, nb, neg

    def decode(self, mtype, body, neg):
        """-> (message object, collection for updates) or None when the real decoder refuses it"""
        from exabgp.bgp.message import Message, Notify

        try:
            msg = Message.unpack(mtype, memoryview(body), neg)  # a memoryview, as Connection.reader hands the body over
            coll = None
            if mtype == 2:
                coll = msg if getattr(msg, 'IS_EOR', False) else msg.data
                if not getattr(coll, 'IS_EOR', False):
                    list(coll.announces)
                    list(coll.withdraws)
            return msg, coll
        except Notify as n:
            self.res.count(f'refused:{H.TNAME.get(mtype, mtype)}')
            return None
        except Exception as e:  # noqa  (C03's business)
            self.res.count(f'decoder-raises:{type(e).__name__}')
            return None

    # ------------------------------------------------------------------ one decoded message through everything
    def message(self, mtype, body, sk, nb, neg, what, wit, field=None, forms=('parsed',), encoders=ENCODERS, intent=None):
        """-> {(encoder, form): observation}"""
        d = self.decode(mtype, body, neg)
        if d is None:
            return None
        msg, coll = d
        self.decoded += 1
        mt = H.TNAME[mtype]
        raw = rw.message(mtype, body)
        out = {}
        wit = dict(wit, type=mtype, body=body.hex() if len(body) <= 1500 else body[:500].hex() + f'...({len(body)} bytes)', session=sk['name'])
        sig_extra = ()
        tags = []
        if mtype == 2:
            if getattr(coll, 'IS_EOR', False):
                n_ann, n_wd, n_eor = 0, 0, len(coll.nlris)
                tags.append('eor')
            else:
                anns = list(coll.announces)
                wds = list(coll.withdraws)
                n_ann, n_wd, n_eor = len(anns), len(wds), 0
                nl = sorted({type(r.nlri).__name__ for r in anns} | {type(n).__name__ for n in wds})
                at = sorted({type(a).__name__ for a in coll.attributes.values()})
                tags += ['nlri-' + x for x in nl] + ['attr-' + x for x in at]
                sig_extra = (tuple(nl), tuple(at), min(n_ann, 3), min(n_wd, 3))
            total_only = False
            if intent is not None:
                # independent expectation: what the bytes were built from
                if intent['eor']:
                    n_ann, n_wd, n_eor = 0, 0, 1
                else:
                    n_ann, n_wd, n_eor = len(intent['announce']), len(intent['withdraw']), 0
                    total_only = True  # treat-as-withdraw may move an announce to the withdraws, never drop it
        elif mtype == 1:
            tags += ['cap-' + type(c).__name__ for c in msg.capabilities.values()]
        elif mtype == 6:
            tags.append('op-' + str(getattr(msg, 'category', '?')) + '-' + str(getattr(msg, 'name', '?')))
        for form in forms:
            header, bdy = (raw[:19], raw[19:]) if form == 'consolidate' else (b'', b'')
            for encname in encoders:
                if form == 'generic' and not encname.startswith('json'):
                    continue
                v4 = encname.endswith('4')
                spec = {'json': {'etype': JSON_TYPE[mt], 'direction': 'receive', 'content': JSON_CONTENT[mt], 'header': bool(header), 'body': bool(bdy)}}
                if mtype == 2:
                    spec['text'] = {'kind': 'update', 'direction': 'receive', 'ann': n_ann, 'wd': n_wd, 'eor': n_eor, 'raw': bool(header or bdy), 'total_only': total_only}
                    spec['locate'] = locate_update(coll, v4)
                    call = lambda e: e.update(nb, 'receive', coll, header, bdy, neg)  # noqa: E731
                else:
                    spec['text'] = {'kind': 'single', 'pattern': SINGLE[mt]}
                    if mtype == 1:
                        call = lambda e: e.open(nb, 'receive', msg, header, bdy, neg)  # noqa: E731
                        spec['locate'] = locate_open(msg)
                    elif mtype == 3:
                        call = lambda e: e.notification(nb, 'receive', msg, header, bdy, neg)  # noqa: E731
                    elif mtype == 4:
                        call = lambda e: e.keepalive(nb, 'receive', header, bdy, neg)  # noqa: E731
                    elif mtype == 5:
                        call = lambda e: e.refresh(nb, 'receive', msg, header, bdy, neg)  # noqa: E731
                    else:
                        call = lambda e: e.operational(nb, 'receive', msg.category, msg, header, bdy, neg)  # noqa: E731
                if form == 'generic':

                    def call(e, inner=call):
                        e.generic_attribute_format = True
                        try:
                            return inner(e)
                        finally:
                            e.generic_attribute_format = False

                w = what if form == 'parsed' else f'{what}+{"raw" if form == "consolidate" else form}'
                obs = self.h.emit(encname, mt, w, call, spec, wit, field=field, sig=(encname, mt, w, sig_extra, tuple(tags) if mtype != 2 else ()))
                out[(encname, form)] = obs
                if encname == 'json6' and form == 'parsed' and obs is not None and self.decoded % 8 == 0:
                    self.dispatch(mtype, mt, msg, nb, neg, obs, wit)
                if obs is not None:
                    for t in tags:
                        k = f'{encname}:{mt}:{t}'
                        self.res.classes[k] = self.res.classes.get(k, 0) + 1
        return out

    def dispatch(self, mtype, mt, msg, nb, neg, obs, wit):
        """the same message through the production dispatcher Processes.message: the harness calls must be what it does"""
        procs = self.h.procs
        key = f'receive-{mt}'
        saved = nb.api.get(key)
        nb.api[key] = ['json6']
        q = procs._write_queue['json6']
        q.clear()
        try:
            procs.message(mtype, types.SimpleNamespace(neighbor=nb), 'receive', msg, b'', b'', neg)
            data = b''.join(q)
            ev = norm.strict_loads(data.decode('ascii'))
            mine = dict(obs[1])
            for k in ('time', 'counter'):
                ev.pop(k, None)
                mine.pop(k, None)
            if ev != mine:
                self.res.inconclusive.append(f'harness fidelity: Processes.message renders a {mt} differently from the direct encoder call')
            else:
                self.res.ok(f'dispatch:{mt}')
        except Exception as e:  # noqa
            self.res.inconclusive.append(f'harness fidelity: Processes.message raised {type(e).__name__} for a {mt} the direct call rendered: {str(e)[:100]}')
        finally:
            q.clear()
            nb.api[key] = saved if saved is not None else []

    def packets(self, mtype, body, sk, nb, neg, wit):
        raw = rw.message(mtype, body)
        wit = dict(wit, type=mtype, body=body.hex()[:3000], session=sk['name'])
        for encname in ENCODERS:
            spec = {'json': {'etype': PACKET_TYPE[mtype], 'direction': 'receive', 'content': 'message'}, 'text': {'kind': 'single', 'pattern': SINGLE['packets']}}
            self.h.emit(encname, 'packets', H.TNAME[mtype], lambda e: e.packets(nb, 'receive', mtype, raw[:19], raw[19:], neg), spec, wit)

    # ------------------------------------------------------------------ state events
    def states(self, nb, neg, r):
        from exabgp.bgp.fsm import FSM
        from exabgp.bgp.message.open.capability.negotiated import Negotiated

        h = self.h
        wit = {'event': 'state'}
        reasons = ['', 'notification received (6,2)', 'notification sent (3,1)', 'closing connection', 'stop, message [shutting down]', 'out of cycle', 'peer reset, message [closing connection] error[the TCP connection was closed by the remote end]']
        hostile = [c.decode('utf-8', 'replace') for _, c in H.CANARIES if len(c) < 300]
        for encname in ENCODERS:
            js = lambda etype, content: {'json': {'etype': etype, 'direction': None, 'content': content}}  # noqa: E731
            sp = dict(js('state', 'state'), text={'kind': 'single', 'pattern': SINGLE['state-up']})
            h.emit(encname, 'state-up', 'up', lambda e: e.up(nb), sp, wit)
            sp = dict(js('state', 'state'), text={'kind': 'single', 'pattern': SINGLE['state-connected']})
            h.emit(encname, 'state-connected', 'connected', lambda e: e.connected(nb), sp, wit)
            base = None
            for i, reason in enumerate(reasons + hostile):
                sp = dict(js('state', 'reason'), text={'kind': 'single', 'pattern': SINGLE['state-down']})
                kind = 'production-reason' if i < len(reasons) else 'hostile-reason'
                o = h.emit(encname, 'state-down', kind, lambda e: e.down(nb, reason), sp, dict(wit, reason=repr(reason)), field='state:down-reason' if kind == 'hostile-reason' else None)
                if i == 1:
                    base = o
                elif o is not None and base is not None and kind == 'hostile-reason':
                    self.compare(encname, 'state:down-reason', 'state-down', base, o, dict(wit, reason=repr(reason)))
            sp = dict(js('negotiated', 'negotiated'), text=None)
            h.emit(encname, 'negotiated', 'negotiated', lambda e: e.negotiated(nb, neg), sp, wit)
            for st in (FSM.IDLE, FSM.ACTIVE, FSM.CONNECT, FSM.OPENSENT, FSM.OPENCONFIRM, FSM.ESTABLISHED):
                fsm = FSM(types.SimpleNamespace(neighbor=nb), st)
                sp = dict(js('fsm', 'state'), text=None)
                h.emit(encname, 'fsm', 'fsm', lambda e: e.fsm(nb, fsm), sp, wit)
            for sig in (1, 2, 10, 12, 15, 64, 0, 255):
                sp = dict(js('signal', 'code'), text=None)
                h.emit(encname, 'signal', 'signal', lambda e: e.signal(nb, sig), sp, wit)
            sp = {'json': {'etype': 'notification', 'nb': False, 'content': 'notification'}, 'text': {'kind': 'single', 'pattern': SINGLE['shutdown']}}
            h.emit(encname, 'shutdown', 'shutdown', lambda e: e.shutdown(), sp, wit)
            # a Notify built by the reactor itself (connection reader errors) goes through processes.notification
            from exabgp.bgp.message import Notify

            for code, sub, text in ((1, 2, 'invalid BGP header, invalid message size received (18) - invalid.'), (1, 1, 'The packet received does not contain a BGP marker'), (6, 2, 'shutting down'), (2, 0, None)):
                nt = Notify(code, sub, text)
                for hd, bd in ((b'', b''), (rw.MARKER + b'\x00\x12\x02', b'')):
                    sp = {'json': {'etype': 'notification', 'direction': 'receive', 'content': 'notification', 'header': bool(hd), 'body': bool(bd)}, 'text': {'kind': 'single', 'pattern': SINGLE['notification']}}
                    h.emit(encname, 'notification', 'reactor-notify', lambda e: e.notification(nb, 'receive', nt, hd, bd, neg), sp, dict(wit, notify=[code, sub, text]))
            if encname.startswith('json'):
                spu = {'json': {'etype': 'update', 'direction': 'receive', 'content': 'message'}, 'text': None}
                h.emit(encname, 'packets', 'unset-negotiated', lambda e: e.packets(nb, 'receive', 2, rw.MARKER + b'\0\x17\2', b'\0\0\0\0', Negotiated.UNSET), spu, wit)

    # ------------------------------------------------------------------ non-interference
    def compare(self, encname, field, mt, base, var, wit):
        res = self.res
        cls = f'{encname}:{field}'
        kb, b = base
        kv, v = var
        if kb != kv:
            return
        if kb == 'json':
            if H.shape(b) != H.shape(v):
                eff = H.shape_effect(b, v)
                diff = sorted(H.key_paths(v) ^ H.key_paths(b))[:6]
                res.violation(f'C13/injection:{encname}:{field}:{eff}', f'the shape of the {mt} event changes with the content of {field}: {diff}', wit, cls)
                return
            res.ok(cls, (encname, field, wit.get('canary')))
        elif kb == 'text':
            nt = 5 if mt == 'update' else 4
            pb = ['raw' if x.startswith(' ') else H.line_prefix(x, nt) for x in b]
            pv = ['raw' if x.startswith(' ') else H.line_prefix(x, nt) for x in v]
            if len(b) != len(v) or (pb != pv and not field.startswith('state:')):
                res.violation(f'C13/injection:{encname}:{field}:line-added', f'the lines of the {mt} event change with the content of {field}', dict(wit, base_lines=pb[:6], lines=pv[:6]), cls)
                return
            res.ok(cls, (encname, field, wit.get('canary')))

    def pipe_conservation(self, r):
        """a consumer which reads late and in odd bites: the queue is flushed by the real flush_write_queue() while the 64 KiB
        pipe fills (partial writes, EAGAIN). What comes out of the pipe must be the queued records, whole and in order."""
        import asyncio

        res = self.res
        procs = self.h.procs
        loop = asyncio.new_event_loop()
        try:
            for encname in ('json6', 'text4'):
                fp = self.h.fake[(id(procs), encname)]
                fp.drain()
                q = procs._write_queue[encname]
                q.clear()
                sk, nb, neg = self.sess(1)
                self.h.nb = nb
                recv_ap = {(int(a), int(s_)) for (a, s_), v in neg.addpath._receive.items() if v}
                sess = {'asn4': sk['asn4'], 'addpath': recv_ap, 'ibgp': False}
                want = []
                tries = 0
                while sum(map(len, want)) < 200000 and tries < 4000:
                    tries += 1
                    body, intent = gw.gen_update(r, sess, families=FAMS, rich=0.9)
                    d = self.decode(2, body, neg)
                    if d is None:
                        continue
                    msg, coll = d
                    try:
                        text = self.h.enc[encname].update(nb, 'receive', coll, b'', b'', neg)
                    except Exception:  # noqa  (judged elsewhere)
                        continue
                    if not text:
                        continue
                    before = len(q)
                    procs.write(encname, text, nb)
                    want += list(q)[before:]
                expected = b''.join(want)
                got = b''
                rounds = 0
                stalled = r.randrange(3, 30)  # the consumer does not read at all for the first rounds: the pipe fills
                acks_at = set(r.sample(range(2, stalled + 40), 3))  # commands acknowledged while events are queued, one half written
                while (q or len(got) < len(expected)) and rounds < 20000:
                    rounds += 1
                    loop.run_until_complete(procs.flush_write_queue())
                    if rounds in acks_at and q:
                        # every record was queued before this answer: it comes out after them, as one whole line
                        n0 = sum(map(len, q))
                        procs.write(encname, 'done')
                        added = sum(map(len, q)) - n0
                        expected += b'done\n' if added == 5 else b''
                        res.count('pipe-conservation:ack-queued-behind-events')
                        if added != 5:
                            res.count('pipe-conservation:ack-not-5-octets')
                    if rounds <= stalled:
                        continue
                    bite = r.choice([0, 1, 100, 4095, 4096, 4097, 65536, 1 << 20])
                    if bite:
                        try:
                            got += os.read(fp.r, bite)
                        except BlockingIOError:
                            pass
                wit = {'encoder': encname, 'records': len(want), 'octets': len(expected), 'rounds': rounds, 'stalled_rounds': stalled}
                cls = f'pipe-conservation:{encname}'
                if got != expected:
                    i = next((k for k in range(min(len(got), len(expected))) if got[k] != expected[k]), min(len(got), len(expected)))
                    kind = 'lost-or-stuck' if len(got) < len(expected) and expected.startswith(got) else 'reordered-or-interleaved'
                    res.violation(f'C13/pipe-{kind}:{encname}', f'{len(want)} records queued ({len(expected)} octets), the pipe delivered {len(got)} octets, first difference at octet {i}', dict(wit, around=repr(got[max(0, i - 60) : i + 60]), expected_around=repr(expected[max(0, i - 60) : i + 60])), cls)
                    continue
                res.ok(cls, ('pipe', encname, len(want) // 10), n=len(want))
                res.extra['pipe_conservation_octets'] = res.extra.get('pipe_conservation_octets', 0) + len(expected)
        finally:
            loop.close()

    def noninterference(self, r):
        sk, nb, neg = self.sess(1)  # asn4 / no add-path / extended next hop
        pairs = [(f, c) for f in sorted(H.FIELDS) for c in range(len(H.CANARIES))]
        mine = [p for i, p in enumerate(pairs) if i % self.desc['of'] == self.desc['shard']]
        if self.desc['tier'] != 'quick':
            mine = pairs if self.desc['shard'] < 4 else mine
        bases = {}
        for field, ci in mine:
            cname, payload = H.CANARIES[ci]
            mt = field.split(':')[0]
            if field not in bases:
                mtype, body = H.build_field(field, H.BENIGN)
                bases[field] = self.message(mtype, body, sk, nb, neg, 'field-benign', {'field': field, 'canary': 'benign'}, forms=('parsed', 'consolidate') if mt == 'update' else ('parsed',))
                if bases[field] is None:
                    self.res.inconclusive.append(f'the benign form of {field} does not decode')
            base = bases[field]
            if base is None:
                continue
            if self.desc['tier'] != 'quick' and self.desc['shard'] >= 1:
                # thorough: the canary sits inside random surrounding bytes of the peer's choosing
                pre = bytes(r.getrandbits(8) for _ in range(r.choice([0, 0, 1, 5])))
                payload = pre + payload + bytes(r.getrandbits(8) for _ in range(r.choice([0, 0, 2])))
            mtype, body = H.build_field(field, payload)
            wit = {'field': field, 'canary': cname, 'payload': payload[:300].hex()}
            var = self.message(mtype, body, sk, nb, neg, field.split(':', 1)[1], wit, field=field, forms=('parsed', 'consolidate') if mt == 'update' else ('parsed',))
            if var is None:
                self.res.count(f'canary-refused:{field}')
                continue
            for key, o in var.items():
                if o is not None and base.get(key) is not None:
                    self.compare(key[0], field, mt, base[key], o, dict(wit, type=mtype, body=body.hex()[:3000], form=key[1]))


# ---------------------------------------------------------------------------------------------- generators of (c)(d)(e)


def rand_text(r, n):
    pool = ['a', 'Z', '0', '-', '.', ' ', 'é', 'ü', 'ß', '東', ' ', '"', '\\', '\t', '\n', '\x00', '\x7f', '\x1b', '{', '}', ',', ':', '\U0001f600']
    return ''.join(r.choice(pool) for _ in range(n)).encode('utf-8')


def rand_payload(r, maxlen):
    t = r.random()
    if t < 0.35:
        p = r.choice(H.CANARIES)[1]
    elif t < 0.7:
        p = rand_text(r, r.choice([0, 1, 5, 20, 60]))
    else:
        p = bytes(r.getrandbits(8) for _ in range(r.choice([0, 1, 4, 30, 200])))
    p = p[:maxlen]
    # never cut a character in half: that is a different (invalid UTF-8) input, generated on purpose elsewhere
    while p and t < 0.7:
        try:
            p.decode('utf-8')
            break
        except UnicodeDecodeError as e:
            if e.end >= len(p) and e.reason.startswith('unexpected end'):
                p = p[:-1]
            else:
                break
    return p


def gen_open(r):
    caps = []
    if r.random() < 0.8:
        caps.append(rw.cap_hostname(rand_payload(r, 64), rand_payload(r, 64)))
    if r.random() < 0.6:
        p = rand_payload(r, 64)
        caps.append((75, bytes([len(p)]) + p))
    if r.random() < 0.5:
        caps.append((r.choice([0, 3, 4, 8, 9, 66, 72, 74, 76, 128, 130, 131, 184, 185, 200, 255]), rand_payload(r, 40)))
    if r.random() < 0.5:
        caps.append(rw.cap_addpath([(r.choice([1, 2, 25, 99]), r.choice([1, 4, 70, 128, 200]), r.choice([0, 1, 2, 3])) for _ in range(r.choice([1, 3]))]))
    if r.random() < 0.5:
        caps.append(rw.cap_gr(r.choice([0, 8, 4, 15]), r.choice([0, 120, 4095]), [(r.choice([1, 2, 99]), r.choice([1, 128, 99]), r.choice([0, 0x80])) for _ in range(r.choice([0, 1, 3]))]))
    if r.random() < 0.3:
        caps += [(2, b''), (70, b''), (6, b''), (128, b''), (64, struct.pack('!H', 0) + b''), (67, b''), (69, struct.pack('!HBB', 1, 0, 1) * 2)]
    if r.random() < 0.3:
        caps.append(rw.cap_nexthop([(1, r.choice([1, 4, 128]), 2)]))
    if r.random() < 0.3:
        caps.append((5, struct.pack('!HHH', 1, 1, 2)))
    r.shuffle(caps)
    return H.open_body(caps, asn=r.choice([65001, 65001, 70000]), hold=r.choice([0, 3, 90, 65535]))


def gen_notification(r):
    t = r.random()
    if t < 0.5:
        sub = r.choice([2, 4])
        p = rand_payload(r, 255)
        n = r.choice([len(p), len(p), len(p), 0, 255, 129, max(0, len(p) - 1)])
        return bytes([6, sub, n & 255]) + p + (bytes(r.getrandbits(8) for _ in range(r.choice([0, 0, 3]))))
    if t < 0.6:
        return bytes([6, r.choice([2, 4])])
    if t < 0.65:
        return bytes(r.getrandbits(8) for _ in range(r.choice([0, 1])))
    return bytes([r.choice([0, 1, 2, 3, 4, 5, 6, 7, 8, 255]), r.randrange(0, 13)]) + rand_payload(r, 300)


def gen_operational(r):
    t = r.random()
    afi, safi = r.choice([(1, 1), (2, 1), (1, 128), (25, 65), (99, 99), (0, 0)])
    fam = struct.pack('!HB', afi, safi)
    rid = bytes([10, 0, 0, r.randrange(256)])
    if t < 0.4:
        return H.operational(r.choice([1, 2]), fam + rand_payload(r, 2100))
    if t < 0.55:
        return H.operational(r.choice([3, 5, 7]), fam + rid + struct.pack('!L', r.choice([0, 1, 2**32 - 1])) + rand_payload(r, 8))
    if t < 0.7:
        return H.operational(r.choice([4, 6, 8]), fam + rid + struct.pack('!LL', r.choice([0, 7]), r.choice([0, 2**32 - 1])))
    if t < 0.8:
        return H.operational(0xFFFF, fam + rid + struct.pack('!LH', 1, r.choice([1, 2, 3, 4, 5, 6, 99])))
    return H.operational(r.choice([0, 9, 10, 11, 12, 13, 0x99, 0xFFFE]), rand_payload(r, 100))


def gen_refresh(r):
    afi, safi = r.choice([(1, 1), (2, 1), (1, 128), (2, 128), (25, 65), (25, 70), (16388, 71), (1, 133), (99, 99), (0, 0), (65535, 255)])
    return struct.pack('!HBB', afi, r.choice([0, 1, 2, 3, 255]), safi)


# ---------------------------------------------------------------------------------------------- shard


def run_shard(desc):
    import socket

    d = Driver(desc)
    res = d.res
    r = random.Random(desc['seed'] * 7919 + desc['shard'] * 104729 + 13)
    shard, of = desc['shard'], desc['of']
    quick = desc['tier'] == 'quick'

    # ---- (a) generated well-formed UPDATEs
    for i in range(desc['updates']):
        sk, nb, neg = d.sess(i + shard)
        recv_ap = {(int(a), int(s)) for (a, s), v in neg.addpath._receive.items() if v}
        s = {'asn4': sk['asn4'], 'addpath': recv_ap, 'ibgp': False}
        body, intent = gw.gen_update(r, s, families=FAMS, rich=0.7)
        kind = intent.get('kind') or 'eor'
        forms = ('parsed', 'consolidate') if i % 3 == 0 else (('parsed', 'generic') if i % 3 == 1 else ('parsed',))
        if d.message(2, body, sk, nb, neg, f'generated-{kind}', {'src': 'gen_update'}, forms=forms, intent=intent) is None:
            res.inconclusive.append('a generated well-formed UPDATE does not decode: ' + body.hex()[:120])
        if i % 5 == 0:
            d.packets(2, body, sk, nb, neg, {'src': 'gen_update'})

    # ---- (b) the qa corpus and mutants of it which still decode
    qa = corpus.qa_messages()
    if not qa and corpus.REPO != '/repo':
        # a scratch copy of src/ only (VERIF_REPO): the seeds are inputs, read them from the reference checkout
        saved, corpus.REPO = corpus.REPO, '/repo'
        try:
            qa = corpus.qa_messages()
        finally:
            corpus.REPO = saved
    if not qa:
        res.inconclusive.append('no qa seed message found')
        qa = [{'type': 2, 'body': b'\0\0\0\0', 'src': 'builtin-eor', 'conf': None}]
    for i, m in enumerate(qa):
        if i % of != shard % of and quick:
            continue
        if not quick and i % 16 != shard % 16:
            continue
        sk, nb, neg = d.sess(i)
        if d.message(m['type'], m['body'], sk, nb, neg, 'qa', {'src': m['src']}, forms=('parsed', 'consolidate')) is None:
            # the session kind may simply not fit the seed: try the richest ones
            for alt in (1, 0, 5):
                sk, nb, neg = d.sess(alt)
                if d.message(m['type'], m['body'], sk, nb, neg, 'qa', {'src': m['src']}, forms=('parsed', 'consolidate')) is not None:
                    break
    # coverage guided: a seed whose mutant entered a rendering function nobody had entered gains weight, and the mutant joins the pool
    pool = [(m['type'], m['body'], m['src']) for m in qa]
    weight = [1.0] * len(pool)
    got = tries = 0
    while got < desc['mutants'] and tries < desc['mutants'] * 12:
        tries += 1
        j = r.choices(range(len(pool)), weight)[0]
        mtype, seed_body, src = pool[j]
        sk, nb, neg = d.sess(r.randrange(8))
        body = gw.mutate(r, seed_body, r.choice([1, 1, 2, 3]))
        if body == seed_body or len(body) > int(neg.msg_size) - 19:
            continue
        before = len(d.reach.entered)
        o = d.message(mtype, body, sk, nb, neg, 'mutant', {'src': 'mutant of ' + src}, forms=('parsed',) if got % 4 else ('parsed', 'consolidate'))
        if o is not None:
            got += 1
            if len(d.reach.entered) > before:
                weight[j] += 4
                pool.append((mtype, body, src))
                weight.append(3.0)
            if got % 10 == 0:
                d.packets(mtype, body, sk, nb, neg, {'src': 'mutant of ' + src})
    res.extra['mutation_tries'] = tries
    res.extra['mutants_decoded'] = got

    # ---- sweeps over TLV registries: whatever decodes is judged
    got = 0
    for i in range(desc['sweeps']):
        name, body = H.sweep_family(r) if i % 3 == 2 else H.sweep_update(r)
        sk, nb, neg = d.sess(1)
        if d.message(2, body, sk, nb, neg, name, {'src': name}, forms=('parsed', 'generic') if i % 3 == 0 else ('parsed',)) is not None:
            got += 1
    res.extra['sweeps_decoded'] = got

    # ---- structured repetitions
    for i, (name, mtype, body) in enumerate(H.repeated_cases()):
        if quick and i % 4 != shard % 4:
            continue
        if not quick and shard >= 4:
            continue
        sk, nb, neg = d.sess(5 if name == 'update:aggregator-and-as4-aggregator' else 1)  # as2/noap, asn4/noap
        if d.message(mtype, body, sk, nb, neg, name.split(':', 1)[1], {'src': 'repeated:' + name}, forms=('parsed', 'consolidate')) is None:
            res.count('repeated-case-refused:' + name)
        # and on the other AS width: what one kind of peer has no reason to send the other kind may still send
        sk, nb, neg = d.sess(1 if name == 'update:aggregator-and-as4-aggregator' else 5)
        if d.message(mtype, body, sk, nb, neg, name.split(':', 1)[1], {'src': 'repeated-other-width:' + name}, forms=('parsed',)) is None:
            res.count('repeated-case-refused-other-width:' + name)

    # ---- the RFC 7606 corruption catalogue of C08 (every attribute x malformation, on 2- and 4-byte sessions, the
    # 2-byte base carrying AS4_PATH and AS4_AGGREGATOR): what is treated as withdrawn / discarded still makes an event
    from vlib.props import c08

    got = 0
    for asn4 in (True, False):
        cases7606 = c08.build_cases(asn4)
        for i, case in enumerate(cases7606):
            if i % of != shard % of:
                continue
            sk, nb, neg = d.sess(1 if asn4 else 5)  # asn4/noap, as2/noap
            if bool(sk['asn4']) != asn4:
                res.inconclusive.append('session kind table changed: rfc7606 catalogue needs asn4/noap at 1 and as2/noap at 5')
                break
            name = f'rfc7606-{c08.NAMES.get(case["code"], case["code"])}'
            if d.message(2, bytes.fromhex(case['body']), sk, nb, neg, name, {'src': f'rfc7606:{case["base"]}:{case["code"]}:{case["corruption"]}'}, forms=('parsed', 'consolidate') if i % 2 else ('parsed',)) is not None:
                got += 1
    res.extra['rfc7606_cases_decoded'] = got

    # ---- (c) (d) (e)
    k = desc['others']
    for i in range(30 * k):
        sk, nb, neg = d.sess(i)
        body = gen_open(r)
        d.message(1, body, sk, nb, neg, 'generated', {'src': 'gen_open'}, forms=('parsed', 'consolidate') if i % 2 else ('parsed',))
        if i % 6 == 0:
            d.packets(1, body, sk, nb, neg, {'src': 'gen_open'})
    for i in range(50 * k):
        sk, nb, neg = d.sess(i)
        body = gen_notification(r)
        what = 'shutdown-communication' if body[:2] in (b'\x06\x02', b'\x06\x04') else 'generated'
        d.message(3, body, sk, nb, neg, what, {'src': 'gen_notification'}, forms=('parsed', 'consolidate') if i % 2 else ('parsed',))
        if i % 10 == 0:
            d.packets(3, body, sk, nb, neg, {'src': 'gen_notification'})
    for i in range(30 * k):
        sk, nb, neg = d.sess(i)
        d.message(6, gen_operational(r), sk, nb, neg, 'generated', {'src': 'gen_operational'}, forms=('parsed', 'consolidate') if i % 2 else ('parsed',))
    for i in range(12 * k):
        sk, nb, neg = d.sess(i)
        body = gen_refresh(r)
        d.message(5, body, sk, nb, neg, 'generated', {'src': 'gen_refresh'}, forms=('parsed', 'consolidate'))
        if i % 6 == 0:
            d.packets(5, body, sk, nb, neg, {'src': 'gen_refresh'})
    for i in range(2):
        sk, nb, neg = d.sess(i + shard)
        d.message(4, b'', sk, nb, neg, 'keepalive', {'src': 'keepalive'}, forms=('parsed', 'consolidate'))
        d.packets(4, b'', sk, nb, neg, {'src': 'keepalive'})

    # ---- (f) state events
    for i in range(2 if quick else 8):
        sk, nb, neg = d.sess(i + shard)
        d.states(nb, neg, r)

    # ---- non-interference pairs
    d.noninterference(r)

    # ---- a slow consumer on the helper pipe
    if shard % 4 == 0:
        d.pipe_conservation(r)

    # ---- informational: the local host name is interpolated into the envelope as is (not peer data)
    if shard == 0:
        real = socket.gethostname
        try:
            socket.gethostname = lambda: 'ho"st'
            sk, nb, neg = d.sess(0)
            s = d.h.enc['json6'].up(nb)
            try:
                norm.strict_loads(s)
                res.count('envelope-local-hostname-with-quote-parses')
            except ValueError:
                res.count('envelope-local-hostname-with-quote-breaks-json(not-peer-data)')
        finally:
            socket.gethostname = real

    d.reach.stop()
    for name in d.reach.universe.values():
        res.reached(name, 1 if name in d.reach.entered else 0)
    import exabgp

    res.extra['exabgp_file'] = exabgp.__file__
    res.extra['decoded_messages'] = d.decoded
    res.extra['events_rendered'] = d.h.n
    res.sample({'sessions': sorted(d.built), 'decoded': d.decoded, 'events': d.h.n}, limit=1)
    return res


def finish(merged, tier, seed):
    never = sorted(k for k, v in merged['reach'].items() if not v)
    merged['extra']['reach_universe'] = len(merged['reach'])
    merged['extra']['reach_entered'] = len(merged['reach']) - len(never)
    merged['extra']['not_exercised'] = never
    merged['reach'] = {k: v for k, v in merged['reach'].items() if v}
    matrix = {}
    for c, n in merged['classes'].items():
        parts = c.split(':')
        if len(parts) == 2 and parts[0] in ENCODERS:
            matrix.setdefault(parts[1], {})[parts[0]] = n
    merged['extra']['matrix'] = matrix


_MT = ['update', 'open', 'notification', 'keepalive', 'refresh', 'operational', 'packets', 'state-up', 'state-down', 'state-connected', 'shutdown']
REQUIRED_CLASSES = {
    'quick': [f'{e}:{m}' for e in ENCODERS for m in _MT]
    + [f'{e}:{m}' for e in ('json6', 'json4') for m in ('negotiated', 'fsm', 'signal')]
    + [f'{e}:{m}:none' for e in ('text6', 'text4') for m in ('negotiated', 'fsm', 'signal')]
    + [f'write:{e}' for e in ENCODERS]
    + [f'write-pipe:{e}' for e in ENCODERS]
    + ['pipe-conservation:json6', 'pipe-conservation:text4']
    + [f'dispatch:{m}' for m in ('update', 'open', 'notification', 'refresh', 'operational')]
    + [f'{e}:open:hostname' for e in ENCODERS]
    + [f'{e}:notification:shutdown-communication' for e in ENCODERS]
    + [f'{e}:update:generated-{k}' for e in ENCODERS for k in ('v4', 'mp', 'eor')]
    + [f'{e}:update:qa' for e in ENCODERS]
    + [f'{e}:update:mutant' for e in ENCODERS],
}
REQUIRED_CLASSES['thorough'] = REQUIRED_CLASSES['quick']
