"""C14 - API commands: same order, one acknowledgement each, no side effects on error.

Monitor: a real Reactor (real Configuration parser, real Peer objects, sessions down), a real
Processes object started through the real Processes.start() path with subprocess.Popen replaced
by a harness-owned pipe pair (nothing is forked), and the REAL Reactor._async_main_loop running
as an asyncio task.  The harness plays the helper program: it writes a generated command stream
on the helper's stdout pipe in a chosen chunking and reads the helper's stdin pipe.

Observed: (service, command) pairs handed by the main loop to API.process (= what
received_async yielded), every byte written back on the pipe, and a snapshot of every
neighbor's OutgoingRIB/IncomingRIB taken each time a command is handed over.

Oracles (none of them calls ExaBGP code):
  (a) executed commands == lines written, same order, whatever the chunking
  (b) with acknowledgements enabled (ack state tracked by an own model of enable/disable/silence)
      every command is followed by exactly one terminal line (done / error constants), the reply
      pipe carries exactly what was queued, in order, and error texts echoing a command are found
      in the reply segment of that command
  (c) a command which is unknown, unparsable by construction, or answered `error` changes no RIB
  (d) a command with a neighbor selector changes only neighbors picked by select(), an own
      evaluation of the selector over the generated neighbor table where every term must match
"""

from __future__ import annotations

import asyncio
import fcntl
import json
import os
import random
import re
import signal
import struct
import sys
import termios
import time

from vlib import exa
from vlib.mon import Result

PROPERTY = 'C14'
LEVEL = 'exploration'
RULE = (
    'seeded (configuration of 4 neighbors, command stream of 1..200 lines, chunking of the byte stream, API version 4/6, '
    'text/json encoder, reply reader speed) cases; lines mix valid announce/withdraw forms (route, ipv4/ipv6 unicast, flow, '
    'vpls, attributes..nlri, watchdog, eor, route-refresh, flush/clear adj-rib), show/help/version, ack and sync toggles, '
    'group start/end and inline groups, comments, empty lines, unknown verbs and unparsable arguments, each optionally behind '
    'a neighbor selector (*, ip, ip+terms, *+terms, comma list, bracket list, non matching). distinct = distinct '
    '(api version, encoder, chunking, command kind, selector form, match cardinality, outcome) signatures'
)
ASSUMPTIONS = [
    'command lines are ASCII, LF terminated, shorter than the documented 1 MiB cap, and do not start with the "debug " log prefix',
    'two command lines are the same command when their token lists are equal after padding [ ] ( ) , with blanks (documented normalisation)',
    'terminal replies are the lines equal to one of the Answer done/error constants (read as data); everything else is payload',
    'ack model: enable-ack answers done and turns acks on, disable-ack answers done and turns them off, silence-ack turns them off silently (documented)',
    'selector semantics as documented in NEIGHBOR_SELECTOR_SYNTAX: AND inside one selector (including after *), OR between comma/bracket members',
    'sessions are down (passive neighbors, no listener): RIB operations still reach every OutgoingRIB; nothing else touches a RIB between two commands',
    'subprocess.Popen is replaced by a pipe pair owned by the harness; everything else in Processes.start/_async_reader_callback/flush_write_queue is the production code',
    'shutdown/reload/restart/crash/create/delete neighbor commands are outside the workload (they change the daemon or the neighbor set, not a RIB)',
]
MANIFEST = {
    'level': 'exploration',
    'technique': 'runtime monitoring of the real reactor main loop fed through a harness-owned helper pipe, compared with independent sequential models (line splitter, ack counter, selector evaluator, RIB diff); the command stream played by a real helper process of the real daemon with one session established: answer-count monitor, liveness and log monitors',
    'text': 'Seeded command streams are written in arbitrary chunkings on the pipe the real Processes object reads; the real '
    'main loop dispatches them. The monitor checks command order, one terminal reply per command, no RIB change for '
    'rejected commands and selector confinement against its own models. Held means no disagreement on the streams '
    'generated; it is not a proof over all streams.',
    'note': 'sessions down only; subprocess.Popen substituted by a pipe pair; ack JSON form is unreachable from configuration and only logged',
}
SHARD_TIMEOUT = {'quick': 300, 'thorough': 2400}

SVC = 'c14svc'
SETTLE_BOUND = 400000  # event loop turns allowed for one settle, logical bound (not wall clock)

# --------------------------------------------------------------------------------------
# neighbor table and configuration text
# --------------------------------------------------------------------------------------

FAMILY_POOL = ['ipv4 unicast', 'ipv6 unicast', 'ipv4 flow', 'l2vpn vpls']
# values which are textual prefixes of one another on purpose (65001 / 650010, 10.0.0.1 / 10.0.0.10, 127.0.0.2 / 127.0.0.20,
# 2001:db8::5 / 2001:db8::5:1): a selector term must match a whole value, never the beginning of one
LAS_POOL = [65001, 65010, 4200000001, 650010]
PAS_POOL = [65002, 65003, 65001, 650020]
RID_POOL = ['10.0.0.1', '10.0.0.2', '10.0.0.3', '10.0.0.10']
LOCAL_POOL = ['127.0.0.1', '127.0.1.1', '127.0.1.10']
PEER4_POOL = ['127.0.0.2', '127.0.0.3', '127.0.0.4', '127.0.0.5', '127.0.0.20', '127.0.0.22', '127.0.0.200']
PEER6_POOL = ['2001:db8::5', '2001:db8::5:1', '2001:db8::50', '2001:db8::5:1:1']


def gen_neighbors(r: random.Random) -> list[dict]:
    nbs = []
    peers = ['127.0.0.2'] + sorted(r.sample(PEER4_POOL[1:], 3), key=PEER4_POOL.index)
    v6 = r.random() < 0.4
    n6 = r.choice([1, 2, 2]) if v6 else 0
    six = sorted(r.sample(PEER6_POOL, n6), key=PEER6_POOL.index) if n6 else []
    for i, peer in enumerate(peers):
        fams = [f for f in FAMILY_POOL if r.random() < 0.6]
        if not fams:
            fams = ['ipv4 unicast']
        nb = {
            'peer': peer,
            'local': r.choice(LOCAL_POOL),
            'las': r.choice(LAS_POOL),
            'pas': r.choice(PAS_POOL),
            'rid': r.choice(RID_POOL),
            'families': fams,
            'session': 'in-open',
            'watchdog': [],
        }
        if i >= 4 - n6:
            nb['peer'] = six[i - (4 - n6)]
            nb['local'] = '2001:db8::1'
        nbs.append(nb)
    # every family is configured somewhere, ipv4 unicast at least twice
    for k, fam in enumerate(FAMILY_POOL):
        if not any(fam in nb['families'] for nb in nbs):
            nbs[k % 4]['families'].append(fam)
    while sum('ipv4 unicast' in nb['families'] for nb in nbs) < 2:
        nb = r.choice(nbs)
        if 'ipv4 unicast' not in nb['families']:
            nb['families'].append('ipv4 unicast')
    for i, nb in enumerate(nbs):
        nb['families'] = [f for f in FAMILY_POOL if f in nb['families']]
        if 'ipv4 unicast' in nb['families'] and r.random() < 0.75:
            nb['watchdog'] = [
                ('192.0.2.%d/32' % (i + 1), 'dog1', True),
                ('192.0.3.%d/32' % (i + 1), 'dog2', False),
            ]
    return nbs


def config_text(nbs: list[dict], encoder: str) -> str:
    out = ['process %s {' % SVC, '    run /bin/true;', '    encoder %s;' % encoder, '}', '']
    for nb in nbs:
        out.append('neighbor %s {' % nb['peer'])
        out.append('    router-id %s;' % nb['rid'])
        out.append('    local-address %s;' % nb['local'])
        out.append('    local-as %d;' % nb['las'])
        out.append('    peer-as %d;' % nb['pas'])
        out.append('    passive true;')
        out.append('    family {')
        for f in nb['families']:
            out.append('        %s;' % f)
        out.append('    }')
        out.append('    api {')
        out.append('        processes [ %s ];' % SVC)
        out.append('    }')
        if nb['watchdog']:
            out.append('    static {')
            for prefix, name, withdrawn in nb['watchdog']:
                out.append('        route %s next-hop 1.1.1.1 watchdog %s%s;' % (prefix, name, ' withdraw' if withdrawn else ''))
            out.append('    }')
        out.append('}')
        out.append('')
    return '\n'.join(out)


# --------------------------------------------------------------------------------------
# independent selector model
# --------------------------------------------------------------------------------------

TERM_FIELD = {'local-ip': 'local', 'local-as': 'las', 'peer-as': 'pas', 'router-id': 'rid', 'family-allowed': 'session'}


def select(alternatives, nbs: list[dict]) -> set[int]:
    """alternatives: [(ip or '*', [(key, value), ...]), ...] -> indexes of the neighbors selected.

    A neighbor is selected when for at least one alternative its peer address is the one named
    (or the alternative names '*') AND every term of that alternative equals the neighbor's value.
    """
    chosen = set()
    for i, nb in enumerate(nbs):
        for ip, terms in alternatives:
            if ip != '*' and ip != nb['peer']:
                continue
            if all(str(nb[TERM_FIELD[k]]) == str(v) for k, v in terms):
                chosen.add(i)
                break
    return chosen


def render_selector(alternatives, form: str, keyword: str) -> str:
    def one(ip, terms):
        return ' '.join([ip] + ['%s %s' % (k, v) for k, v in terms])

    if form == 'bracket':
        return '%s [%s]' % (keyword, ', '.join(one(ip, t) for ip, t in alternatives))
    if form == 'comma':
        return ', '.join('%s %s' % (keyword, one(ip, t)) for ip, t in alternatives)
    ip, terms = alternatives[0]
    return '%s %s' % (keyword, one(ip, terms))


def true_terms(r: random.Random, nb: dict, n: int):
    keys = r.sample(sorted(TERM_FIELD), n)
    return [(k, nb[TERM_FIELD[k]]) for k in keys]


def other_value(r: random.Random, key: str, nbs: list[dict], avoid) -> str:
    pool = {
        'local-ip': LOCAL_POOL + ['127.9.9.9'],
        'local-as': LAS_POOL + [64999],
        'peer-as': PAS_POOL + [64998],
        'router-id': RID_POOL + ['10.9.9.9'],
        'family-allowed': ['in-open', 'ipv4-unicast', 'ipv4-unicast/ipv6-unicast'],
    }[key]
    cand = [v for v in pool if str(v) != str(avoid)]
    return r.choice(cand)


def gen_selector(r: random.Random, nbs: list[dict], syntax: str):
    """-> (alternatives, form). syntax 'v4' (neighbor keyword, comma lists) or 'v6' (peer keyword, bracket lists)."""
    forms = ['star', 'ip', 'ip', 'ip-terms', 'ip-terms', 'star-terms', 'star-terms', 'nomatch-ip', 'ip-wrongterm', 'contradict']
    forms += ['comma', 'comma'] if syntax == 'v4' else ['bracket', 'bracket']
    form = r.choice(forms)
    nb = r.choice(nbs)
    if form == 'star':
        return [('*', [])], form
    if form == 'ip':
        return [(nb['peer'], [])], form
    if form == 'ip-terms':
        return [(nb['peer'], true_terms(r, nb, r.randint(1, 3)))], form
    if form == 'ip-wrongterm':
        terms = true_terms(r, nb, r.randint(1, 3))
        k, v = terms[-1]
        terms[-1] = (k, other_value(r, k, nbs, v))
        r.shuffle(terms)
        return [(nb['peer'], terms)], form
    if form == 'star-terms':
        terms = true_terms(r, nb, r.randint(1, 2))
        if r.random() < 0.35:
            k, v = terms[-1]
            terms[-1] = (k, other_value(r, k, nbs, None))
        return [('*', terms)], form
    if form == 'nomatch-ip':
        peer = nb['peer']
        sep = ':' if ':' in peer else '.'
        near = [peer.rsplit(sep, 1)[0], peer + '0', peer + sep + '1', '1' + peer, peer[:-1] if peer[-1] not in '.:' and peer[:-1][-1:] not in '.:' else peer + '9']
        near = [x for x in near if x not in [n['peer'] for n in nbs]]
        pool = ['127.0.0.99', '10.255.255.1', '2001:db8::99'] + near + near
        return [(r.choice(pool), true_terms(r, nb, r.randint(0, 1)))], form
    if form == 'contradict':
        k = r.choice(['local-as', 'peer-as', 'router-id'])
        v = nb[TERM_FIELD[k]]
        return [(r.choice([nb['peer'], '*']), [(k, v), (k, other_value(r, k, nbs, v))])], form
    # lists
    members = []
    for m in r.sample(nbs, r.randint(2, 3)):
        kind = r.random()
        if kind < 0.5:
            members.append((m['peer'], []))
        elif kind < 0.8:
            members.append((m['peer'], true_terms(r, m, r.randint(1, 2))))
        else:
            terms = true_terms(r, m, 1)
            k, v = terms[0]
            members.append((m['peer'], [(k, other_value(r, k, nbs, v))]))
    if r.random() < 0.2:
        members.append(('127.0.0.77', []))
    return members, form


# --------------------------------------------------------------------------------------
# command generator
# --------------------------------------------------------------------------------------


def p4(r):
    return '10.%d.%d.0/24' % (r.randrange(3), r.randrange(4))


def p6(r):
    return '2001:db8:%x::/48' % r.randrange(6)


def nh4(r):
    return '1.1.1.%d' % r.randrange(1, 4)


def nh6(r):
    return '2001:db8::%x' % r.randrange(1, 4)


def attrs(r):
    pool = [
        'med %d' % r.randrange(5),
        'local-preference %d' % (100 + r.randrange(3)),
        'origin %s' % r.choice(['igp', 'egp', 'incomplete']),
        'community [ 65000:%d ]' % r.randrange(4),
        'as-path [ 65001 6500%d ]' % r.randrange(3),
    ]
    return ' '.join(r.sample(pool, r.randrange(0, 3)))


def join(*parts):
    return ' '.join(p for p in parts if p)


def gen_action(r: random.Random, uid: int):
    """An announce/withdraw style body which may sit behind a selector.

    -> (body, verb, expect, badkind, marker) ; expect in 'ok' 'bad' 'unknown' 'any'
    """
    x = r.random()
    act = r.choice(['announce', 'announce', 'withdraw'])
    if x < 0.22:
        if act == 'announce':
            return join('announce route', p4(r), 'next-hop', nh4(r), attrs(r)), 'route', 'ok', '', ''
        return join('withdraw route', p4(r), r.choice(['', 'next-hop ' + nh4(r)])), 'route', 'ok', '', ''
    if x < 0.30:
        return join(act, 'ipv4 unicast', p4(r), 'next-hop', nh4(r), attrs(r) if act == 'announce' else ''), 'ipv4', 'ok', '', ''
    if x < 0.38:
        return join(act, 'ipv6 unicast', p6(r), 'next-hop', nh6(r), attrs(r) if act == 'announce' else ''), 'ipv6', 'ok', '', ''
    if x < 0.45:
        body = '%s flow route { match { source 10.%d.0.%d/32; } then { discard; } }' % (act, r.randrange(3), r.randrange(1, 4))
        return body, 'flow', 'ok', '', ''
    if x < 0.51:
        body = '%s vpls rd 192.168.201.1:12%d endpoint 5 base 10702 offset 1 size 8 next-hop 192.168.201.1 origin igp local-preference 100' % (
            act,
            r.randrange(3),
        )
        return body, 'vpls', 'ok', '', ''
    if x < 0.58:
        nl = ' '.join(sorted({p4(r) for _ in range(r.randint(1, 4))}))
        word = r.choice(['attributes', 'attribute'])
        return join(act, word, 'next-hop', nh4(r), 'med %d' % r.randrange(3), 'nlri', nl), 'attributes', 'ok', '', ''
    if x < 0.66:
        return '%s watchdog %s' % (act, r.choice(['dog1', 'dog2', 'dog1', 'nodog'])), 'watchdog', 'ok', '', ''
    if x < 0.69:
        return r.choice(['announce eor', 'announce eor ipv4 unicast', 'announce eor ipv6 unicast']), 'eor', 'any', '', ''
    if x < 0.72:
        return 'announce route-refresh %s' % r.choice(['ipv4 unicast', 'ipv6 unicast']), 'refresh', 'any', '', ''
    if x < 0.74:
        return 'teardown %d' % r.choice([2, 4, 6]), 'teardown', 'ok', '', ''
    # --- rejected by construction, each with a unique marker where an echo is plausible
    mark = 'zz%dq' % uid
    bad = [
        ('bad-prefix', 'announce route 10.0.%d.300/24 next-hop 1.1.1.1' % (uid % 200)),
        ('bad-mask', 'announce route 10.0.0.0/%d next-hop 1.1.1.1' % (33 + uid % 60)),
        ('no-nexthop-value', 'announce route 10.1.0.0/24 next-hop'),
        ('bad-nexthop', 'announce route 10.1.0.0/24 next-hop %s' % mark),
        ('bad-attr', 'announce route 10.1.1.0/24 next-hop 1.1.1.1 %s 5' % mark),
        ('bad-attr-value', 'announce route 10.1.2.0/24 next-hop 1.1.1.1 med %s' % mark),
        ('truncated', r.choice(['announce route', 'withdraw route', 'announce ipv4', 'announce flow', 'announce attributes'])),
        ('bad-family', 'announce ipv4 %s 10.0.0.0/24 next-hop 1.1.1.1' % mark),
        ('bad-flow', 'announce flow route { match { %s 1; } then { discard; } }' % mark),
        ('bad-withdraw', 'withdraw route %s' % mark),
        ('bad-ipv6', 'announce ipv6 unicast 2001:db8:%s::/48 next-hop 2001:db8::1' % mark),
        ('partial-nlri', 'announce attributes next-hop 1.1.1.2 nlri 10.2.3.0/24 10.2.%d.300/24' % (uid % 200)),
        ('partial-nlri-withdraw', 'withdraw attributes next-hop 1.1.1.2 nlri %s 10.2.9.300/24' % p4(r)),
        ('bad-vpls', 'announce vpls rd %s endpoint 5 base 10702 offset 1 size 8 next-hop 192.168.201.1' % mark),
    ]
    unknown = [
        ('unknown-action', 'announce %s 10.0.0.0/24' % mark),
        ('unknown-action', 'withdraw %s' % mark),
        ('unknown-action', 'withdraw eor'),
        ('unknown-action', '%s route 10.0.0.0/24 next-hop 1.1.1.1' % mark),
        ('bare-action', r.choice(['announce', 'withdraw'])),
        ('uppercase', 'ANNOUNCE ROUTE 10.0.0.0/24 NEXT-HOP 1.1.1.1'),
    ]
    if r.random() < 0.12:
        # no next hop: refused by the announce validation, but nothing in the statement says it must be
        # ('any'); when it is answered error it falls under oracle (c) like every other command
        body = r.choice(
            [
                'announce route 10.3.%d.0/24' % (uid % 7),
                'announce route 10.3.%d.0/24 med 5' % (uid % 7),
                'announce ipv4 unicast 10.3.%d.0/24' % (uid % 7),
                'announce attributes med 1 nlri 10.3.%d.0/24 10.3.9.0/24' % (uid % 7),
            ]
        )
        return body, 'no-nexthop', 'any', '', ''
    if r.random() < 0.7:
        kind, body = r.choice(bad)
        return body, 'bad', 'bad', kind, mark if mark in body else ''
    kind, body = r.choice(unknown)
    return body, 'unknown', 'unknown', kind, ''


V4_PLAIN = [
    ('version', 'version', 'ok'),
    ('help', 'help', 'ok'),
    ('ping', 'ping', 'ok'),
    ('queue-status', 'queue-status', 'ok'),
    ('reset', 'reset', 'ok'),
    ('enable-sync', 'sync', 'ok'),
    ('disable-sync', 'sync', 'ok'),
    ('api version', 'api-version', 'ok'),
    ('show adj-rib out', 'show', 'ok'),
    ('show adj-rib out extensive', 'show', 'ok'),
    ('show adj-rib in', 'show', 'ok'),
    ('show neighbor summary', 'show', 'ok'),
    ('flush adj-rib out', 'flush', 'ok'),
    ('clear adj-rib out', 'clear', 'ok'),
    ('clear adj-rib in', 'clear', 'ok'),
]
V6_PLAIN = [
    ('system version', 'version', 'ok'),
    ('system help', 'help', 'ok'),
    ('session ping', 'ping', 'ok'),
    ('system queue-status', 'queue-status', 'ok'),
    ('session reset', 'reset', 'ok'),
    ('session sync enable', 'sync', 'ok'),
    ('session sync disable', 'sync', 'ok'),
    ('system api version', 'api-version', 'ok'),
    ('rib show out', 'show', 'ok'),
    ('rib show out extensive', 'show', 'ok'),
    ('rib show in', 'show', 'ok'),
    ('peer show summary', 'show', 'ok'),
    ('peer list', 'show', 'ok'),
    ('rib flush out', 'flush', 'ok'),
    ('rib clear out', 'clear', 'ok'),
    ('rib clear in', 'clear', 'ok'),
]
ACK_V4 = {'enable': 'enable-ack', 'disable': 'disable-ack', 'silence': 'silence-ack'}
ACK_V6 = {'enable': 'session ack enable', 'disable': 'session ack disable', 'silence': 'session ack silence'}


def decorate(r: random.Random, line: str) -> str:
    """blanks and tabs the documented normalisation removes"""
    x = r.random()
    if x < 0.80:
        return line
    if x < 0.88:
        return line + r.choice([' ', '  ', '\t'])
    if x < 0.94:
        return r.choice([' ', '\t']) + line
    return line.replace(' ', r.choice(['  ', '\t', ' \t ']), 1)


def gen_command(r: random.Random, nbs: list[dict], version: int, uid: int, state: dict) -> dict:
    """One command line with everything the oracles need.

    version: API version the daemon runs (4 accepts both syntaxes, 6 only the v6 one).
    """
    c = {'verb': '', 'expect': 'any', 'bad': '', 'selector': None, 'form': 'none', 'ack': '', 'marker': '', 'syntax': ''}
    x = r.random()
    # which syntax the line is written in; most lines follow the running version
    if version == 4:
        syntax = 'v4' if r.random() < 0.75 else 'v6'
    else:
        syntax = 'v6' if r.random() < 0.9 else 'v4'
    c['syntax'] = syntax
    foreign = version == 6 and syntax == 'v4'  # v4 syntax sent to a v6 daemon: unknown command unless the word is shared

    if x < 0.04:
        c.update(line=r.choice(['', '', ' ', '\t', '   ']), verb='empty', expect='ok')
        return c
    if x < 0.09:
        c.update(line=r.choice(['# comment %d' % uid, '#', '#announce route 10.0.0.0/24 next-hop 1.1.1.1', '# neighbor * announce watchdog dog1']), verb='comment', expect='ok')
        return c
    if x < 0.16:
        how = r.choice(['enable', 'disable', 'silence', 'enable'])
        c.update(line=(ACK_V4 if syntax == 'v4' else ACK_V6)[how], verb='ack-' + how, expect='ok', ack=how)
        if foreign:
            c.update(verb='unknown', expect='unknown', bad='v4-on-v6', ack='')
        return c
    if x < 0.27:
        line, verb, expect = r.choice(V4_PLAIN if syntax == 'v4' else V6_PLAIN)
        c.update(line=line, verb=verb, expect=expect)
        if foreign:
            c.update(verb='unknown', expect='unknown', bad='v4-on-v6')
        return c
    if x < 0.32:
        which = r.choice(['start', 'start', 'end', 'end', 'end'])
        c.update(line='group ' + which, verb='group-' + which, expect='any')
        if version == 4 and syntax == 'v4':
            pass  # plain "group start" is not a v4 word; still sent: whatever the answer, it must be exactly one
        return c
    if x < 0.37:
        junk = r.choice(
            [
                'frobnicate %d' % uid,
                'neighbor',
                'peer',
                'neighbor 127.0.0.2',
                'peer *',
                'neighbor 127.0.0.2 frobnicate',
                'peer 127.0.0.2 frobnicate 1',
                'show',
                'flush adj-rib',
                'rib',
                'session ack',
                'system',
                '} {',
                'announce route 10.0.0.0/24 next-hop 1.1.1.1 ]',
                '\\',
                'done',
                'error',
            ]
        )
        c.update(line=junk, verb='unknown', expect='unknown', bad='junk')
        if junk.startswith('announce'):
            c.update(verb='bad', expect='bad', bad='stray-bracket')
            if version == 6:
                c.update(verb='unknown', expect='unknown', bad='v4-on-v6')
        return c

    # announce / withdraw family, possibly behind a selector
    body, verb, expect, badkind, marker = gen_action(r, uid)
    c.update(verb=verb, expect=expect, bad=badkind, marker=marker)
    with_selector = r.random() < 0.72
    if syntax == 'v4':
        if with_selector:
            alts, form = gen_selector(r, nbs, 'v4')
            c.update(selector=alts, form='v4-' + form)
            line = render_selector(alts, form, 'neighbor') + ' ' + body
        else:
            line = body
        if foreign:
            c.update(verb='unknown', expect='unknown', bad='v4-on-v6', marker='')
    else:
        if r.random() < 0.12 and verb in ('route', 'ipv4', 'ipv6', 'flow', 'vpls', 'attributes') and expect == 'ok':
            # inline group: several announce/withdraw bodies behind one selector
            bodies = [body]
            for _ in range(r.randint(1, 2)):
                b2, v2, e2, _, _ = gen_action(r, uid)
                if e2 == 'ok' and v2 in ('route', 'ipv4', 'ipv6', 'flow', 'attributes'):
                    bodies.append(b2)
            body = 'group ' + ' ; '.join(bodies)
            c.update(verb='group-inline')
        elif r.random() < 0.10 and verb == 'route' and expect == 'ok':
            # index based route commands of the v6 API
            what = body.split(' ', 1)
            body = 'routes %s %s' % ('add' if what[0] == 'announce' else 'remove', what[1])
            c.update(verb='routes-' + ('add' if what[0] == 'announce' else 'remove'))
        elif r.random() < 0.03:
            body = 'routes list'
            c.update(verb='routes-list', expect='ok', bad='', marker='')
        elif r.random() < 0.04:
            # the index form of the v6 route commands, with an index nobody holds: whatever the answer, exactly one
            body = 'routes remove index %08x' % r.getrandbits(32)
            c.update(verb='routes-remove-index', expect='any', bad='', marker='')
        alts, form = gen_selector(r, nbs, 'v6')
        if not with_selector:
            alts, form = [('*', [])], 'star'
        c.update(selector=alts, form='v6-' + form)
        line = render_selector(alts, form, 'peer') + ' ' + body
    c['line'] = line
    return c


def gen_stream(r: random.Random, nbs: list[dict], version: int, nlines: int, big: bool) -> list[dict]:
    cmds = []
    state: dict = {}
    for i in range(nlines):
        c = gen_command(r, nbs, version, i, state)
        if c['verb'] not in ('empty',):
            c['line'] = decorate(r, c['line'])
        cmds.append(c)
    if big:
        # one line longer than the 16 KiB read size: a comment, an unknown word, or a long nlri list
        k = r.choice(['comment', 'nlri', 'unknown', 'nlri'])
        size = r.choice([16384, 16385, 17000, 33000, 70000])
        if k == 'comment':
            c = {'line': '# ' + 'x' * size, 'verb': 'comment', 'expect': 'ok'}
        elif k == 'unknown':
            c = {'line': 'frobnicate ' + 'y' * size, 'verb': 'unknown', 'expect': 'unknown', 'bad': 'junk'}
        else:
            n = size // 14 + 1
            nl = ' '.join('10.%d.%d.%d/32' % (100 + j // 65536, (j // 256) % 256, j % 256) for j in range(n))
            pre = 'announce attributes' if version == 4 else 'peer * announce attributes'
            c = {'line': '%s next-hop 1.1.1.9 nlri %s' % (pre, nl), 'verb': 'attributes', 'expect': 'ok'}
            if version != 4:
                c.update(selector=[('*', [])], form='v6-star')
        full = {'verb': '', 'expect': 'any', 'bad': '', 'selector': None, 'form': 'none', 'ack': '', 'marker': '', 'syntax': 'big'}
        full.update(c)
        full['big'] = True
        cmds.insert(r.randrange(len(cmds) + 1), full)
    return cmds


# --------------------------------------------------------------------------------------
# chunking of the byte stream
# --------------------------------------------------------------------------------------

CHUNKINGS = ['whole', 'line', 'byte', 'random', 'midline', 'multi', 'newline-first', 'pairs']


def chunk(r: random.Random, data: bytes, how: str) -> list[bytes]:
    if not data:
        return []
    if how == 'whole':
        return [data]
    if how == 'line':
        return [x for x in re.findall(rb'[^\n]*\n|[^\n]+$', data) if x]
    if how == 'byte':
        return [data[i : i + 1] for i in range(len(data))]
    if how == 'pairs':
        return [data[i : i + 2] for i in range(0, len(data), 2)]
    if how == 'random':
        cuts = sorted({r.randrange(1, len(data)) for _ in range(r.randint(1, max(1, min(60, len(data) // 3))))}) if len(data) > 1 else []
        out, last = [], 0
        for cpos in cuts + [len(data)]:
            out.append(data[last:cpos])
            last = cpos
        return [x for x in out if x]
    if how == 'multi':
        lines = re.findall(rb'[^\n]*\n|[^\n]+$', data)
        out, i = [], 0
        while i < len(lines):
            k = r.randint(2, 7)
            out.append(b''.join(lines[i : i + k]))
            i += k
        return out
    if how == 'newline-first':
        # every write starts with the newline ending the previous line
        parts = data.split(b'\n')
        out = [parts[0]]
        for p in parts[1:]:
            out.append(b'\n' + p)
        return [x for x in out if x]
    if how == 'midline':
        # cuts strictly inside lines: no write ends on a line boundary except the last one
        lines = re.findall(rb'[^\n]*\n|[^\n]+$', data)
        out, carry = [], b''
        for ln in lines:
            body = carry + ln
            if len(ln) > 2:
                cut = len(carry) + r.randrange(1, len(ln) - 1)
                out.append(body[:cut])
                carry = body[cut:]
            else:
                carry = body
        if carry:
            out.append(carry)
        return [x for x in out if x]
    raise ValueError(how)


# --------------------------------------------------------------------------------------
# independent line model
# --------------------------------------------------------------------------------------

_PAD = re.compile(r'([\[\]\(\),])')


def tokens(line: str) -> list[str]:
    return _PAD.sub(r' \1 ', line).split()


# --------------------------------------------------------------------------------------
# harness
# --------------------------------------------------------------------------------------


class FakePopen:
    """Stands for the forked helper: two pipes the harness keeps the far ends of."""

    last = None

    def __init__(self, args, stdin=None, stdout=None, env=None, preexec_fn=None, **kw):
        self.args = args
        out_r, out_w = os.pipe()  # helper stdout -> exabgp
        in_r, in_w = os.pipe()  # exabgp -> helper stdin
        self.stdout = os.fdopen(out_r, 'rb', 0)
        self.stdin = os.fdopen(in_w, 'wb', 0)
        self.h_w = out_w
        self.h_r = in_r
        self.pid = -1
        self.returncode = None
        FakePopen.last = self

    def poll(self):
        return None

    def terminate(self):
        pass

    def kill(self):
        pass

    def wait(self, timeout=None):
        return 0

    def close(self):
        for f in (self.stdout, self.stdin):
            try:
                f.close()
            except OSError:
                pass
        for fd in (self.h_w, self.h_r):
            try:
                os.close(fd)
            except OSError:
                pass


def _pending(fd: int) -> int:
    buf = fcntl.ioctl(fd, termios.FIONREAD, b'\0\0\0\0')
    return struct.unpack('i', buf)[0]


def rib_snapshot(neighbor) -> tuple:
    out = neighbor.rib.outgoing
    inc = neighbor.rib.incoming
    seen = []
    for fam, routes in out._seen.items():
        for idx, route in routes.items():
            seen.append((int(fam[0]), int(fam[1]), idx.hex(), route.attributes.index().decode('latin1'), str(route.nexthop)))
    new = [(idx.hex(), route.attributes.index().decode('latin1'), str(route.nexthop)) for idx, route in out._new_nlri.items()]
    new_attr = []
    for aidx, per_family in out._new_attr_af_nlri.items():
        for fam, routes in per_family.items():
            for idx in routes:
                new_attr.append((aidx.decode('latin1'), int(fam[0]), int(fam[1]), idx.hex()))
    wd = []
    for fam, per in out._pending_withdraws.items():
        for idx in per:
            wd.append((int(fam[0]), int(fam[1]), idx.hex()))
    dogs = []
    for name, sides in out._watchdog.items():
        for side, routes in sides.items():
            for idx in routes:
                dogs.append((name, side, idx.hex()))
    refresh = (sorted((int(a), int(s)) for a, s in out._refresh_families), [rt.index().hex() for rt in out._refresh_routes])
    incoming = []
    for fam, routes in inc._seen.items():
        for idx in routes:
            incoming.append((int(fam[0]), int(fam[1]), idx.hex() if isinstance(idx, bytes) else str(idx)))
    return (sorted(seen), sorted(new), sorted(new_attr), sorted(wd), sorted(dogs), refresh, sorted(incoming))


SNAP_PARTS = ['cache', 'queued', 'queued-by-attribute', 'pending-withdraws', 'watchdog', 'refresh', 'incoming']


def snap_diff(a: tuple, b: tuple) -> dict:
    d = {}
    for name, x, y in zip(SNAP_PARTS, a, b):
        if x != y:
            if isinstance(x, list) and isinstance(y, list):
                try:
                    d[name] = {'removed': [v for v in x if v not in y][:6], 'added': [v for v in y if v not in x][:6]}
                    continue
                except TypeError:
                    pass
            d[name] = {'before': repr(x)[:300], 'after': repr(y)[:300]}
    return d


class Case:
    """One fresh daemon (configuration, reactor, processes, pipe pair) and one command stream."""

    def __init__(self, nbs, encoder, version, ack_default=True, slow_reader=False, ackjson=False):
        self.nbs = nbs
        self.encoder = encoder
        self.version = version
        self.slow = slow_reader
        self.ackjson = ackjson
        self.ack_default = ack_default
        self.ctext = config_text(nbs, encoder)
        self.events: list[dict] = []  # one per command handed to API.process
        self.writes: list[tuple[int, str]] = []  # (index of the current command, line queued)
        self.reply = bytearray()
        self.iters = 0
        self.problems: list[str] = []
        self.loop_error = None

    # -- construction through production code ------------------------------------------------
    def build(self):
        from exabgp.configuration.configuration import Configuration
        from exabgp.environment import getenv
        from exabgp.reactor.api import processes as pm
        from exabgp.reactor.api.command import group as group_cmd
        from exabgp.reactor.loop import Reactor
        from exabgp.rib import RIB

        RIB._cache.clear()  # RIB objects are cached per neighbor name across Reactor instances
        group_cmd.clear_group(SVC)
        env = getenv()
        env.api.version = self.version
        env.api.ack = self.ack_default
        cwd = os.getcwd()
        conf = Configuration([self.ctext], text=True)
        reactor = Reactor(conf)
        for s in (signal.SIGTERM, signal.SIGHUP, signal.SIGALRM, signal.SIGUSR1, signal.SIGUSR2):
            signal.signal(s, signal.SIG_DFL)
        os.chdir(cwd)
        # what Reactor.run_async does before entering the main loop
        reactor.processes = pm.Processes()
        reactor.asynchronous.set_error_handler(reactor.processes.answer_error_sync)
        reactor.signal.mark_ready()
        if not reactor.reload():
            raise exa.ConfigError(str(conf.error))
        real = pm.subprocess

        class Shim:
            Popen = FakePopen
            PIPE = real.PIPE
            CalledProcessError = real.CalledProcessError
            TimeoutExpired = real.TimeoutExpired

        pm.subprocess = Shim
        try:
            reactor.processes.start(conf.processes)
        finally:
            pm.subprocess = real
        self.fake = FakePopen.last
        if SVC not in reactor.processes._process or reactor.processes._process[SVC] is not self.fake:
            raise RuntimeError('helper process was not registered')
        fcntl.fcntl(self.fake.h_w, fcntl.F_SETFL, os.O_NONBLOCK)
        fcntl.fcntl(self.fake.h_r, fcntl.F_SETFL, os.O_NONBLOCK)
        if self.slow:
            try:
                fcntl.fcntl(self.fake.stdin.fileno(), 1031, 4096)  # F_SETPIPE_SZ: a helper which reads slowly
            except OSError:
                pass
        if self.ackjson:
            reactor.processes._ackjson[SVC] = True  # not reachable from configuration: logged, never flagged
        self.reactor = reactor
        self.conf = conf
        # map the generated neighbor table on the peers ExaBGP created
        self.keys = []
        for nb in self.nbs:
            found = [
                k
                for k, p in reactor._peers.items()
                if str(p.neighbor.session.peer_address) == nb['peer']
                and int(p.neighbor.session.local_as) == nb['las']
                and int(p.neighbor.session.peer_as) == nb['pas']
                and str(p.neighbor.session.router_id) == nb['rid']
                and str(p.neighbor.session.local_address) == nb['local']
            ]
            if len(found) != 1:
                raise RuntimeError('neighbor %s not found once in the reactor: %r' % (nb['peer'], found))
            self.keys.append(found[0])
        if len(reactor._peers) != len(self.nbs):
            raise RuntimeError('unexpected peers')
        self.neighbors = [reactor._peers[k].neighbor for k in self.keys]

        # observation points (instance attributes, nothing in /repo is changed)
        real_process = reactor.api.process
        real_write = reactor.processes.write
        real_peers = reactor._run_async_peers

        def process(reactor_, service, command):
            self.events.append({'service': service, 'command': command, 'snap': self.snapshot(), 'writes': len(self.writes)})
            return real_process(reactor_, service, command)

        def write(process_name, string, peer=None):
            if string is not None and process_name == SVC:
                self.writes.append((len(self.events) - 1, string))
            return real_write(process_name, string, peer)

        async def run_peers():
            self.iters += 1
            await real_peers()

        reactor.api.process = process
        reactor.processes.write = write
        reactor._run_async_peers = run_peers

    def snapshot(self):
        return [rib_snapshot(n) for n in self.neighbors]

    # -- driving -------------------------------------------------------------------------------
    def busy(self) -> bool:
        p = self.reactor.processes
        if _pending(self.fake.stdout.fileno()):
            return True
        if p._command_queue or self.reactor.asynchronous._async:
            return True
        if any(q for q in p._write_queue.values()):
            return True
        return False

    def drain(self, limit=None):
        while True:
            try:
                data = os.read(self.fake.h_r, limit or 65536)
            except BlockingIOError:
                return
            if not data:
                return
            self.reply += data
            if limit:
                return

    async def settle(self, full=True) -> bool:
        mark = self.iters
        for turn in range(SETTLE_BOUND):
            await asyncio.sleep(0)
            if self.task.done():
                return False
            if self.slow:
                # the helper reads a little only when exabgp has nothing else to do
                p = self.reactor.processes
                if not _pending(self.fake.stdout.fileno()) and not p._command_queue and not self.reactor.asynchronous._async:
                    self.drain(173)
            else:
                self.drain()
            if self.busy():
                mark = self.iters
                continue
            if not full or self.iters >= mark + 2:
                return True
        return False

    async def feed(self, data: bytes) -> bool:
        view = memoryview(data)
        for turn in range(SETTLE_BOUND):
            try:
                n = os.write(self.fake.h_w, view)
            except BlockingIOError:
                n = 0
            view = view[n:]
            if not len(view):
                break
            await asyncio.sleep(0)
            if not self.slow:
                self.drain()
            if self.task.done():
                return False
        # wait until the reader callback took the bytes out of the pipe
        for turn in range(SETTLE_BOUND):
            if not _pending(self.fake.stdout.fileno()):
                return True
            await asyncio.sleep(0)
            if self.task.done():
                return False
        return False

    async def drive(self, chunks: list[bytes], settle_between: bool):
        loop = asyncio.get_running_loop()
        self.reactor.processes.setup_async_readers(loop)
        self.task = loop.create_task(self.reactor._async_main_loop())
        ok = True
        for ch in chunks:
            if not await self.feed(ch):
                ok = False
                break
            if settle_between and not await self.settle():
                ok = False
                break
        if ok:
            ok = await self.settle()
        if ok and self.slow:
            for _ in range(SETTLE_BOUND):
                before = len(self.reply)
                self.drain()
                await asyncio.sleep(0)
                if not self.busy() and len(self.reply) == before:
                    break
        self.drain()
        self.final = self.snapshot()
        if self.task.done():
            try:
                exc = self.task.exception()
            except asyncio.CancelledError:
                exc = None
            self.loop_error = repr(exc) if exc else 'main loop returned (exit_code=%r signal=%r)' % (self.reactor.exit_code, self.reactor.signal.received)
        else:
            self.task.cancel()
            try:
                await self.task
            except (asyncio.CancelledError, Exception):  # noqa
                pass
        try:
            loop.remove_reader(self.fake.stdout.fileno())
        except (ValueError, OSError):
            pass
        self.quiescent = ok

    def run(self, chunks: list[bytes], settle_between: bool):
        loop = asyncio.new_event_loop()
        try:
            asyncio.set_event_loop(loop)
            loop.run_until_complete(self.drive(chunks, settle_between))
        finally:
            try:
                pending = [t for t in asyncio.all_tasks(loop) if not t.done()]
                for t in pending:
                    t.cancel()
                if pending:
                    loop.run_until_complete(asyncio.gather(*pending, return_exceptions=True))
            except Exception:  # noqa
                pass
            asyncio.set_event_loop(None)
            loop.close()
            self.fake.close()


# --------------------------------------------------------------------------------------
# oracles
# --------------------------------------------------------------------------------------


def terminals():
    """the done/error strings, read as data"""
    from exabgp.reactor.api.response.answer import Answer

    return {
        Answer.text_done: ('done', 'text'),
        Answer.text_error: ('error', 'text'),
        Answer.json_done: ('done', 'json'),
        Answer.json_error: ('error', 'json'),
    }


def ack_model(cmds: list[dict], initial: bool) -> list[int]:
    """expected number of terminal replies per command line"""
    on = initial
    want = []
    for c in cmds:
        a = c.get('ack')
        if a == 'enable':
            on = True
            want.append(1)
        elif a == 'disable':
            on = False
            want.append(1)
        elif a == 'silence':
            on = False
            want.append(0)
        else:
            want.append(1 if on else 0)
    return want


def ack_states(cmds: list[dict], initial: bool) -> list[bool]:
    """is a reply owed to command i (acks enabled when it runs, or it is the documented forced one)"""
    return [w == 1 for w in ack_model(cmds, initial)]


def check_case(res: Result, case: Case, cmds: list[dict], chunking: str, meta: dict):
    term = terminals()
    enc = case.encoder if case.version == 4 else 'json'
    vtag = 'v%d' % case.version
    lines = [c['line'] for c in cmds]

    def witness(**kw):
        w = {
            'config': case.ctext,
            'api_version': case.version,
            'encoder': case.encoder,
            'chunking': chunking,
            'settle_between_chunks': meta['settle'],
            'slow_reader': case.slow,
            'ack_default': case.ack_default,
            'lines': lines if sum(map(len, lines)) < 6000 else [ln if len(ln) < 200 else ln[:80] + '...(%d bytes)' % len(ln) for ln in lines][:80],
            'chunks': [ch.decode('ascii') for ch in meta['chunks']][:60] if sum(map(len, meta['chunks'])) < 3000 else '(%d chunks, sizes %r...)' % (len(meta['chunks']), [len(x) for x in meta['chunks'][:20]]),
            'replay': meta['replay'],
        }
        w.update(kw)
        return w

    if case.loop_error is not None:
        executed = len(case.events)
        last = cmds[executed - 1] if 0 < executed <= len(cmds) else {}
        res.violation(
            'C14/lost-command:loop-died:' + (last.get('verb') or '?'),
            'the reactor main loop ended while commands were being processed (%s): the remaining commands are never executed' % case.loop_error,
            witness(executed=executed, last_command=case.events[-1]['command'] if case.events else None),
            'order:' + chunking,
        )
        return
    if not case.quiescent:
        res.inconclusive.append('case did not become quiescent within the step bound (%s, %d lines)' % (chunking, len(lines)))
        return

    # ---- (a) same commands, same order ---------------------------------------------------
    got = [tokens(e['command']) for e in case.events]
    want = [tokens(ln) for ln in lines]
    services = {e['service'] for e in case.events}
    order_ok = True
    if services - {SVC}:
        res.violation('C14/order:wrong-service', 'command attributed to another service %r' % sorted(services), witness(), 'order:' + chunking)
        order_ok = False
    if got != want:
        order_ok = False
        first = next((i for i, (g, w) in enumerate(zip(got, want)) if g != w), min(len(got), len(want)))
        if len(got) < len(want) and got == want[: len(got)]:
            key, what = 'C14/lost-command', 'only %d of %d command lines were executed (tail lost)' % (len(got), len(want))
        elif len(got) < len(want) and sorted(map(tuple, got)) != sorted(map(tuple, want)):
            key, what = 'C14/lost-command', '%d command lines written, %d executed; first difference at line %d' % (len(want), len(got), first)
        elif sorted(map(tuple, got)) == sorted(map(tuple, want)):
            key, what = 'C14/order', 'commands executed in another order than written; first difference at line %d' % first
        elif len(got) > len(want):
            key, what = 'C14/extra-command', '%d command lines written, %d executed; first difference at line %d' % (len(want), len(got), first)
        else:
            key, what = 'C14/order:altered-command', 'executed command differs from the line written at line %d' % first
        res.violation(
            key,
            what,
            witness(first_difference=first, written=lines[first][:300] if first < len(lines) else None, executed=case.events[first]['command'][:300] if first < len(case.events) else None),
            'order:' + chunking,
        )
    else:
        res.ok('order:' + chunking, ('order', vtag, enc, chunking, min(len(lines), 50), meta['settle'], case.slow))
        if any(c.get('big') for c in cmds):
            res.ok('order:bigline', ('bigline', chunking))
    if not order_ok:
        return  # the per command oracles need the commands aligned with the lines

    # ---- (b) one terminal reply per command ----------------------------------------------
    reply_lines = bytes(case.reply).decode('ascii', 'replace').split('\n')
    tail = reply_lines.pop() if reply_lines else ''
    queued = []
    for idx, s in case.writes:
        for part in s.split('\n'):
            queued.append((idx, part))
    fifo_ok = [q for _, q in queued] == reply_lines and tail == ''
    if not fifo_ok:
        first = next((i for i, (a, b) in enumerate(zip([q for _, q in queued], reply_lines)) if a != b), min(len(queued), len(reply_lines)))
        res.violation(
            'C14/reply-stream-altered',
            'the bytes read on the helper pipe are not the replies queued, in order (first difference at reply line %d; %d queued, %d read, unterminated tail %r)' % (first, len(queued), len(reply_lines), tail[:40]),
            witness(queued=[q for _, q in queued][max(0, first - 2) : first + 3], read=reply_lines[max(0, first - 2) : first + 3]),
            'ack:pipe',
        )
    else:
        res.ok('ack:pipe-fifo:' + ('slow' if case.slow else 'fast'))

    owed = ack_states(cmds, case.ack_default)
    per_cmd = [[] for _ in cmds]  # terminal kinds attributed to each command
    for idx, s in queued:
        if s in term and 0 <= idx < len(cmds):
            per_cmd[idx].append(term[s][0])
    stream_terms = [term[s][0] for s in reply_lines if s in term]
    total_owed = sum(owed)
    if case.ackjson:
        # state not reachable from a configuration file: count only
        for i, c in enumerate(cmds):
            if owed[i] and len(per_cmd[i]) != 1:
                res.count('ackjson-forced:%d-terminals:%s' % (len(per_cmd[i]), c['verb']))
            elif owed[i]:
                res.count('ackjson-forced:one-terminal')
    else:
        count_bad = False
        for i, c in enumerate(cmds):
            kinds = per_cmd[i]
            if not owed[i]:
                if kinds:
                    res.count('terminal-while-acks-off:' + c['verb'])
                continue
            cls = 'ack:%s:%s' % (enc, kinds[0] if len(kinds) == 1 else 'miscount')
            if len(kinds) != 1:
                count_bad = True
                payload = [s for j, s in queued if j == i][:6]
                res.violation(
                    'C14/ack-count:%s:%s' % (enc, c['verb'] + (':' + c['bad'] if c.get('bad') else '')),
                    'command answered with %d terminal replies %r instead of exactly one' % (len(kinds), kinds),
                    witness(line_index=i, line=c['line'][:300], replies_for_this_command=payload, acks_enabled=True),
                    cls,
                )
            else:
                res.ok(cls, ('ack', vtag, enc, c['verb'], c.get('bad', ''), kinds[0], c['form']))
                res.ok('cmd:' + c['verb'])
        if not count_bad and len(stream_terms) != total_owed:
            res.violation(
                'C14/ack-count:%s:stream' % enc,
                '%d terminal replies on the pipe for %d acknowledged commands' % (len(stream_terms), total_owed),
                witness(),
                'ack:%s:miscount' % enc,
            )
        # order through echoes: a marker unique to command i may only show up in the segment closed by terminal of i
        if not count_bad and fifo_ok:
            seg_of = {}
            acked = [i for i in range(len(cmds)) if owed[i]]
            seg = 0
            for s in reply_lines:
                if s in term:
                    seg += 1
                    continue
                seg_of.setdefault(seg, []).append(s)
            markers = {c['marker']: i for i, c in enumerate(cmds) if c.get('marker')}
            if markers:
                for segno, plines in seg_of.items():
                    text = '\n'.join(plines)
                    for m, i in markers.items():
                        if m in text:
                            owner = acked[segno] if segno < len(acked) else None
                            if owner != i:
                                res.violation(
                                    'C14/ack-order',
                                    'reply text naming command %d is found in the reply segment of command %r' % (i, owner),
                                    witness(marker=m, segment=plines[:4]),
                                    'ack:order',
                                )
                            else:
                                res.ok('ack:order-echo')
            # expectations which are certain are logged, not flagged (the statement does not say which commands succeed)
            for i, c in enumerate(cmds):
                if owed[i] and len(per_cmd[i]) == 1:
                    k = per_cmd[i][0]
                    if c['expect'] in ('unknown', 'bad') and k == 'done':
                        res.count('rejected-by-construction-answered-done:%s:%s' % (c['verb'], c.get('bad', '')))
                    if c['expect'] == 'ok' and k == 'error':
                        res.count('valid-by-construction-answered-error:%s:%s' % (vtag, c['verb']))

    # ---- (c) and (d): RIB effects ----------------------------------------------------------
    snaps = [e['snap'] for e in case.events] + [case.final]
    for i, c in enumerate(cmds):
        before, after = snaps[i], snaps[i + 1]
        changed = {n for n in range(len(case.nbs)) if before[n] != after[n]}
        answered_error = (not case.ackjson) and owed[i] and per_cmd[i] == ['error']
        verb = c['verb'] + (':' + c['bad'] if c.get('bad') else '')

        def diffs():
            return {case.nbs[n]['peer']: snap_diff(before[n], after[n]) for n in sorted(changed)}

        # (c) rejected commands
        if c['expect'] in ('unknown', 'bad') or answered_error:
            kind = c.get('bad') or ('answered-error:' + c['verb'])
            if c['expect'] == 'unknown':
                kind = 'unknown:' + (c.get('bad') or 'verb')
            cls = 'noeffect:' + kind
            if changed:
                if answered_error:
                    key = 'C14/error-changed-rib:' + verb
                    what = 'command answered error changed the RIB of %s' % sorted(case.nbs[n]['peer'] for n in changed)
                else:
                    key = 'C14/rejected-changed-rib:' + verb
                    what = 'command which is unknown/unparsable by construction changed the RIB of %s (answer %r)' % (sorted(case.nbs[n]['peer'] for n in changed), per_cmd[i])
                res.violation(key, what, witness(line_index=i, line=c['line'][:300], executed=case.events[i]['command'][:300], changes=diffs(), answer=per_cmd[i]), cls)
            else:
                res.ok(cls, ('noeffect', vtag, kind, c['form']))
        # (d) selector confinement
        if c.get('selector') is not None:
            allowed = select(c['selector'], case.nbs)
            card = '0' if not allowed else ('1' if len(allowed) == 1 else 'many')
            cls = 'selector:%s:%s' % (c['form'], card)
            extra = changed - allowed
            if extra:
                # mechanism keys: the syntax, whether a wildcard carries terms, whether nobody was selected;
                # watchdog commands get their own key (they never look at the selector)
                syntax = c['form'].split('-')[0]
                star = any(ip == '*' and terms for ip, terms in c['selector'])
                form = syntax + '-star-terms' if star else c['form']
                if c['verb'] == 'watchdog':
                    key = 'C14/selector-overreach:watchdog'
                    what = 'watchdog command changed neighbors outside its selector: %s' % sorted(case.nbs[n]['peer'] for n in extra)
                elif not allowed:
                    key = 'C14/selector-nobody-hits-all:' + (form if star else syntax)
                    what = 'selector matching no neighbor changed %s' % (
                        'every neighbor' if len(changed) == len(case.nbs) else 'neighbors %s (every neighbor configured for the family)' % sorted(case.nbs[n]['peer'] for n in changed)
                    )
                else:
                    key = 'C14/selector-overreach:' + form
                    what = 'neighbors outside the selector changed: %s' % sorted(case.nbs[n]['peer'] for n in extra)
                res.violation(
                    key,
                    what,
                    witness(
                        line_index=i,
                        line=c['line'][:300],
                        selector=c['selector'],
                        selected_by_model=sorted(case.nbs[n]['peer'] for n in allowed),
                        changed=sorted(case.nbs[n]['peer'] for n in changed),
                        neighbors=[{k: v for k, v in nb.items() if k != 'watchdog'} for nb in case.nbs],
                        changes=diffs(),
                        answer=per_cmd[i],
                    ),
                    cls,
                )
            else:
                res.ok(cls, ('selector', vtag, c['form'], card, c['verb'], bool(changed)))
                if changed:
                    res.count('selector-effective:' + card)


# --------------------------------------------------------------------------------------
# shards
# --------------------------------------------------------------------------------------


def plan(tier, seed):
    if tier == 'quick':
        return [{'shard': i, 'streams': 94} for i in range(16)] + [{'shard': 900 + i, 'daemon': True, 'part': i, 'cases': 2, 'lines': 60} for i in range(4)]
    return [{'shard': i, 'streams': 1180} for i in range(64)] + [{'shard': 900 + i, 'daemon': True, 'part': i, 'cases': 8, 'lines': 120} for i in range(8)]


LENGTHS = [1, 1, 2, 3, 4, 6, 8, 12, 16, 24, 32, 48, 64, 100, 150, 200]


def gen_case(r: random.Random) -> dict:
    """everything needed to rebuild a case: pure data"""
    version = r.choice([4, 4, 6, 6, 6])
    encoder = r.choice(['text', 'json'])
    chunking = r.choice(CHUNKINGS)
    nlines = r.choice(LENGTHS)
    if chunking in ('byte', 'pairs'):
        nlines = min(nlines, 32)
    big = r.random() < 0.08
    if big:
        nlines = min(nlines, 12)
        if chunking in ('byte', 'pairs'):
            chunking = 'random'
    return {
        'version': version,
        'encoder': encoder,
        'chunking': chunking,
        'nlines': nlines,
        'big': big,
        'settle': r.random() < 0.5,
        'slow': r.random() < 0.2,
        'ack_default': r.random() < 0.9,
        'ackjson': r.random() < 0.03,
        'sub': r.randrange(1 << 30),
    }


def run_case(res: Result, g: dict, replay: dict):
    r = random.Random(g['sub'])
    nbs = gen_neighbors(r)
    cmds = gen_stream(r, nbs, g['version'], g['nlines'], g['big'])
    if g.get('only_lines') is not None:
        cmds = [c for i, c in enumerate(cmds) if i in set(g['only_lines'])]
    data = ''.join(c['line'] + '\n' for c in cmds).encode('ascii')
    chunks = chunk(r, data, g['chunking'])
    assert b''.join(chunks) == data
    case = Case(nbs, g['encoder'], g['version'], ack_default=g['ack_default'], slow_reader=g['slow'], ackjson=g['ackjson'])
    try:
        case.build()
    except exa.ConfigError as e:
        res.count('config-refused')
        res.extra.setdefault('config_refused', []).append(str(e)[-200:])
        return None
    case.run(chunks, g['settle'])
    meta = {'settle': g['settle'], 'chunks': chunks, 'replay': replay}
    check_case(res, case, cmds, g['chunking'], meta)
    return case, cmds


def run_daemon(desc):
    """the REAL daemon, a REAL helper process writing the command stream on its stdout and reading the answers on its stdin,
    one neighbor ESTABLISHED with a scripted peer (the in-process level keeps every session down): one terminal answer per
    command, in order, `done` for the valid ones and `error` for the unknown ones, nothing after the last; the process stays
    alive and logs no unhandled exception.  Which neighbors a selector reaches is judged in-process, not here"""
    import json as _json

    from vlib import daemon

    res = Result()
    r = random.Random(desc['seed'] * 2750159 + desc['part'])
    for ci in range(desc['cases']):
        while True:
            nbs = gen_neighbors(r)
            if all(':' not in nb['peer'] for nb in nbs):
                break
        text = config_text(nbs, 'json').replace('    run /bin/true;', '    run @PY@ @DIR@/player.py @DIR@/script @DIR@/replies;', 1)
        text = text.replace('    passive true;', '    passive false;', 1)  # the first neighbor (127.0.0.2) connects to the scripted peer
        cmds = [c for c in gen_stream(r, nbs, 6, desc['lines'], False) if not c['verb'].startswith('ack-') and c['verb'] not in ('empty', 'group-start', 'group-end', 'reset') and c['line'].strip() and '\n' not in c['line']]
        script = '#sleep 1.0\n' + ''.join(c['line'] + '\n' for c in cmds)
        d = daemon.Daemon(text, files={'script': script}, env={'exabgp_log_level': 'ERROR'})
        wit = {'config': text, 'level': 'daemon'}
        peer = None
        try:
            d.start()
            peer = d.accept()
            peer.establish(nbs[0]['pas'])
            import threading

            stop = threading.Event()

            def reader():  # the peer keeps reading (and answers nothing): the daemon must never block on its socket
                while not stop.is_set():
                    t, b = peer.read_message(0.2)
                    if t is None:
                        break

            th = threading.Thread(target=reader, daemon=True)
            th.start()
            ls = d.wait_lines('replies', lambda ls: any(x.startswith('["end"') or x.startswith('["timeout"') for x in ls), timeout=60 + 2 * len(cmds))
            if any(x.startswith('["timeout"') for x in ls):
                # the helper waited 20 s for the answer to one command; the answer is given 20 more seconds
                time.sleep(20.0)
                ls = d.lines('replies')
                k = [i for i, x in enumerate(ls) if x.startswith('["timeout"')][0]
                late = [x for x in ls[k + 1 :] if x.startswith('["got"')]
                unanswered = _json.loads(ls[k])[1]
                sent_so_far = [_json.loads(x)[1] for x in ls[: k + 1] if x.startswith('["sent"')]
                stop.set()
                res.violation(
                    'C14/daemon:command-never-answered' + ('' if not late else ':answered-late'),
                    f'no terminal answer within 40 s to {unanswered[:100]!r} (command {len(sent_so_far)} of the stream); the daemon is {"alive" if d.alive() else "gone"}',
                    dict(wit, stream=sent_so_far[-40:], log=d.tail(1500)),
                    'daemon',
                )
                continue
            time.sleep(1.0)
            stop.set()
            th.join(2)
            replies = [_json.loads(x) for x in d.lines('replies')]
            log = d.tail(6000)
            alive = d.alive()
        except daemon.Inconclusive as e:
            if d.proc is not None and d.proc.poll() is not None:
                res.violation('C14/daemon:process-exits', f'the daemon exited (rc {d.proc.poll()}) while answering the command stream: {str(e)[:200]}', dict(wit, log=d.tail(2500), script=script[-3000:]), 'daemon')
            else:
                daemon.skipped(res, str(e))
            continue
        finally:
            try:
                if peer is not None:
                    peer.close()
            except Exception:  # noqa
                pass
            d.stop()
        if not alive:
            res.violation('C14/daemon:process-exits', 'the daemon exited while answering the command stream', dict(wit, log=log[-2500:], script=script[-3000:]), 'daemon')
            continue
        if 'exception.unhandled' in log or 'Traceback' in log:
            k = log.find('Traceback')
            res.violation('C14/daemon:unhandled-exception', 'the daemon logged an unhandled exception: ' + log[max(0, k) : k + 400], dict(wit, log=log[-3000:], script=script[-3000:]), 'daemon')
            continue

        def terminal(line):
            x = line.strip()
            if x in ('done', 'error'):
                return x
            if '"answer": "done"' in x or '"answer": "error"' in x:
                return 'error' if '"answer": "error"' in x else 'done'
            return None

        # split the log by command
        per = []
        cur = None
        after_end = []
        ended = False
        for kind, textline in replies:
            if kind == 'sent':
                cur = {'cmd': textline, 'got': [], 'timeout': False}
                per.append(cur)
            elif kind == 'timeout' and cur is not None:
                cur['timeout'] = True
            elif kind == 'end':
                ended = True
            elif kind == 'got':
                (after_end if ended else cur['got'] if cur is not None else after_end).append(textline)
        bad = False
        if len(per) != len(cmds):
            res.inconclusive.append(f'daemon: the helper sent {len(per)} of {len(cmds)} commands')
            continue
        for c, p_ in zip(cmds, per):
            terms = [t for t in (terminal(x) for x in p_['got']) if t]
            cls = 'daemon:ack:' + c['verb']
            w = dict(wit, command=c['line'], got=p_['got'][-6:], expect=c['expect'])
            if p_['timeout'] or len(terms) != 1:
                res.violation(f'C14/daemon:ack-count:{c["verb"]}', f'command answered with {len(terms)} terminal replies (timeout={p_["timeout"]}) instead of exactly one: {c["line"][:80]!r}', w, cls)
                bad = True
                break
            plain = c.get('form') in ('none', None) or (c.get('selector') == [('*', [])])
            if not plain:
                res.ok(cls, ('daemon', c['verb'], 'selector', terms[0]))  # whom a selector reaches decides done/error: judged in-process
                continue
            if c['expect'] == 'ok' and terms[0] != 'done':
                res.violation(f'C14/daemon:valid-command-answered-error:{c["verb"]}', f'a valid command was answered error with a session up: {c["line"][:100]!r} -> {p_["got"][-2:]}', w, cls)
                bad = True
                break
            if c['expect'] in ('unknown', 'bad') and terms[0] != 'error':
                res.violation(f'C14/daemon:invalid-command-answered-done:{c["verb"]}', f'an invalid command was answered done: {c["line"][:100]!r}', w, cls)
                bad = True
                break
            res.ok(cls, ('daemon', c['verb'], c['expect'], terms[0]))
        if bad:
            continue
        stray = [x for x in after_end if terminal(x)]
        if stray:
            res.violation('C14/daemon:answer-after-the-last-command', f'{len(stray)} terminal replies arrived after the last command had been answered', dict(wit, stray=stray[:5]), 'daemon')
            continue
        res.ok('daemon:stream', None)
    return res


def run_shard(desc):
    if desc.get('daemon'):
        return run_daemon(desc)
    res = Result()
    exa.quiet()
    if 'case' in desc:  # replay of one case
        run_case(res, desc['case'], {'case': desc['case']})
        return res
    r = random.Random(desc['seed'] * 1000003 + desc['shard'] * 7919 + 17)
    t0 = time.time()
    for n in range(desc['streams']):
        g = gen_case(r)
        # spread the chunkings evenly: the class promise must not depend on luck
        g['chunking'] = CHUNKINGS[(n + desc['shard']) % len(CHUNKINGS)] if not g['big'] else g['chunking']
        if g['chunking'] in ('byte', 'pairs'):
            g['nlines'] = min(g['nlines'], 32)
        try:
            out = run_case(res, g, {'case': g})
        except Exception as e:  # harness trouble is never a verdict
            import traceback

            res.inconclusive.append('harness error %s: %s | %s' % (type(e).__name__, e, traceback.format_exc()[-500:].replace('\n', ' | ')))
            continue
        if out is not None and n < 2:
            case, cmds = out
            res.sample(
                {
                    'api_version': g['version'],
                    'encoder': g['encoder'],
                    'chunking': g['chunking'],
                    'lines': [c['line'][:120] for c in cmds][:6],
                    'executed': [e['command'][:120] for e in case.events][:6],
                    'replies': bytes(case.reply[:300]).decode('ascii', 'replace'),
                },
                limit=2,
            )
    res.extra['shard_seconds'] = {'sum_over_shards': round(time.time() - t0, 1)}
    import exabgp

    res.extra['exabgp_file'] = exabgp.__file__
    return res


def finish(merged, tier, seed):
    pass


REQUIRED_CLASSES = {
    'quick': ['order:' + c for c in CHUNKINGS]
    + ['order:bigline', 'ack:pipe-fifo:fast', 'ack:pipe-fifo:slow', 'daemon:stream']
    + ['ack:text:done', 'ack:text:error', 'ack:json:done', 'ack:json:error']
    + ['noeffect:unknown:junk', 'noeffect:unknown:v4-on-v6', 'noeffect:bad-prefix', 'noeffect:bad-attr', 'noeffect:partial-nlri', 'noeffect:truncated']
    + ['selector:v4-star:many', 'selector:v4-ip:1', 'selector:v4-ip-terms:1', 'selector:v4-ip-wrongterm:0', 'selector:v4-nomatch-ip:0', 'selector:v4-comma:many']
    + ['selector:v6-star:many', 'selector:v6-ip:1', 'selector:v6-ip-terms:1', 'selector:v6-bracket:many']
    + ['cmd:route', 'cmd:ipv4', 'cmd:ipv6', 'cmd:flow', 'cmd:vpls', 'cmd:attributes', 'cmd:watchdog', 'cmd:comment', 'cmd:empty', 'cmd:unknown', 'cmd:flush', 'cmd:clear'],
}
REQUIRED_CLASSES['thorough'] = REQUIRED_CLASSES['quick']


# --------------------------------------------------------------------------------------
# triage helper:  python -m vlib.props.c14 probe <version> <encoder> line...   /  replay <file>
# --------------------------------------------------------------------------------------


def _probe(argv):
    exa.quiet()
    version, encoder = int(argv[0]), argv[1]
    lines = argv[2:]
    r = random.Random(7)
    nbs = gen_neighbors(r)
    case = Case(nbs, encoder, version)
    case.build()
    print(case.ctext)
    data = ''.join(ln + '\n' for ln in lines).encode()
    case.run([data], False)
    snaps = [e['snap'] for e in case.events] + [case.final]
    for i, e in enumerate(case.events):
        changed = [nbs[n]['peer'] for n in range(4) if snaps[i][n] != snaps[i + 1][n]]
        print('CMD', repr(e['command'][:150]), 'changed', changed)
        for j, s in case.writes:
            if j == i:
                print('     <-', s[:200])
    print('pipe:', bytes(case.reply).decode()[:3000])
    print('loop_error', case.loop_error, 'quiescent', case.quiescent)


if __name__ == '__main__':
    if sys.argv[1] == 'probe':
        _probe(sys.argv[2:])
    elif sys.argv[1] == 'replay':
        with open(sys.argv[2]) as f:
            w = json.load(f)
        g = w['witness']['replay']['case'] if 'witness' in w else w['case']
        if len(sys.argv) > 3:
            g['only_lines'] = [int(x) for x in sys.argv[3].split(',')]
        res = Result()
        exa.quiet()
        run_case(res, g, {'case': g})
        print(json.dumps(res.to_dict()['violations'], indent=1, default=repr)[:6000])
        print(res.classes)
