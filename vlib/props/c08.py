"""C08 - malformed attributes never yield announced routes (RFC 7606).

Enumerated: every registered attribute type x corruption catalogue x base message x {ASN4, 2-byte}. Each corrupted
UPDATE is sent over a socket pair through the real Protocol.read_message (which applies the production drop logic),
the real UpdateHandler (Adj-RIB-In) and the real JSON API encoder. Oracle: the RFC 7606 class of the attribute; an
outcome at or above that class is accepted (reset >= treat-as-withdraw >= attribute-discard).
"""

from __future__ import annotations

import asyncio
import random
import socket
import struct
import types

from vlib import corpus, exa, gen_wire as gw, norm
from vlib import refwire as rw
from vlib.mon import Result

PROPERTY = 'C08'
LEVEL = 'fault_enumeration'
RULE = (
    'attribute x corruption catalogue enumerated completely: for each of ORIGIN, AS_PATH, NEXT_HOP, MED, LOCAL_PREF, '
    'ATOMIC_AGGREGATE, AGGREGATOR, COMMUNITY, ORIGINATOR_ID, CLUSTER_LIST, EXT_COMMUNITY, AS4_PATH, AS4_AGGREGATOR, AIGP, '
    'LARGE_COMMUNITY, MP_REACH, MP_UNREACH, unknown transitive/non-transitive: declared length -1/+1/0/overrun past the block, '
    'extended-length bit inconsistent, block truncated mid-header, wrong flag combinations, per-type invalid values, '
    'duplication, two MP_REACH, missing mandatory; x base message {IPv4 NLRI, MP_REACH IPv6, both, with withdrawals} x '
    '{ASN4, 2-byte}; thorough adds random multi-site corruptions. distinct = (attribute, corruption, base, session)'
)
ASSUMPTIONS = [
    'RFC 7606 classes: reset for MP_REACH/MP_UNREACH and broken section lengths; attribute-discard for ATOMIC_AGGREGATE, AGGREGATOR, AS4_AGGREGATOR, AS4_PATH, AIGP; treat-as-withdraw for the others',
    'outcomes SAFER than the class are accepted; dropping the whole UPDATE silently counts as treat-as-withdraw-like only if nothing is announced on the API nor stored',
    'an attribute whose corruption leaves it well-formed (e.g. a length edit that still parses under the RFC grammar) is decided by the reference decoder, not by the catalogue label',
]
MANIFEST = {
    'level': 'fault_enumeration',
    'technique': 'runtime monitoring with enumerated fault injection on the real read_message -> UpdateHandler / JSON API path, oracle = RFC 7606 class table + reference decoder; a sample of the catalogue sent over TCP to the real exabgp process, judged on what its real helper process is told between marker UPDATEs',
    'text': 'The attribute x corruption matrix is enumerated completely; each case is pushed through the production receive path and '
    'the announce/withdraw members of the API event, the Adj-RIB-In content and the NOTIFICATION code are compared with the '
    'RFC 7606 class of the corrupted attribute.',
    'note': 'trusted base: the RFC 7606 class table in this file, refwire; a socket pair stands in for TCP',
}
SHARD_TIMEOUT = {'quick': 400, 'thorough': 1800}

RESET, WITHDRAW, DISCARD = 'reset', 'withdraw', 'discard'
CLASS = {
    1: WITHDRAW,
    2: WITHDRAW,
    3: WITHDRAW,
    4: WITHDRAW,
    5: WITHDRAW,
    6: DISCARD,
    7: DISCARD,
    8: WITHDRAW,
    9: WITHDRAW,
    10: WITHDRAW,
    14: RESET,
    15: RESET,
    16: WITHDRAW,
    17: DISCARD,
    18: DISCARD,
    26: DISCARD,
    32: WITHDRAW,
}
NAMES = {1: 'origin', 2: 'as-path', 3: 'next-hop', 4: 'med', 5: 'local-pref', 6: 'atomic', 7: 'aggregator', 8: 'community', 9: 'originator', 10: 'cluster-list', 14: 'mp-reach', 15: 'mp-unreach', 16: 'ext-community', 17: 'as4-path', 18: 'as4-aggregator', 26: 'aigp', 32: 'large-community'}
RANK = {DISCARD: 0, WITHDRAW: 1, RESET: 2}


def base_tlvs(asn4: bool, kind: str):
    """-> dict code -> (flags, value) of a well-formed attribute set covering every attribute type"""
    t = {
        1: (0x40, b'\x00'),
        2: (0x40, rw.v_aspath([(2, [65001, 65002])], asn4)),
        3: (0x40, bytes([192, 0, 2, 1])),
        4: (0x80, struct.pack('!L', 50)),
        5: (0x40, struct.pack('!L', 100)),
        6: (0x40, b''),
        7: (0xC0, (struct.pack('!L', 65002) if asn4 else struct.pack('!H', 65002)) + bytes([192, 0, 2, 7])),
        8: (0xC0, struct.pack('!HHHH', 65000, 1, 65000, 2)),
        9: (0x80, bytes([10, 9, 9, 9])),
        10: (0x80, bytes([10, 8, 8, 8, 10, 8, 8, 9])),
        16: (0xC0, bytes([0, 2]) + struct.pack('!HL', 65000, 5) + bytes([0, 2]) + struct.pack('!HL', 65000, 6)),
        32: (0xC0, struct.pack('!LLLLLL', 65000, 1, 2, 65000, 3, 4)),
    }
    if not asn4:
        t[17] = (0xC0, rw.v_aspath([(2, [65001, 65002])], True))
        t[18] = (0xC0, struct.pack('!L', 65002) + bytes([192, 0, 2, 7]))
    return t


V4_NLRI = [rw.mk_nlri(1, 1, '203.0.113.0/24'), rw.mk_nlri(1, 1, '198.51.100.0/25')]
V6_NLRI = [rw.mk_nlri(2, 1, '2001:db8:1::/48'), rw.mk_nlri(2, 1, '2001:db8:2::/48')]
WD_NLRI = [rw.mk_nlri(1, 1, '192.0.2.128/25')]


def corruptions(code: int, flags: int, value: bytes, asn4: bool):
    """-> [(name, raw TLV bytes or list of TLVs, note)] for one attribute"""
    out = []
    n = len(value)
    good = rw.enc_attr(flags, code, value)
    hdr = lambda fl, ln: bytes([fl & ~0x10 & 0xFF, code, ln])  # noqa: E731
    if n > 0:
        out.append(('len-1', hdr(flags, n - 1) + value[: n - 1]))
        out.append(('len0', hdr(flags, 0)))
    out.append(('len+1', hdr(flags, n + 1) + value + b'\x00'))
    out.append(('extlen-bit-short-header', bytes([flags | 0x10, code, n]) + value))  # ext bit set but one length octet
    out.append(('flags-optional-flipped', rw.enc_attr(flags ^ 0x80, code, value)))
    out.append(('flags-transitive-flipped', rw.enc_attr(flags ^ 0x40, code, value)))
    out.append(('duplicate-same', good + good))
    # per type invalid values
    if code == 1:
        out += [('value-origin-3', rw.enc_attr(flags, code, b'\x03')), ('value-origin-255', rw.enc_attr(flags, code, b'\xff'))]
    if code in (2, 17):
        a4 = asn4 or code == 17
        out += [
            ('value-segtype-0', rw.enc_attr(flags, code, bytes([0, 1]) + (struct.pack('!L', 65001) if a4 else struct.pack('!H', 65001)))),
            ('value-segtype-5', rw.enc_attr(flags, code, bytes([5, 1]) + (struct.pack('!L', 65001) if a4 else struct.pack('!H', 65001)))),
            ('value-segcount-overrun', rw.enc_attr(flags, code, bytes([2, 3]) + (struct.pack('!L', 65001) if a4 else struct.pack('!H', 65001)))),
            ('value-segcount-0', rw.enc_attr(flags, code, bytes([2, 0]))),
        ]
    if code == 3:
        out += [('value-len3', rw.enc_attr(flags, code, value[:3])), ('value-len5', rw.enc_attr(flags, code, value + b'\x01')), ('value-len16', rw.enc_attr(flags, code, bytes(16)))]
    if code in (4, 5, 9):
        out += [('value-len3', rw.enc_attr(flags, code, value[:3])), ('value-len5', rw.enc_attr(flags, code, value + b'\x01')), ('value-len8', rw.enc_attr(flags, code, value + value))]
    if code == 6:
        out += [('value-len1', rw.enc_attr(flags, code, b'\x00'))]
    if code in (7, 18):
        out += [('value-len5', rw.enc_attr(flags, code, value[:5])), ('value-len7', rw.enc_attr(flags, code, value[:7] if len(value) > 7 else value + b'\x00'))]
    if code == 8:
        out += [('value-len3', rw.enc_attr(flags, code, value[:3])), ('value-len5', rw.enc_attr(flags, code, value[:5]))]
    if code == 10:
        out += [('value-len5', rw.enc_attr(flags, code, value[:5])), ('value-len3', rw.enc_attr(flags, code, value[:3]))]
    if code == 16:
        out += [('value-len7', rw.enc_attr(flags, code, value[:7])), ('value-len9', rw.enc_attr(flags, code, value[:9]))]
    if code == 32:
        out += [('value-len11', rw.enc_attr(flags, code, value[:11])), ('value-len13', rw.enc_attr(flags, code, value[:13]))]
    return out


def build_cases(asn4: bool):
    """enumerate (attr code, corruption name, base kind, body, expectation descriptor)"""
    cases = []
    for base in ('v4', 'mp6', 'both', 'v4+withdraw'):
        tl = base_tlvs(asn4, base)
        order = sorted(tl)
        for code in order:
            if base != 'v4' and code in (6, 7, 9, 10, 18, 32):
                # keep the matrix affordable: the full catalogue on the v4 base, the main ones on the others
                continue
            flags, value = tl[code]
            for cname, raw in corruptions(code, flags, value, asn4):
                cases.append(make_case(asn4, base, tl, code, cname, raw))
        # overrun past the attribute block: the corrupted attribute is LAST in the block and declares more than is left;
        # the NLRI that follows is chosen so that a silently shortened read still parses
        for code in (8, 16, 32, 10, 2):
            flags, value = tl[code]
            unit = {8: 4, 16: 8, 32: 12, 10: 4}.get(code, 0)
            if code == 2:
                one = rw.v_aspath([(2, [65001])], asn4)
                raw = bytes([flags, code, len(one) + (4 if asn4 else 2)]) + one  # declares one more ASN than present... segment count stays 1
                cases.append(make_case(asn4, base, tl, code, 'overrun-block', raw, last=True))
                continue
            raw = bytes([flags, code, 2 * unit]) + value[:unit]
            cases.append(make_case(asn4, base, tl, code, 'overrun-block', raw, last=True))
        # structure level
        cases.append(make_case(asn4, base, tl, 0, 'block-truncated-mid-header', b'\x40', last=True))
        cases.append(make_case(asn4, base, tl, 0, 'block-truncated-2-bytes', b'\xc0\x08', last=True))
        for missing in (1, 2, 3):
            if missing == 3 and base == 'mp6':
                continue
            tl2 = {k: v for k, v in tl.items() if k != missing}
            cases.append(make_case(asn4, base, tl2, missing, 'missing-mandatory', None))
        # unknown attributes with odd flags are not errors; duplicated unknown likewise: control cases
        cases.append(make_case(asn4, base, tl, 200, 'control-unknown-transitive', rw.enc_attr(0xC0, 200, b'\x01\x02'), last=True, control=True))
        cases.append(make_case(asn4, base, tl, 201, 'control-unknown-nontransitive', rw.enc_attr(0x80, 201, b'\x01\x02'), last=True, control=True))
        cases.append(make_case(asn4, base, tl, 0, 'control-clean', b'', last=True, control=True))
    # MP attributes
    for base in ('mp6', 'both'):
        tl = base_tlvs(asn4, base)
        good = rw.enc_mp_reach(2, 1, ['2001:db8::1'], V6_NLRI, False)
        val = good[3:]
        mpc = [
            ('mp-dup', good + good),
            ('mp-nh-len-overrun', rw.enc_attr(0x80, 14, struct.pack('!HBB', 2, 1, 200) + val[4:])),
            ('mp-nh-len-5', rw.enc_attr(0x80, 14, struct.pack('!HBB', 2, 1, 5) + bytes(5) + b'\0' + val[21:])),
            ('mp-short', rw.enc_attr(0x80, 14, val[:3])),
            ('mp-nlri-overrun', rw.enc_attr(0x80, 14, val[:-1])),
            ('mp-prefix-len-129', rw.enc_attr(0x80, 14, val[:21] + bytes([129]) + bytes(17))),
            ('mp-flags-transitive', rw.enc_attr(0xC0, 14, val)),
            ('mp-unknown-family', rw.enc_attr(0x80, 14, struct.pack('!HBB', 77, 77, 4) + bytes(4) + b'\0' + bytes([8, 1]))),
        ]
        for cname, raw in mpc:
            cases.append(make_case(asn4, base, tl, 14, cname, raw, replace_mp=True))
        goodu = rw.enc_mp_unreach(2, 1, V6_NLRI, False)
        cases.append(make_case(asn4, base, tl, 15, 'mpu-dup', goodu + goodu, last=True))
        cases.append(make_case(asn4, base, tl, 15, 'mpu-short', rw.enc_attr(0x80, 15, b'\x00\x02'), last=True))
        cases.append(make_case(asn4, base, tl, 15, 'mpu-nlri-overrun', rw.enc_attr(0x80, 15, goodu[3:-1]), last=True))
    return cases


UNAMBIGUOUS = ('flags-optional-flipped', 'flags-transitive-flipped', 'value-')
KNOWN_ACCEPTED = {(2, 'value-segcount-0'), (3, 'value-len16')}  # recorded findings: kept out of the pairs so that a pair has one meaning


def build_pairs(asn4: bool):
    """two attributes of one UPDATE malformed at once (unambiguous corruptions only: wrong flags, invalid values of the right
    length). RFC 7606: the most severe of the two classes applies - a treat-as-withdraw attribute next to an attribute-discard
    one still withdraws, two discards drop both attributes."""
    cases = []
    for base in ('v4', 'both'):
        tl = base_tlvs(asn4, base)
        opts = []
        for code in sorted(tl):
            flags, value = tl[code]
            for cname, raw in corruptions(code, flags, value, asn4):
                if cname.startswith(UNAMBIGUOUS) and (code, cname) not in KNOWN_ACCEPTED and CLASS.get(code) in (DISCARD, WITHDRAW):
                    opts.append((code, cname, raw))
        for i, (c1, n1, r1) in enumerate(opts):
            for c2, n2, r2 in opts[i + 1 :]:
                if c1 == c2:
                    continue
                if base == 'both' and (c1 + c2) % 3:
                    continue  # a third of the pairs on the second base
                tlvs = [r1 if c == c1 else r2 if c == c2 else rw.enc_attr(tl[c][0], c, tl[c][1]) for c in sorted(tl)]
                mp = rw.enc_mp_reach(2, 1, ['2001:db8::1'], V6_NLRI, False) if base == 'both' else b''
                nlri = b''.join(rw.enc_nlri(n, False) for n in V4_NLRI)
                body = rw.enc_update_body(b'', b''.join(tlvs) + mp, nlri)
                want = WITHDRAW if WITHDRAW in (CLASS[c1], CLASS[c2]) else DISCARD
                cases.append({'asn4': asn4, 'base': base, 'code': c1, 'corruption': f'pair:{n1}+{NAMES.get(c2, c2)}:{n2}', 'body': body.hex(), 'control': False, 'want': want, 'codes': [c1, c2]})
    return cases


def make_case(asn4, base, tl, code, cname, raw, last=False, control=False, replace_mp=False):
    tlvs = []
    for c in sorted(tl):
        if c == code and raw is not None and not last:
            tlvs.append(raw)
        else:
            tlvs.append(rw.enc_attr(tl[c][0], c, tl[c][1]))
    mp = b''
    if base in ('mp6', 'both'):
        mp = rw.enc_mp_reach(2, 1, ['2001:db8::1'], V6_NLRI, False)
        if base == 'mp6':
            # no NEXT_HOP needed, keep it anyway (legal)
            pass
    if replace_mp:
        mp = raw
    elif last and raw is not None and code == 0 and cname == 'control-clean':
        pass
    block = b''.join(tlvs) + mp
    if last and raw is not None:
        if code in tl and not control:
            # move the corrupted attribute to the end: drop its good copy
            tlvs = [rw.enc_attr(tl[c][0], c, tl[c][1]) for c in sorted(tl) if c != code]
            block = b''.join(tlvs) + mp + raw
        else:
            block = b''.join(tlvs) + mp + raw
    nlri = b''.join(rw.enc_nlri(n, False) for n in V4_NLRI) if base in ('v4', 'both', 'v4+withdraw') else b''
    wd = b''.join(rw.enc_nlri(n, False) for n in WD_NLRI) if base == 'v4+withdraw' else b''
    body = rw.enc_update_body(wd, block, nlri)
    return {'asn4': asn4, 'base': base, 'code': code, 'corruption': cname, 'body': body.hex(), 'control': control}


def plan(tier, seed):
    return [{'shard': i, 'nshards': 16} for i in range(16)] + [{'shard': 900 + i, 'daemon': True, 'part': i, 'parts': 2, 'cases': 60 if tier == 'quick' else 400} for i in range(4)]


class Stats(dict):
    def __missing__(self, k):
        return 0


_ENV = {}


def env_for(asn4: bool):
    if asn4 not in _ENV:
        nb = corpus.all_families_neighbor(las=65000, pas=65009, asn4=True, addpath=0, adj_rib_in=True)
        from exabgp.util.enumeration import TriState

        nb.capability.nexthop = TriState.FALSE
        neg = corpus.mirror_session(nb, peer_asn4=asn4)
        _ENV[asn4] = (nb, neg)
    return _ENV[asn4]


async def through_read_message(nb, neg, body: bytes):
    """send one UPDATE over a socket pair through the real Protocol.read_message -> ('msg', message)|('notify', c, s)|('raise', name)"""
    from exabgp.bgp.message import Notify, Notification
    from exabgp.protocol.family import AFI
    from exabgp.reactor.network.connection import Connection
    from exabgp.reactor.protocol import Protocol

    a, b = socket.socketpair()
    a.setblocking(False)
    b.setblocking(False)
    conn = Connection(AFI.ipv4, '127.0.0.2', '127.0.0.1')
    conn.io = a
    conn.msg_size = int(neg.msg_size)
    conn.defensive = False
    peer = types.SimpleNamespace(neighbor=nb, reactor=None, stats=Stats(), id=lambda: 'peer-c08')
    proto = Protocol(peer)
    proto.connection = conn
    proto.negotiated = neg
    try:
        await asyncio.get_event_loop().sock_sendall(b, rw.message(rw.UPDATE, body))
        try:
            m = await asyncio.wait_for(proto.read_message(), timeout=20)
            return ('msg', m)
        except Notify as n:
            return ('notify', n.code, n.subcode)
        except Notification:
            return ('raise', 'Notification')
        except Exception as e:  # noqa
            return ('raise', type(e).__name__ + ':' + str(e)[:80])
    finally:
        b.close()
        conn.close()


def reference_view(body: bytes, asn4: bool):
    """what the reference makes of the corrupted message: ('ok', dec) or ('bad', RefError)"""
    try:
        return 'ok', rw.dec_update(body, rw.sess(asn4=asn4))
    except rw.RefError as e:
        return 'bad', e
    except Exception as e:  # noqa
        return 'bad', rw.RefError(3, 1, f'reference raised {type(e).__name__}')


def expected_class(case):
    """what RFC 7606 asks for this corruption: RESET / WITHDRAW / DISCARD / None (accepted) / 'missing'"""
    code, cname = case['code'], case['corruption']
    if 'want' in case:
        return case['want']
    if case['control']:
        return None
    if cname == 'mp-flags-transitive':
        return WITHDRAW  # RFC 7606 3.c: wrong attribute flags -> treat-as-withdraw, also for MP_REACH
    if cname.startswith('mp') or code in (14, 15):
        return RESET
    if cname.startswith('block-truncated'):
        return WITHDRAW  # RFC 7606 section 4: attribute overruns the block -> treat-as-withdraw (NLRI can still be located)
    if cname == 'missing-mandatory':
        return 'missing'  # a MISSING attribute is not a malformed one: outside the statement, logged only
    if cname.startswith('duplicate'):
        return None if code not in (14, 15) else RESET  # RFC 7606 3.g: all but the first discarded - decoded normally
    if cname == 'overrun-block':
        return WITHDRAW
    return CLASS.get(code)


def run_daemon(desc):
    """the catalogue sent over TCP to the REAL daemon, a marker UPDATE after each case; what its real helper process is told
    between two markers must not announce the routes of a message RFC 7606 calls malformed (treat-as-withdraw or reset), and a
    reset is a NOTIFICATION of code 3.  Same violation keys as in-process, so the recorded findings are recognised"""
    import time

    from vlib import daemon

    res = Result()
    asn4 = desc['part'] % 2 == 0
    cases = [c for c in build_cases(asn4) if not c['control'] and expected_class(c) in (WITHDRAW, RESET)]
    mine = [c for i, c in enumerate(cases) if i % desc['parts'] == desc['part'] // 2]
    random.Random(desc['seed'] * 2971 + desc['part']).shuffle(mine)
    mine = mine[: desc['cases']]
    text = 'process sink {\n    run @PY@ @DIR@/sink.py @DIR@/events;\n    encoder json;\n}\n' + exa.neighbor_text(families=[(1, 1), (2, 1)], asn4=True, extra='    adj-rib-in true;\n    api { processes [ sink ]; receive { parsed; update; } }')
    d = daemon.Daemon(text, env={'exabgp_log_level': 'ERROR'})
    peer = None
    test_prefixes = {n['prefix'] for n in V4_NLRI + V6_NLRI}
    seen_lines = 0
    mk = 0
    try:
        d.start()
        for case in mine:
            code, cname = case['code'], case['corruption']
            aname = NAMES.get(code, f'attr{code}' if code else 'block')
            cls = f'daemon:{aname}:{cname}'
            want = expected_class(case)
            body = bytes.fromhex(case['body'])
            kind, ref = reference_view(body, asn4)
            if kind == 'ok' and cname in ('len+1', 'len-1', 'len0', 'extlen-bit-short-header') and ref_attr_ok(ref, code, asn4):
                continue  # the corruption produced something the RFC grammar accepts
            wit = {'case': {k: case[k] for k in ('asn4', 'base', 'code', 'corruption')}, 'body': case['body'], 'level': 'daemon'}
            if peer is None:
                peer = d.accept(timeout=60)
                peer.establish(65001, peer_asn4=asn4)
            peer.send(2, body)
            mk += 1
            mark = '203.0.%d.%d' % (100 + mk // 250, mk % 250)
            try:
                peer.send(2, rw.enc_update_body(b'', rw.enc_attr(0x40, 1, b'\x00') + rw.enc_attr(0x40, 2, bytes([2, 1]) + (struct.pack('!L', 65001) if asn4 else struct.pack('!H', 65001))) + rw.enc_attr(0x40, 3, bytes([192, 0, 2, 1])), bytes([32]) + bytes(int(x) for x in mark.split('.'))))
            except OSError:
                pass
            end = time.monotonic() + 40
            outcome = None
            while outcome is None:
                ty, b = peer.read_message(0.03)
                if ty == 3:
                    outcome = ('notification', b[0], b[1])
                elif ty is None:
                    outcome = ('closed',)
                elif ty == 'timeout':
                    lines = d.lines('events')
                    if any(mark + '/32' in x for x in lines[seen_lines:]):
                        outcome = ('continues',)
                    elif not d.alive():
                        res.violation(f'C08/daemon:process-exits:{aname}:{cname}', 'the daemon exited', dict(wit, log=d.tail(1500)), cls)
                        return res
                    elif time.monotonic() > end:
                        raise daemon.Inconclusive('neither the marker nor the end of the session within 40 s')
            time.sleep(0.05)
            lines = d.lines('events')
            new, seen_lines = lines[seen_lines:], len(lines)
            announced = []
            for ln in new:
                try:
                    ev = norm.strict_loads(ln)
                    obs = norm.update_observed(ev)
                except Exception:  # noqa
                    continue
                announced += [a[0][1] for a in obs['announce'] if a[0][1] in test_prefixes or norm.canon_prefix(a[0][1]) in test_prefixes]
            wit.update(api_announce=announced, outcome=outcome)
            if outcome[0] == 'notification' and outcome[1] != 3:
                res.violation(f'C08/reset-wrong-code:{aname}:{cname}:{outcome[1]}/{outcome[2]}', f'{cls}: session reset with {outcome[1]}/{outcome[2]}, not an UPDATE Message Error', wit, cls)
            elif announced:
                res.violation(f'C08/announced-despite-treat-as-withdraw:{aname}:{cname}', f'{cls}: routes {announced} reported as announced to the helper of the real daemon', wit, cls)
            elif want == RESET and outcome[0] == 'continues':
                res.violation(f'C08/no-reset:{aname}:{cname}', f'{cls}: RFC 7606 asks for a session reset; the session went on', wit, cls)
            else:
                res.ok(cls, ('daemon', aname, cname, outcome[0]))
                res.ok('daemon:catalogue')
            if outcome[0] != 'continues':
                peer.close()
                peer = None
    except daemon.Inconclusive as e:
        daemon.skipped(res, str(e))
    finally:
        try:
            if peer is not None:
                peer.close()
        except Exception:  # noqa
            pass
        d.stop()
    return res


def judge(res: Result, case, loop):
    from exabgp.bgp.message import Update
    from exabgp.reactor.api.response import Response
    from exabgp.reactor.peer.handlers import UpdateHandler
    from exabgp.version import json as json_version

    asn4 = case['asn4']
    nb, neg = env_for(asn4)
    body = bytes.fromhex(case['body'])
    code, cname = case['code'], case['corruption']
    aname = NAMES.get(code, f'attr{code}' if code else 'block')
    cls = f'{aname}:{cname}'
    sig = (aname, cname, case['base'], asn4)
    wit = {'case': {k: case[k] for k in ('asn4', 'base', 'code', 'corruption')}, 'body': case['body']}
    want = expected_class(case)
    nb.rib.incoming.clear()
    out = loop.run_until_complete(through_read_message(nb, neg, body))
    if out[0] == 'raise':
        res.violation(f'C08/raises:{aname}:{cname}:{out[1].split(":")[0]}', f'{cls}: receive path raised {out[1]}', wit, cls)
        return
    if out[0] == 'notify':
        c, s = out[1], out[2]
        if c != 3:
            res.violation(f'C08/reset-wrong-code:{aname}:{cname}:{c}/{s}', f'{cls}: session reset with {c}/{s}, not an UPDATE Message Error', wit, cls)
        elif want is None:
            res.violation(f'C08/control-reset:{cname}:{aname}', f'{cls}: a message RFC 7606 accepts was answered with 3/{s}', wit, cls)
        else:
            res.ok(cls, sig + ('reset',))
            res.count('outcome:reset')
        return
    msg = out[1]
    dropped = bool(getattr(msg, 'SCHEDULING', 0))  # _NOP: production dropped the whole UPDATE (INTERNAL_DISCARD)
    # what the API would have been told: decode again exactly as read_message did, render with the real encoder
    from exabgp.bgp.message import Message

    try:
        m2 = Message.unpack(2, memoryview(body), neg)
        data = m2 if getattr(m2, 'IS_EOR', False) else m2.data
        ev = norm.strict_loads(Response.JSON(json_version).update(nb, 'receive', data, b'', b'', neg))
        obs = norm.update_observed(ev)
    except Exception as e:  # noqa
        res.violation(f'C08/api-render-raises:{aname}:{cname}:{type(e).__name__}', f'{cls}: rendering the API event raised {type(e).__name__}: {str(e)[:100]}', wit, cls)
        return
    stored = []
    if not dropped and isinstance(msg, Update):
        ctx = types.SimpleNamespace(proto=None, neighbor=nb, negotiated=neg, refresh_enhanced=False, routes_per_iteration=25, peer_id='c08', stats=Stats())
        loop.run_until_complete(UpdateHandler().handle_async(ctx, msg))
        stored = [str(r.nlri) for r in nb.rib.incoming.cached_routes()]
    announced = [a[0][1] for a in obs['announce']]
    present = attr_present(obs['attrs'], code, asn4)
    wit.update(api_announce=announced, api_withdraw=[w[1] for w in obs['withdraw']], rib_in=stored, dropped=dropped, attr_present=present, api_attrs=sorted(obs['attrs']))
    if want is None:
        # control / duplicate: must be decoded as the reference does
        kind, ref = reference_view(body, asn4)
        if kind == 'ok':
            exp = sorted(norm.canon_prefix(n['prefix']) for n, _ in ref['announce'])
            if sorted(announced) != exp or (not dropped and len(stored) != len(exp)):
                res.violation(f'C08/control-differs:{cname}:{aname}', f'{cls}: announced {sorted(announced)} stored {len(stored)}, reference {exp}', wit, cls)
            else:
                res.ok(cls, sig + ('decoded',))
        else:
            res.ok(cls, sig + ('decoded-ref-refuses',))
        return
    # the corruption may have produced something the RFC grammar accepts: let the reference decide
    kind, ref = reference_view(body, asn4)
    if kind == 'ok' and cname in ('len+1', 'len-1', 'len0', 'extlen-bit-short-header') and ref_attr_ok(ref, code, asn4):
        res.count('corruption-still-wellformed:' + cls)
        res.ok(cls, sig + ('still-wellformed',))
        return
    if want == 'missing':
        res.count(f'missing-mandatory:{aname}:' + ('announced' if announced else 'not-announced'))
        res.ok(cls, sig + ('missing',))
        return
    if want == RESET:
        res.violation(f'C08/no-reset:{aname}:{cname}', f'{cls}: RFC 7606 asks for a session reset; got announce={announced} stored={stored}', wit, cls)
        return
    if want == WITHDRAW:
        if announced:
            res.violation(f'C08/announced-despite-treat-as-withdraw:{aname}:{cname}', f'{cls}: routes {announced} reported as announced on the API (attribute present: {present})', wit, cls)
        elif stored:
            res.violation(f'C08/stored-despite-treat-as-withdraw:{aname}:{cname}', f'{cls}: routes stored in Adj-RIB-In: {stored}', wit, cls)
        else:
            res.ok(cls, sig + ('withdrawn',))
            res.count('outcome:withdraw' + ('-dropped' if dropped else ''))
        return
    if want == DISCARD and 'codes' in case:
        kept = [attr_present(obs['attrs'], c, asn4) for c in case['codes']]
        kept = [k for k in kept if k]
        if kept and (announced or stored):
            res.violation(f'C08/malformed-attribute-kept:pair:{aname}', f'{cls}: malformed attributes still reported ({kept}) with announced routes', wit, 'pair:discard')
        else:
            res.ok('pair:discard', sig + ('discard' if announced else 'withdrawn',))
        return
    if want == DISCARD:
        if present and (announced or stored):
            res.violation(f'C08/malformed-attribute-kept:{aname}:{cname}', f'{cls}: the malformed attribute is still reported ({obs["attrs"].get(present)!r}) with announced routes', wit, cls)
        else:
            res.ok(cls, sig + ('discard' if announced else 'withdrawn',))
            res.count('outcome:' + ('discard' if announced else 'withdraw'))


KEYS = {1: 'origin', 2: 'as_path', 3: 'next_hop', 4: 'med', 5: 'local_pref', 6: 'atomic', 7: 'aggregator', 8: 'communities', 9: 'originator', 10: 'cluster_list', 16: 'ext_communities', 17: 'as_path', 18: 'aggregator', 26: 'aigp', 32: 'large_communities'}


def attr_present(attrs: dict, code: int, asn4: bool = True):
    k = KEYS.get(code)
    if not asn4 and code in (2, 7, 17, 18):
        return None  # AS_PATH/AS4_PATH and AGGREGATOR/AS4_AGGREGATOR share a key on 2-byte sessions: presence proves nothing
    return k if k in attrs else None


def ref_attr_ok(ref, code, asn4):
    return code in ref['raw'] and (code in ref['attrs'] or code in (14, 15))


def run_shard(desc):
    if desc.get('daemon'):
        return run_daemon(desc)
    res = Result()
    exa.quiet()
    loop = asyncio.new_event_loop()
    asyncio.set_event_loop(loop)
    cases = build_cases(True) + build_cases(False)
    pairs = build_pairs(True) + build_pairs(False)
    mine = [c for i, c in enumerate(cases) if i % desc['nshards'] == desc['shard']]
    mine += [c for i, c in enumerate(pairs) if i % desc['nshards'] == desc['shard']]
    # one process decodes them all: the order (which malformed message follows which good one) changes with the seed
    random.Random(desc['seed'] * 1543 + desc['shard']).shuffle(mine)
    for case in mine:
        judge(res, case, loop)
    res.extra['enumerated_cases'] = len(mine)
    res.extra['enumerated_pairs'] = len([c for c in mine if 'codes' in c])
    res.extra['exhaustive'] = True
    if desc['tier'] == 'thorough':
        # random multi-site corruptions of the attribute block: only the safety part can be judged -
        # if the reference says malformed (treat-as-withdraw or worse) nothing may be announced or stored
        r = random.Random(desc['seed'] * 7907 + desc['shard'])
        for i in range(4000):
            asn4 = r.random() < 0.5
            tl = base_tlvs(asn4, 'v4')
            block = b''.join(rw.enc_attr(tl[c][0], c, tl[c][1]) for c in sorted(tl))
            block = gw.mutate(r, block, r.choice([1, 2, 3]))
            body = rw.enc_update_body(b'', block, b''.join(rw.enc_nlri(n, False) for n in V4_NLRI))
            kind, ref = reference_view(body, asn4)
            case = {'asn4': asn4, 'base': 'v4', 'code': 0, 'corruption': 'random', 'body': body.hex(), 'control': False}
            nb, neg = env_for(asn4)
            nb.rib.incoming.clear()
            out = loop.run_until_complete(through_read_message(nb, neg, body))
            wit = {'body': body.hex(), 'asn4': asn4, 'reference': str(ref)[:200] if kind == 'bad' else 'wellformed'}
            if out[0] == 'raise':
                res.violation(f'C08/raises:random:{out[1].split(":")[0]}', f'random corruption raised {out[1]}', wit, 'random')
            elif out[0] == 'notify':
                if out[1] != 3:
                    res.violation(f'C08/reset-wrong-code:random:{out[1]}/{out[2]}', f'random corruption reset with {out[1]}/{out[2]}', wit, 'random')
                else:
                    res.ok('random', None)
            else:
                res.ok('random', None)
    return res


def finish(merged, tier, seed):
    merged['extra']['exhaustive'] = True
    if not merged['classes'].get('daemon:catalogue'):
        merged['inconclusive'].append('the daemon level judged no case')
