"""C06 - message framing is independent of how TCP delivers the bytes.

L1: real Connection.reader_async() and its generator twin reader() on one end of a socket pair, a
    writer delivering the stream according to a segmentation schedule.
L2: real Protocol.read_message() (and the asyncio.wait_for(...) wrapper Peer._main uses) on the same.
Oracle: refwire.frame(stream, max) - successive complete messages, first faulty header -> 1/1, 1/2, 1/3,
nothing after it delivered (a canary KEEPALIVE/UPDATE follows every faulty header).
"""

from __future__ import annotations

import asyncio
import itertools
import random
import socket
import struct
import types

from vlib import exa
from vlib import refwire as rw
from vlib.mon import Result

PROPERTY = 'C06'
LEVEL = 'exploration'
RULE = (
    'streams of 1-6 valid messages (all types; body sizes 0,1,typical,max) optionally ended by one faulty header '
    'from a catalogue (marker wrong at each position, lengths 0/18/19-with-body-type/max+1/65535, per-type bound +-1, '
    'unknown types) followed by a canary; segmentation schedules: every single cut and every pair of cuts of short '
    'streams (enumerated), all-1-byte, cuts at header/body boundaries +-1, random cut sets; both maxima (4096, 65535); '
    'three observation levels (reader_async, reader generator, Protocol.read_message). distinct = distinct '
    '(stream kind, fault kind, schedule class, max, level) signatures plus distinct observed recv-size sequences'
)
ASSUMPTIONS = [
    'a socket pair stands in for TCP; segment boundaries are produced by the writer waiting until the reader drained the socket',
    'OPERATIONAL (type 6) is a message type ExaBGP implements, so it is not treated as unknown',
    'RFC 8654 4096 cap on OPEN/KEEPALIVE after extended-message negotiation is not demanded (statement does not state it)',
]
MANIFEST = {
    'level': 'exploration',
    'technique': 'runtime differential monitor on real socket reads: framing of the real reader under enumerated/random TCP segmentations vs independent reference framer; the UPDATE stream cut into arbitrary TCP segments with real pauses and sent to the real exabgp process, judged on the JSON events of its real helper process',
    'text': 'Enumerates all 1- and 2-cut segmentations of short streams and samples longer ones; every tuple the real reader '
    'returns and every Notify Protocol.read_message raises is compared with the reference framing. Exhaustive only for the '
    'enumerated cut space of the short streams; exploration otherwise.',
    'note': 'trusted base: refwire.frame/header_fault; socket pair instead of a network path; L3 (virtual delays on a live session) is in the lab-based part',
}
SHARD_TIMEOUT = {'quick': 400, 'thorough': 1800}

CANARY = rw.message(rw.UPDATE, bytes.fromhex('0000000740010100') + b'\xca\xfe\xca')[:-3]  # placeholder, replaced below


def _canary():
    # a recognisable, well-formed KEEPALIVE + UPDATE that must never be delivered after a faulty header
    upd = rw.enc_update(b'', rw.enc_attr(0x40, 1, b'\x00'), bytes([32, 0xCA, 0xFE, 0xCA, 0xFE]))
    return rw.keepalive() + upd


CANARY = _canary()


def valid_message(r: random.Random, maxsize: int) -> tuple[str, bytes]:
    kind = r.choice(['keepalive', 'update', 'update-big', 'open', 'notification', 'refresh', 'update-max', 'update-eor'])
    if kind == 'keepalive':
        return kind, rw.keepalive()
    if kind == 'update-eor':
        return kind, rw.message(rw.UPDATE, b'\0\0\0\0')
    if kind == 'update':
        n = r.randrange(1, 6)
        nl = b''.join(bytes([24, 10, r.randrange(256), r.randrange(256)]) for _ in range(n))
        return kind, rw.enc_update(b'', rw.enc_attr(0x40, 1, b'\0') + rw.enc_attr(0x40, 2, b'') + rw.enc_attr(0x40, 3, bytes([10, 0, 0, 1])), nl)
    if kind in ('update-big', 'update-max'):
        room = (maxsize if kind == 'update-max' else r.choice([200, 1000, 4096 - 1, min(maxsize, 9000)])) - 19 - 4
        attrs = rw.enc_attr(0x40, 1, b'\0') + rw.enc_attr(0x40, 2, b'') + rw.enc_attr(0x40, 3, bytes([10, 0, 0, 1]))
        room -= len(attrs)
        n = max(0, room // 4)
        nl = b''.join(bytes([24, 10, (i >> 8) & 255, i & 255]) for i in range(n))
        pad = room - len(nl)
        # fill the remainder with /0../8 prefixes of 1 or 2 bytes
        while pad >= 2:
            nl += bytes([8, 11])
            pad -= 2
        if pad == 1:
            nl += bytes([0])
        return kind, rw.enc_update(b'', attrs, nl)
    if kind == 'open':
        return kind, rw.enc_open(65000, 90, '10.0.0.2', [rw.cap_mp(1, 1), rw.cap_asn4(65000)])
    if kind == 'notification':
        return kind, rw.notification(6, 2, bytes(r.randrange(256) for _ in range(r.choice([0, 1, 30]))))
    if kind == 'refresh':
        return kind, rw.message(rw.ROUTE_REFRESH, struct.pack('!HBB', 1, 0, 1))
    return kind, rw.message(rw.OPERATIONAL, struct.pack('!HH', 1, 4) + b'\0\1\1\0')


def faulty_header(r: random.Random, maxsize: int) -> tuple[str, bytes]:
    """-> (fault kind, bytes to append: the faulty header (+ some body))"""
    kind = r.choice(
        ['marker', 'marker', 'len0', 'len18', 'len19-update', 'len19-open', 'len-max+1', 'len-65535', 'bound-open-28', 'bound-update-22', 'bound-notif-20', 'bound-ka-20', 'bound-rr-22', 'bound-rr-24', 'type0', 'type7', 'type-mid', 'type255']
    )
    if kind == 'marker':
        pos = r.randrange(16)
        m = bytearray(rw.MARKER)
        m[pos] = r.choice([0, 0xFE, 0x7F])
        return f'marker@{pos}', bytes(m) + struct.pack('!HB', 19, 4)
    mk = lambda length, t, extra=b'': rw.MARKER + struct.pack('!HB', length, t) + extra  # noqa: E731
    table = {
        'len0': mk(0, 4),
        'len18': mk(18, 4),
        'len19-update': mk(19, 2),
        'len19-open': mk(19, 1),
        'len-max+1': mk(maxsize + 1, 2) if maxsize < 65535 else mk(65535, 4),
        'len-65535': mk(65535, 2) if maxsize < 65535 else mk(65535, 5),
        'bound-open-28': mk(28, 1, b'\4' * 9),
        'bound-update-22': mk(22, 2, b'\0' * 3),
        'bound-notif-20': mk(20, 3, b'\6'),
        'bound-ka-20': mk(20, 4, b'\0'),
        'bound-rr-22': mk(22, 5, b'\0\1\0'),
        'bound-rr-24': mk(24, 5, b'\0\1\0\1\0'),
        'type0': mk(19, 0),
        'type7': mk(23, 7, b'\0' * 4),
        'type-mid': mk(19 + 3, r.randrange(8, 250), b'abc'),
        'type255': mk(19, 255),
    }
    if kind == 'len-max+1' and maxsize == 65535:
        kind = 'len-65535-ka'
    if kind == 'len-65535' and maxsize == 65535:
        kind = 'len-65535-rr'
    return kind, table.get(kind.replace('-ka', '').replace('-rr', ''), table.get(kind)) or table['len0']


def gen_stream(r: random.Random, maxsize: int, short: bool):
    n = r.randrange(1, 3 if short else 7)
    parts, kinds = [], []
    for _ in range(n):
        k, m = valid_message(r, maxsize)
        if short and len(m) > 60:
            k, m = 'keepalive', rw.keepalive()
        kinds.append(k)
        parts.append(m)
    fault = None
    if r.random() < 0.6:
        fault, hdr = faulty_header(r, maxsize)
        parts.append(hdr + CANARY)
    return b''.join(parts), kinds, fault


def schedules_exhaustive(n: int):
    """every single cut and every pair of cuts of an n byte stream, plus no cut and all-1-byte"""
    yield ('none', ())
    for a in range(1, n):
        yield ('cut1', (a,))
    for a, b in itertools.combinations(range(1, n), 2):
        yield ('cut2', (a, b))
    yield ('bytes', tuple(range(1, n)))


def schedules_random(r: random.Random, stream: bytes, count: int):
    n = len(stream)
    bounds = []
    pos = 0
    while n - pos >= 19:
        ln = struct.unpack('!H', stream[pos + 16 : pos + 18])[0]
        bounds += [pos + 16, pos + 18, pos + 19]
        if ln < 19 or pos + ln > n:
            break
        pos += ln
        bounds.append(pos)
    for i in range(count):
        mode = i % 5
        if mode == 0:
            yield ('none', ())
        elif mode == 1 and n <= 3000:
            yield ('bytes', tuple(range(1, n)))
        elif mode == 2 and bounds:
            cuts = sorted({min(n - 1, max(1, b + r.choice([-1, 0, 1]))) for b in r.sample(bounds, min(len(bounds), r.randrange(1, 5)))})
            yield ('boundary', tuple(cuts))
        else:
            k = r.randrange(1, 12)
            yield ('random', tuple(sorted({r.randrange(1, n) for _ in range(k)})) if n > 1 else ())


def segments(stream: bytes, cuts):
    prev = 0
    for c in cuts:
        yield stream[prev:c]
        prev = c
    yield stream[prev:]


class TapSocket(socket.socket):
    """records the size of every successful recv_into: the segmentation the reader really saw"""

    sizes: list

    def recv_into(self, *a, **k):
        n = socket.socket.recv_into(self, *a, **k)
        self.sizes.append(n)
        return n


def make_pair():
    a, b = socket.socketpair()
    tap = TapSocket(fileno=a.detach())
    tap.sizes = []
    tap.setblocking(False)
    b.setblocking(False)
    b.setsockopt(socket.SOL_SOCKET, socket.SO_SNDBUF, 1 << 20)
    return tap, b


def pending(sock) -> int:
    import fcntl
    import termios

    buf = struct.pack('i', 0)
    return struct.unpack('i', fcntl.ioctl(sock.fileno(), termios.FIONREAD, buf))[0]


def expected(stream: bytes, maxsize: int, level: str = 'L2'):
    # the type is not the reader's business (L1): unknown types become a fault where the protocol layer takes the message (L2)
    known = tuple(range(256)) if level.startswith('L1') else (1, 2, 3, 4, 5, 6)
    msgs, fault, rest = rw.frame(stream, maxsize, known_types=known)
    return msgs, fault


def new_connection(maxsize: int, tap):
    from exabgp.protocol.family import AFI
    from exabgp.reactor.network.connection import Connection

    conn = Connection(AFI.ipv4, '127.0.0.2', '127.0.0.1')
    conn.io = tap
    conn.msg_size = maxsize
    conn.defensive = False
    return conn


async def drive_async(stream, cuts, maxsize, level, neighbor):
    """-> (observed list, sizes) ; observed items ('msg', type, body) | ('fault', code, sub) | ('eof',) | ('raise', name)"""
    tap, wr = make_pair()
    conn = new_connection(maxsize, tap)
    obs = []
    done = asyncio.Event()
    proto = None
    if level in ('L2', 'L2w'):
        proto = make_protocol(neighbor, conn, maxsize)

    async def consume():
        from exabgp.bgp.message import Notify, Notification
        from exabgp.reactor.network.error import NetworkError

        try:
            while True:
                if level == 'L1':
                    length, mid, header, body, err = await conn.reader_async()
                    if err is not None:
                        obs.append(('fault', err.code, err.subcode))
                        return
                    obs.append(('msg', mid, bytes(body)))
                else:
                    try:
                        if level == 'L2w':
                            m = await asyncio.wait_for(proto.read_message(), timeout=30)
                        else:
                            m = await proto.read_message()
                    except Notify as n:  # Notify subclasses Notification: must be tested first
                        obs.append(('fault', n.code, n.subcode))
                        return
                    except Notification as n:  # a NOTIFICATION message received (raised as an exception by design)
                        obs.append(('msg', 3, None))
                        continue
                    obs.append(('msg', int(m.ID) if not m.SCHEDULING else 2, None))
        except NetworkError:
            obs.append(('eof',))
        except Exception as e:  # noqa
            obs.append(('raise', type(e).__name__ + ':' + str(e)[:80]))
        finally:
            done.set()

    task = asyncio.ensure_future(consume())
    loop = asyncio.get_event_loop()
    for seg in segments(stream, cuts):
        if done.is_set():
            break
        if seg:
            await loop.sock_sendall(wr, seg)
        for _ in range(200):
            await asyncio.sleep(0)
            if done.is_set() or pending(tap) == 0:
                break
    # let the reader finish what is in the socket, then EOF
    for _ in range(50):
        await asyncio.sleep(0)
        if done.is_set():
            break
    wr.close()
    try:
        await asyncio.wait_for(done.wait(), timeout=20)
    except asyncio.TimeoutError:
        obs.append(('stuck',))
        task.cancel()
    sizes = tuple(tap.sizes)
    conn.close()
    return obs, sizes


def drive_generator(stream, cuts, maxsize):
    """the generator twin Connection.reader()"""
    from exabgp.reactor.network.error import NetworkError

    tap, wr = make_pair()
    conn = new_connection(maxsize, tap)
    obs = []
    segs = list(segments(stream, cuts))
    si = 0
    closed = False
    spins = 0
    try:
        while True:
            gen = conn.reader()
            got = None
            for item in gen:
                length, mid, header, body, err = item
                if err is not None or length:
                    got = item
                    break
                # reader wants more bytes: deliver the next segment once the socket is drained
                if pending(tap) == 0:
                    if si < len(segs):
                        if segs[si]:
                            wr.sendall(segs[si])
                        si += 1
                    elif not closed:
                        wr.close()
                        closed = True
                spins += 1
                if spins > 400000:
                    obs.append(('stuck',))
                    return obs, tuple(tap.sizes)
            if got is None:
                obs.append(('eof',))
                break
            length, mid, header, body, err = got
            if err is not None:
                obs.append(('fault', err.code, err.subcode))
                break
            obs.append(('msg', mid, bytes(body)))
    except NetworkError:
        obs.append(('eof',))
    except Exception as e:  # noqa
        obs.append(('raise', type(e).__name__ + ':' + str(e)[:80]))
    finally:
        if not closed:
            wr.close()
        conn.close()
    return obs, tuple(tap.sizes)


def make_protocol(neighbor, conn, maxsize):
    """real Protocol around a stand-in peer object (only attributes Protocol.read_message touches)"""
    from exabgp.reactor.protocol import Protocol

    peer = types.SimpleNamespace(neighbor=neighbor, reactor=None, stats={}, id=lambda: 'peer-test')

    class Stats(dict):
        def __missing__(self, k):
            return 0

    peer.stats = Stats()
    proto = Protocol(peer)
    proto.connection = conn
    proto.negotiated = neighbor._verif_negotiated
    return proto


_NEIGHBOR = None


def neighbor_for(maxsize):
    """neighbor with adj-rib-in so that UPDATEs are really decoded by read_message"""
    global _NEIGHBOR
    if _NEIGHBOR is None:
        _NEIGHBOR = {}
    if maxsize not in _NEIGHBOR:
        conf = exa.load_config(exa.neighbor_text(families=[(1, 1)], extmsg=True, extra='    adj-rib-in true;'))
        nb = list(conf.neighbors.values())[0]
        caps = [rw.cap_mp(1, 1), rw.cap_asn4(65001), (rw.CAP_REFRESH, b'')]
        if maxsize == 65535:
            caps.append((rw.CAP_EXTMSG, b''))
        neg, _, _ = exa.negotiate(nb, rw.enc_open_body(65001, 90, '10.0.0.2', caps))
        assert neg.msg_size == maxsize, (neg.msg_size, maxsize)
        neg.operational = True
        nb._verif_negotiated = neg
        _NEIGHBOR[maxsize] = nb
    return _NEIGHBOR[maxsize]


def compare(res: Result, level, stream, kinds, fault, sched_kind, cuts, maxsize, obs, sizes):
    msgs, exp_fault = expected(stream, maxsize, level)
    want = [('msg', t, b) for t, b in msgs]
    if exp_fault:
        want.append(('fault',) + exp_fault)
    else:
        want.append(('eof',))
    wit = {
        'level': level,
        'stream': stream.hex() if len(stream) < 6000 else stream[:200].hex() + '...',
        'stream_len': len(stream),
        'kinds': kinds,
        'fault': fault,
        'schedule': sched_kind,
        'cuts': list(cuts)[:40],
        'maxsize': maxsize,
        'observed': [list(o[:2]) + ([o[2].hex()[:40]] if len(o) > 2 and isinstance(o[2], bytes) else list(o[2:])) for o in obs][:12],
        'expected': [list(o[:2]) + ([o[2].hex()[:40]] if len(o) > 2 and isinstance(o[2], bytes) else list(o[2:])) for o in want][:12],
    }
    cls = f'{level}:{fault.split("@")[0] if fault else "clean"}:{sched_kind}:{maxsize}'
    fk = fault.split('@')[0] if fault else 'clean'
    if any(o[0] in ('raise', 'stuck') for o in obs):
        bad = [o for o in obs if o[0] in ('raise', 'stuck')][0]
        res.violation(f'C06/{level}-{bad[0]}:{fk}', f'reader {bad[0]} {bad[1:] if len(bad) > 1 else ""}', wit, cls)
        return
    if level.startswith('L2'):
        o2 = [(o[0], o[1]) if o[0] == 'msg' else o for o in obs]
        w2 = [(o[0], o[1]) if o[0] == 'msg' else o for o in want]
    else:
        o2, w2 = obs, want
    if o2 == w2:
        res.ok(cls, (level, tuple(kinds), fk, sched_kind, maxsize))
        res.extra.setdefault('recv_size_sequences', set()).add(hash(sizes) & 0xFFFFFFFF)
        return
    # classify the disagreement structurally
    i = 0
    while i < min(len(o2), len(w2)) and o2[i] == w2[i]:
        i += 1
    got = o2[i] if i < len(o2) else ('nothing',)
    exp = w2[i] if i < len(w2) else ('nothing',)
    if exp[0] == 'fault' and got[0] == 'fault':
        key = f'C06/{level}-wrong-code:{fk}:got{got[1]}/{got[2]}'
    elif exp[0] == 'fault' and got[0] == 'msg':
        key = f'C06/{level}-faulty-header-accepted:{fk}'
    elif exp[0] == 'msg' and got[0] == 'fault':
        key = f'C06/{level}-valid-refused:{kinds[i] if i < len(kinds) else "?"}:got{got[1]}/{got[2]}'
    elif exp[0] == 'msg' and got[0] == 'msg':
        key = f'C06/{level}-message-differs'
    else:
        key = f'C06/{level}-{exp[0]}-vs-{got[0]}'
    res.violation(key, f'{level}: at item {i} observed {got[:3]!r} expected {exp[:3]!r} (fault={fault}, schedule={sched_kind})', wit, cls)


def plan(tier, seed):
    n = 12 if tier == 'quick' else 40
    shards = [{'shard': i, 'nshards': n, 'streams': 24 if tier == 'quick' else 250, 'short': 3 if tier == 'quick' else 10} for i in range(n)]
    m = 4 if tier == 'quick' else 16
    shards += [{'shard': 1000 + i, 'level3': True, 'cases': 12 if tier == 'quick' else 120} for i in range(m)]
    shards += [{'shard': 2000 + i, 'maxsize': True, 'part': i, 'of': 4} for i in range(4)]
    shards += [{'shard': 3000 + i, 'daemon': True, 'part': i, 'messages': 120 if tier == 'quick' else 600} for i in range(4 if tier == 'quick' else 8)]
    return shards


def run_level3(desc):
    """L3: live ESTABLISHED session in the lab; the remote sends a stream in segments separated by VIRTUAL delays
    around the 0.1 s read timeout of Peer._main; observed: API receive-parsed events and what comes back on the wire"""
    import json as _json

    from vlib import scen

    res = Result()
    r = random.Random(desc['seed'] * 104729 + desc['shard'])
    for ci in range(desc['cases']):
        n = r.randrange(2, 7)
        msgs = [scen.simple_update(1000 * ci % 60000 + i) for i in range(n)]
        ids = [(1000 * ci % 60000 + i) for i in range(n)]
        fault = None
        stream = b''.join(msgs)
        if r.random() < 0.35:
            fault, hdr = faulty_header(r, 4096)
            stream += hdr + CANARY
        # cut positions: inside headers, at boundaries, inside bodies
        ncuts = r.randrange(1, 5)
        cuts = sorted({r.randrange(1, len(stream)) for _ in range(ncuts)})
        delays = [r.choice([0.0, 0.05, 0.09, 0.1, 0.11, 0.15, 0.3, 1.0]) for _ in cuts]
        seg = []
        prev = 0
        for c, d in zip(cuts, delays):
            seg += [stream[prev:c].hex(), d]
            prev = c
        seg += [stream[prev:].hex(), 0]
        cfg = {'hold': 90, 'families': [(1, 1)], 'adjin': True, 'api': True, 'api_receive': True, 'routes': 1}
        steps = [['accept', 20.0], ['establish'], ['wait_quiet', 0.5, 10.0], ['mark', 'inject'], ['sendseg', seg], ['sleep', 1.0], ['ka'], ['sleep', 0.5], ['mark', 'probe-end']]
        case = {'config': cfg, 'steps': steps, 'vtimeout': 120.0, 'wall': 60.0}
        status, rec = scen.run_case(case)
        dclass = 'gap>timeout' if any(d > 0.1 for d in delays) else 'gap<=timeout'
        cls = f'L3:{fault.split("@")[0] if fault else "clean"}:{dclass}'
        if status != 'ok':
            res.inconclusive.append(f'L3 case {ci}: lab {status} {str(rec)[:200]}')
            continue
        if any(x[1] in ('no-connection', 'not-established') for x in rec['notes']):
            res.inconclusive.append(f'L3 case {ci}: {rec["notes"]}')
            continue
        sess = rec['sessions'][0]
        t_inj = [e['t'] for e in rec['events'] if e['kind'] == 'mark' and e.get('name') == 'inject'][0]
        notifs = [(m[0], bytes.fromhex(m[2].split('..')[0])[:2]) for m in sess['rx'] if m[1] == rw.NOTIFICATION and m[0] >= t_inj]
        seen = []
        for line in rec['helper_rx'].split('\n'):
            if '"type": "update"' not in line and '"type":"update"' not in line:
                continue
            try:
                ev = _json.loads(line)
            except ValueError:
                continue
            ann = ev.get('neighbor', {}).get('message', {}).get('update', {}).get('announce', {}).get('ipv4 unicast', {})
            for nh, lst in ann.items():
                for item in lst:
                    seen.append(item.get('nlri'))
        want = [f'172.{(i >> 8) & 255}.{i & 255}.0/24' for i in ids]
        wit = {'segments': seg if len(stream) < 1500 else '(long)', 'cuts': cuts, 'delays': delays, 'fault': fault, 'delivered': seen, 'expected': want, 'notifications': [(t, b.hex()) for t, b in notifs], 'eof_at': sess['eof_at']}
        canary = '202.254.202.254/32' in seen
        if canary:
            res.violation(f'C06/L3-canary-delivered:{fault}', 'bytes after a faulty header were interpreted', wit, cls)
            continue
        if fault is None:
            if notifs or sess['eof_at'] is not None:
                key = 'C06/L3-desync-after-slow-segments' if dclass == 'gap>timeout' else 'C06/L3-desync'
                res.violation(key, f'clean stream in segments (delays {delays}) ended the session: {[(t, b.hex()) for t, b in notifs]}', wit, cls)
            elif seen != want:
                res.violation('C06/L3-delivery-differs', f'delivered {seen} expected {want}', wit, cls)
            else:
                res.ok(cls, ('L3', n, tuple(sorted(set(delays))), len(cuts)))
        else:
            msgs_exp, exp_fault = expected(stream, 4096, 'L2')
            exp_ok = want[: len([1 for t, b in msgs_exp if t == rw.UPDATE])]
            if seen[: len(exp_ok)] != exp_ok or len(seen) > len(exp_ok):
                # a slow-segment desync may cut the delivery short before the fault is even reached
                key = 'C06/L3-desync-after-slow-segments' if dclass == 'gap>timeout' and len(seen) < len(exp_ok) else 'C06/L3-delivery-differs'
                res.violation(key, f'delivered {seen} expected {exp_ok} before the fault', wit, cls)
            elif not notifs or tuple(notifs[0][1]) != tuple(exp_fault):
                key = 'C06/L3-desync-after-slow-segments' if dclass == 'gap>timeout' else f'C06/L3-wrong-code:{fault.split("@")[0]}'
                res.violation(key, f'fault {fault}: notifications {[(t, b.hex()) for t, b in notifs]} expected {exp_fault}', wit, cls)
            else:
                res.ok(cls, ('L3', n, fault.split('@')[0], tuple(sorted(set(delays)))))
        res.sample({'level': 'L3', 'cuts': cuts, 'delays': delays, 'fault': fault, 'delivered': seen[:4]}, limit=2)
    return res


def sized_update(total: int, i: int) -> bytes:
    """a well-formed UPDATE of exactly `total` octets on the wire (an unknown optional transitive attribute pads it)"""
    base = rw.enc_attr(0x40, 1, b'\0') + rw.enc_attr(0x40, 2, rw.v_aspath([(2, [65001])], True)) + rw.enc_attr(0x40, 3, bytes([192, 0, 2, 9]))
    nlri = bytes([24, 172, (i >> 8) & 255, i & 255])
    pad = total - 19 - 4 - len(base) - len(nlri) - 4  # 4: flags, code, two length octets
    msg = rw.enc_update(b'', base + rw.enc_attr(0xC0, 240, bytes(pad), True), nlri)
    assert len(msg) == total, (len(msg), total)
    return msg


def run_maxsize(desc):
    """L3: the maximum message size in force is 65535 only when BOTH OPENs carried the extended message capability; a
    message one octet above the maximum in force is answered 1/2 whatever the peer announced on its own"""
    from vlib import scen

    res = Result()
    combos = [(lo, pe, ln) for lo in (False, True) for pe in (False, True) for ln in (4096, 4097, 9000)]
    for ci, (local_ext, peer_ext, length) in enumerate(combos):
        if ci % desc['of'] != desc['part']:
            continue
        maxsize = 65535 if (local_ext and peer_ext) else 4096
        cfg = {'hold': 90, 'families': [(1, 1)], 'adjin': True, 'api': True, 'api_receive': True, 'routes': 1, 'extmsg': local_ext}
        steps = [['accept', 20.0], ['establish', {'extmsg': peer_ext}], ['wait_quiet', 0.5, 10.0], ['mark', 'inject'], ['send', sized_update(length, 7).hex()], ['sleep', 0.5], ['send', scen.simple_update(9).hex()], ['sleep', 0.5], ['ka'], ['sleep', 0.5], ['mark', 'probe-end']]
        status, rec = scen.run_case({'config': cfg, 'steps': steps, 'vtimeout': 120.0, 'wall': 60.0})
        cls = f'L3:maxsize:local-{"ext" if local_ext else "std"}:peer-{"ext" if peer_ext else "std"}:{length}'
        if status != 'ok' or any(x[1] in ('no-connection', 'not-established') for x in rec['notes']):
            res.inconclusive.append(f'{cls}: lab {status} {str(rec)[:160] if status != "ok" else rec["notes"]}')
            continue
        sess = rec['sessions'][0]
        t_inj = [e['t'] for e in rec['events'] if e['kind'] == 'mark' and e.get('name') == 'inject'][0]
        notifs = [bytes.fromhex(m[2].split('..')[0])[:2] for m in sess['rx'] if m[1] == rw.NOTIFICATION and m[0] >= t_inj]
        later = '172.0.9.0/24' in rec['helper_rx']
        wit = {'local_extended_message': local_ext, 'peer_extended_message': peer_ext, 'length': length, 'maximum_in_force': maxsize, 'notifications': [n.hex() for n in notifs], 'eof_at': sess['eof_at'], 'later_update_delivered': later}
        if length > maxsize:
            if not notifs or tuple(notifs[0]) != (1, 2):
                res.violation(f'C06/L3-oversized-accepted:{"peer-only-extended" if peer_ext and not local_ext else "local-only-extended" if local_ext else "no-extended"}', f'a message of {length} octets with a maximum of {maxsize} in force: notifications {[n.hex() for n in notifs]}, what followed it was {"interpreted" if later else "not delivered"}', wit, cls)
            elif later:
                res.violation('C06/L3-canary-delivered:len-max+1', 'bytes after an oversized message were interpreted', wit, cls)
            else:
                res.ok(cls, ('maxsize', local_ext, peer_ext, length))
        else:
            if notifs or sess['eof_at'] is not None or not later:
                res.violation(f'C06/L3-valid-refused:size-{length}-max-{maxsize}', f'a message of {length} octets within the maximum {maxsize}: notifications {[n.hex() for n in notifs]} eof={sess["eof_at"]} later={later}', wit, cls)
            else:
                res.ok(cls, ('maxsize', local_ext, peer_ext, length))
    return res


def run_daemon(desc):
    """L4: the REAL daemon over real TCP.  The UPDATE stream of C02's daemon level is handed to the socket in segments cut at
    random places (inside the marker, between the two length octets, one octet at a time, several messages glued), TCP_NODELAY
    on, with pauses of 0-20 ms of real time between segments: the JSON events the helper receives are judged by C02's oracle
    and must be as many as the messages sent"""
    import socket
    import time

    from vlib.props import c02

    r = random.Random(desc['seed'] * 104729 + desc['part'])
    pending = bytearray()
    stats = {'segments': 0, 'messages': 0}

    def deliver(peer, raw, last):
        peer.conn.setsockopt(socket.IPPROTO_TCP, socket.TCP_NODELAY, 1)
        pending.extend(raw)
        stats['messages'] += 1
        if not last and r.random() < 0.3 and len(pending) < 20000:
            return  # glued to the next message
        while pending:
            mode = r.random()
            n = 1 if mode < 0.15 else r.choice([2, 15, 16, 17, 18, 19, 20]) if mode < 0.5 else r.randrange(1, 400)
            if mode > 0.92:
                n = len(pending)
            peer.conn.sendall(bytes(pending[:n]))
            del pending[:n]
            stats['segments'] += 1
            if r.random() < 0.25:
                time.sleep(r.choice([0.0, 0.001, 0.005, 0.02]))

    sub = c02.run_daemon(desc, deliver=deliver)
    res = Result()
    res.evaluations = sub.evaluations
    for k, v in sub.classes.items():
        res.classes['L4-' + k] = v
    res.distinct = sub.distinct
    res.info.update(sub.info) if hasattr(sub, 'info') else None
    res.extra.update(sub.extra)
    res.extra['L4_segments'] = [stats['segments']]
    res.inconclusive += sub.inconclusive
    for v in sub.violations:
        res.violation(v['key'].replace('C02/', 'C06/L4-segmented:'), 'with the stream cut into segments: ' + v['what'], v['witness'], 'L4-daemon')
    if stats['segments'] and not sub.violations and sub.classes.get('daemon'):
        res.ok('L4-segmented-stream', None, stats['segments'])
    return res


def run_shard(desc):
    if desc.get('daemon'):
        return run_daemon(desc)
    if desc.get('maxsize'):
        return run_maxsize(desc)
    if desc.get('level3'):
        return run_level3(desc)
    res = Result()
    exa.quiet()
    r = random.Random(desc['seed'] * 7919 + desc['shard'])
    loop = asyncio.new_event_loop()
    asyncio.set_event_loop(loop)
    levels = ['L1', 'L1g', 'L2', 'L2w']
    exhaustive_cases = 0
    # (1) exhaustive cut spaces on short streams
    for si in range(desc['short']):
        maxsize = r.choice([4096, 65535])
        stream, kinds, fault = gen_stream(r, maxsize, short=True)
        if len(stream) > 150:
            stream = stream[:150]
        level = levels[(si + desc['shard']) % len(levels)]
        nb = neighbor_for(maxsize)
        for sk, cuts in schedules_exhaustive(len(stream)):
            if sk == 'cut2' and len(stream) > 70 and (cuts[0] * 31 + cuts[1]) % desc['nshards'] != desc['shard']:
                continue
            if level == 'L1g':
                obs, sizes = drive_generator(stream, cuts, maxsize)
            else:
                obs, sizes = loop.run_until_complete(drive_async(stream, cuts, maxsize, level, nb))
            compare(res, level, stream, kinds, fault, sk, cuts, maxsize, obs, sizes)
            exhaustive_cases += 1
    res.extra['enumerated_cut_schedules'] = exhaustive_cases
    # (2) sampled schedules on longer streams
    for si in range(desc['streams']):
        maxsize = r.choice([4096, 65535])
        stream, kinds, fault = gen_stream(r, maxsize, short=False)
        nb = neighbor_for(maxsize)
        for sk, cuts in schedules_random(r, stream, 6):
            level = r.choice(levels)
            if level == 'L1g':
                obs, sizes = drive_generator(stream, cuts, maxsize)
            else:
                obs, sizes = loop.run_until_complete(drive_async(stream, cuts, maxsize, level, nb))
            compare(res, level, stream, kinds, fault, sk, cuts, maxsize, obs, sizes)
            if si < 2:
                res.sample({'level': level, 'kinds': kinds, 'fault': fault, 'schedule': sk, 'cuts': list(cuts)[:10], 'max': maxsize, 'observed': [o[:2] for o in obs][:8]}, limit=3)
    # (3) two sessions alive in the same process: their streams are delivered in interleaved pieces (a header of one cut
    # in two with a whole header of the other read in the gap); each must be framed as if it were alone
    pairs = 0
    for si in range(max(4, desc['streams'] // 3)):
        maxsize = r.choice([4096, 65535])
        sa, ka, fa = gen_stream(r, maxsize, short=r.random() < 0.5)
        sb, kb, fb = gen_stream(r, maxsize, short=r.random() < 0.5)
        nb = neighbor_for(maxsize)
        level = r.choice(['L1', 'L1', 'L2'])
        for (ska, ca), (skb, cb) in zip(schedules_random(r, sa, 5), reversed(list(schedules_random(r, sb, 5)))):
            async def both():
                return await asyncio.gather(drive_async(sa, ca, maxsize, level, nb), drive_async(sb, cb, maxsize, level, nb))

            (oa, za), (ob, zb) = loop.run_until_complete(both())
            compare(res, level + 'x2', sa, ka, fa, ska, ca, maxsize, oa, za)
            compare(res, level + 'x2', sb, kb, fb, skb, cb, maxsize, ob, zb)
            pairs += 1
    res.extra['concurrent_session_pairs'] = pairs
    res.extra['recv_size_sequences'] = len(res.extra.get('recv_size_sequences', ()))
    return res


def _req():
    out = []
    for level in ('L1', 'L1g', 'L2', 'L2w'):
        for f in ('clean', 'marker', 'type7'):
            out.append(None)
    return []


REQUIRED_CLASSES = {'quick': [], 'thorough': []}


def finish(merged, tier, seed):
    # class coverage promise: every level saw clean streams, marker faults, length faults and unknown types
    need = {}
    for cls, n in merged['classes'].items():
        if cls.startswith('L3:') or cls.startswith('L4-'):
            continue
        level, fk, sk, mx = cls.split(':')
        group = 'clean' if fk == 'clean' else 'marker' if fk == 'marker' else 'type' if fk.startswith('type') else 'length'
        need[(level, group)] = need.get((level, group), 0) + n
        need[(level, 'max' + mx)] = need.get((level, 'max' + mx), 0) + n
    l3 = {c: n for c, n in merged['classes'].items() if c.startswith('L3:')}
    merged['extra']['level3_classes'] = l3
    if not merged['classes'].get('L4-segmented-stream'):
        merged['inconclusive'].append('L4 (segmented stream to the real daemon) never judged')
    if not any(c.startswith('L3:clean') for c in l3):
        merged['inconclusive'].append('L3 (live session with virtual delays) never judged a clean stream')
    missing = [f'{lv}:{g}' for lv in ('L1', 'L1g', 'L2', 'L2w') for g in ('clean', 'marker', 'type', 'length', 'max4096', 'max65535') if not need.get((lv, g))]
    if missing:
        merged['inconclusive'].append('fault group never compared: ' + ','.join(missing))
    merged['extra']['level_group_counts'] = {f'{a}:{b}': n for (a, b), n in sorted(need.items())}
