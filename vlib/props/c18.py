"""C18 - route text is accepted if and only if it can be sent.

Definitions with one field at / one beyond each numeric boundary (and structural faults) are offered at the two
real surfaces: a configuration file through Configuration.reload() and the API route parser
(Configuration.parse_route_text, what `announce route` uses). Accepted definitions are then encoded by the real
UpdateCollection.messages() under every session kind and decoded by refwire.
"""

from __future__ import annotations

import random

from vlib import exa, gen_text as gt
from vlib import refwire as rw
from vlib.mon import Result
from vlib.props import c01

PROPERTY = 'C18'
LEVEL = 'exploration'
RULE = (
    'route definitions built from the static route grammar with one field at its legal boundary or one step beyond it '
    '(mask 32/33 and 128/129, AS 65535/65536/4294967295/4294967296 in as-path and aggregator, MED and LOCAL_PREF '
    '2^32-1/2^32, community halves 65535/65536, large community parts 2^32-1/2^32, label 2^20-1/2^20, RD halves, '
    'path-information) plus structural faults (missing value, missing bracket, duplicated keyword, keyword of another '
    'family); both text surfaces; accepted definitions encoded under 8 session kinds. distinct = (field, position, surface, outcome)'
)
ASSUMPTIONS = [
    'the generator knows by construction whether each value is inside the range the wire format and the RFCs allow',
    'an exception converted into an error message / error reply by the outermost production handler counts as a refusal (Configuration.reload catches everything; the API callbacks answer error)',
    'a configuration error must name the offending line (the error text contains "line <n>")',
]
MANIFEST = {
    'level': 'exploration',
    'technique': 'runtime monitor with a by-construction oracle: boundary-value route text through the real parsers, accepted definitions through the real encoder under every session kind, decoded by an independent codec; every case written by a real helper process to the real exabgp process with a session established: answer, liveness of process and session, log',
    'text': 'Every generated definition is classified legal/illegal by construction; legal ones must be accepted and encode under '
    'every session kind to the values as written (no wrap, no truncation, no exception), illegal ones must be refused at '
    'parse time with an error message.',
    'note': 'trusted base: the boundary table in this file, refwire decoder; flow components / actions / NLRI lengths and VPLS fields are decoded by refwire.flow and a small VPLS decoder; one long-lived API object takes every definition (flat and block form) followed by a probe command and a flow rule of each family',
}
SHARD_TIMEOUT = {'quick': 400, 'thorough': 2400}

# (field, text builder(value) -> fragment, legal values, illegal values, intent updater)
M32 = 2**32


def cases_for(afi: int):
    """-> list of (field, legal?, route text, intent-or-None, position)"""
    base_prefix = '10.1.2.0/24' if afi == 1 else '2001:db8:77::/48'
    nh = '192.0.2.1' if afi == 1 else '2001:db8::ff'
    out = []

    def add(field, pos, legal, text, intent):
        out.append({'field': field, 'pos': pos, 'legal': legal, 'text': text, 'intent': intent, 'afi': afi})

    def intent(prefix=base_prefix, **attrs):
        return {'afi': afi, 'safi': 1, 'prefix': prefix, 'nexthop': nh, 'attrs': attrs}

    maxm = 32 if afi == 1 else 128
    addr = '10.1.2.3' if afi == 1 else '2001:db8:77::1'
    zero = '0.0.0.0' if afi == 1 else '::'
    add('mask', 'max', True, f'route {addr}/{maxm} next-hop {nh}', intent(prefix=f'{addr}/{maxm}'))
    add('mask', 'zero', True, f'route {zero}/0 next-hop {nh}', intent(prefix=f'{zero}/0'))
    add('mask', 'beyond', False, f'route {addr}/{maxm + 1} next-hop {nh}', None)
    add('mask', 'negative', False, f'route {addr}/-1 next-hop {nh}', None)
    for v, legal in ((1, True), (65535, True), (65536, True), (M32 - 1, True), (M32, False), (-1, False)):
        add('as-path', f'{v}', legal, f'route {base_prefix} next-hop {nh} as-path [ 65001 {v} ]', intent(as_path=[(2, [65001, v])]) if legal else None)
        add('aggregator-asn', f'{v}', legal, f'route {base_prefix} next-hop {nh} aggregator ( {v}:192.0.2.9 )', intent(aggregator=(v, '192.0.2.9')) if legal else None)
    for v, legal in ((0, True), (M32 - 1, True), (M32, False), (-5, False)):
        add('med', f'{v}', legal, f'route {base_prefix} next-hop {nh} med {v}', intent(med=v) if legal else None)
        add('local-preference', f'{v}', legal, f'route {base_prefix} next-hop {nh} local-preference {v}', intent(local_pref=v) if legal else None)
    for a, b, legal in ((0, 0, True), (65535, 65535, True), (65536, 1, False), (1, 65536, False)):
        add('community', f'{a}:{b}', legal, f'route {base_prefix} next-hop {nh} community [ {a}:{b} ]', intent(communities=[(a, b)]) if legal else None)
    for a, b, c, legal in ((0, 0, 0, True), (M32 - 1, M32 - 1, M32 - 1, True), (M32, 1, 1, False), (1, M32, 1, False), (1, 1, M32, False)):
        add('large-community', f'{a}:{b}:{c}', legal, f'route {base_prefix} next-hop {nh} large-community [ {a}:{b}:{c} ]', intent(large_communities=[(a, b, c)]) if legal else None)
    for a, n, legal, hx in ((65535, M32 - 1, True, '0002ffffffffffff'), (65535, M32, False, None), (65536, 65535, True, '02020001 0000ffff'), (M32, 1, False, None)):
        if hx is None or a <= 65535:
            add('extended-community', f'target:{a}:{n}', legal, f'route {base_prefix} next-hop {nh} extended-community [ target:{a}:{n} ]', intent(ext_communities=[hx]) if legal and hx else None)
    # labels and rd
    for lab, legal in ((0, True), (16, True), (2**20 - 1, True), (2**20, False), (-1, False)):
        i = {'afi': afi, 'safi': 4, 'prefix': base_prefix, 'nexthop': nh, 'attrs': {}, 'labels': (lab,)} if legal else None
        add('label', f'{lab}', legal, f'route {base_prefix} next-hop {nh} label {lab}', i)
    import struct

    for txt, legal, hx in (
        ('65535:4294967295', True, struct.pack('!HHL', 0, 65535, M32 - 1).hex()),
        ('65535:4294967296', False, None),
        ('65536:65535', True, struct.pack('!HLH', 2, 65536, 65535).hex()),
        ('4294967295:65535', True, struct.pack('!HLH', 2, M32 - 1, 65535).hex()),
        ('65536:65536', False, None),
        ('4294967296:1', False, None),
        ('192.0.2.1:65535', True, (struct.pack('!H', 1) + rw.ipbytes('192.0.2.1') + struct.pack('!H', 65535)).hex()),
        ('192.0.2.1:65536', False, None),
        ('65000', False, None),
    ):
        i = {'afi': afi, 'safi': 128, 'prefix': base_prefix, 'nexthop': nh, 'attrs': {}, 'labels': (100,), 'rd': hx} if legal else None
        add('rd', txt, legal, f'route {base_prefix} next-hop {nh} label 100 rd {txt}', i)
    for pid, legal, val in (('0.0.0.0', True, 0), ('255.255.255.255', True, M32 - 1), ('256.0.0.1', False, None)):
        i = dict(intent(), pathid=val) if legal else None
        add('path-information', pid, legal, f'route {base_prefix} next-hop {nh} path-information {pid}', i)
    for o, legal, val in (('igp', True, 0), ('egp', True, 1), ('incomplete', True, 2), ('IGP', True, 0), ('bogus', False, None), ('3', False, None)):
        add('origin', o, legal, f'route {base_prefix} next-hop {nh} origin {o}', intent(origin=val) if legal else None)
    if afi == 1:
        # an attribute set which just fits / just does not fit a 4096 octet message (1000 / 1012 communities; 1000 leaves room for LOCAL_PREF, a path identifier and a 4-octet AS path): RFC-legal (the
        # attribute length field holds 65535) and sendable on an extended-message session
        for count, pos in ((1000, 'fits-4096'), (1012, 'over-4096')):
            comms = [(65000, i) for i in range(count)]
            add('attribute-size', pos, True, f'route {base_prefix} next-hop {nh} community [ ' + ' '.join(f'{a}:{b}' for a, b in comms) + ' ]', intent(communities=comms))
    # structural faults
    add('structure', 'no-nexthop', False, f'route {base_prefix} med 5', None)  # nothing to put in NEXT_HOP / MP_REACH_NLRI
    add('structure', 'missing-nexthop-value', False, f'route {base_prefix} next-hop', None)
    add('structure', 'missing-bracket', False, f'route {base_prefix} next-hop {nh} community [ 1:1', None)
    add('structure', 'unknown-keyword', False, f'route {base_prefix} next-hop {nh} bogus-keyword 5', None)
    add('structure', 'missing-prefix', False, f'route next-hop {nh}', None)
    add('structure', 'garbage-prefix', False, f'route 10.1.2.300/24 next-hop {nh}', None)
    add('structure', 'empty-med', False, f'route {base_prefix} next-hop {nh} med', None)
    add('structure', 'nexthop-not-ip', False, f'route {base_prefix} next-hop banana', None)
    add('structure', 'double-slash', False, f'route 10.1.2.0/24/24 next-hop {nh}', None)
    return out


# ---------------------------------------------------------------- flow and VPLS definitions

VPLS_FAM = [(25, 65)]


def vpls_cases():
    """RFC 4761 NLRI: VE ID, VE block offset and VE block size are 16 bit fields, the label base a 20 bit label"""
    out = []
    base = {'endpoint': 5, 'base': 10702, 'offset': 1, 'size': 8}
    table = {
        'endpoint': [(0, True), (65535, True), (65536, False), (-1, False)],
        'offset': [(0, True), (65535, True), (65536, False)],
        'size': [(1, True), (65535, True), (65536, False)],
        'base': [(16, True), (65535, True), (65536, True), (1048575 - 8, True), (1048576, False), (16777216, False)],
    }
    for field, vals in table.items():
        for v, legal in vals:
            d = dict(base)
            d[field] = v
            if field == 'size' and v > 8:
                d['base'] = 16  # base + size stays a 20 bit label
            if field == 'base' and legal:
                d['size'] = 1
            out.append({'kind': 'vpls', 'field': 'vpls-' + field, 'pos': str(v), 'legal': legal, 'vals': d})
    return out


def vpls_text(d: dict, surface: str) -> str:
    words = f'endpoint {d["endpoint"]} base {d["base"]} offset {d["offset"]} size {d["size"]} rd 192.168.201.1:123 next-hop 192.168.201.1'
    if surface == 'config':
        return 'l2vpn {\n vpls ' + words + ';\n}\n'
    return 'announce vpls ' + words


def vpls_decode(nlri: bytes) -> dict:
    import struct

    ln, = struct.unpack('!H', nlri[:2])
    if ln != 17 or len(nlri) != 19:
        raise ValueError(f'VPLS NLRI length field {ln}, {len(nlri)} octets')
    ve, off, size = struct.unpack('!HHH', nlri[10:16])
    lab = int.from_bytes(nlri[16:19], 'big')
    return {'endpoint': ve, 'offset': off, 'size': size, 'base': lab >> 4, 'rd': nlri[2:10].hex()}


def flow_cases():
    """numeric flow components: the value as written must be the value on the wire (RFC 8955 4.2.2: 1, 2, 4 or 8 octets)"""
    out = []
    table = {
        'port': (3, [(0, True), (255, True), (256, True), (65535, True), (65536, None), (-1, False)]),
        'destination-port': (5, [(65535, True), (65536, None)]),
        'source-port': (6, [(65535, True), (65536, None)]),
        'protocol': (3, [(0, True), (255, True), (256, None)]),
        'packet-length': (10, [(0, True), (65535, True), (65536, None)]),
        'dscp': (11, [(0, True), (63, True), (64, None), (256, None)]),
        'icmp-type': (7, [(0, True), (255, True), (256, None)]),
        'icmp-code': (8, [(255, True), (256, None)]),
    }
    table['port'] = (4, table['port'][1])
    for kw, (ctype, vals) in table.items():
        for v, legal in vals:
            out.append({'kind': 'flow', 'field': 'flow-' + kw, 'pos': str(v), 'legal': legal, 'kw': kw, 'ctype': ctype, 'value': v, 'then': 'discard'})
    # NLRI lengths around the switch from the one octet to the two octet length form (240) and around 256
    for n in (77, 78, 79, 83, 84, 85):
        for dst in ('10.0.0.0/8', '10.1.0.0/16', '10.1.2.0/24', '10.1.2.3/32'):
            out.append({'kind': 'flow', 'field': 'flow-length', 'pos': f'{n}x{dst}', 'legal': True, 'kw': 'port', 'ctype': 4, 'values': [1000 + i for i in range(n)], 'dst': dst, 'then': 'discard'})
    # lists with AND chains: each operator carries the AND bit exactly where the text has an '&'
    for kw, ctype, txt, ops in (
        ('destination-port', 5, '[ >8080&<8088 =3128 ]', [(0, 2, 8080), (1, 4, 8088), (0, 1, 3128)]),
        ('packet-length', 10, '[ >200&<300 >400&<500 ]', [(0, 2, 200), (1, 4, 300), (0, 2, 400), (1, 4, 500)]),
        ('port', 4, '[ =80 >1000&<2000 =443 =8443 ]', [(0, 1, 80), (0, 2, 1000), (1, 4, 2000), (0, 1, 443), (0, 1, 8443)]),
        ('source-port', 6, '[ >=1024&<=65535 ]', [(0, 3, 1024), (1, 5, 65535)]),
    ):
        out.append({'kind': 'flow', 'field': 'flow-and-chain', 'pos': f'{kw} {txt}', 'legal': True, 'kw': kw, 'ctype': ctype, 'ops_text': txt, 'ops': ops, 'then': 'discard'})
    # traffic actions: the extended community must carry the numbers as written
    for txt, legal in (('redirect 65535:4294967295', True), ('redirect 65535:4294967296', False), ('redirect 65536:65535', True), ('redirect 4294967295:65535', True),
                       ('redirect 65536:65536', False), ('redirect 4294967296:1', False), ('mark 63', True), ('mark 64', None), ('mark 256', False), ('rate-limit 0', True), ('rate-limit -1', None)):
        out.append({'kind': 'flow', 'field': 'flow-action', 'pos': txt, 'legal': legal, 'kw': 'destination-port', 'ctype': 5, 'value': 80, 'then': txt})
    return out


def flow_text(c: dict, surface: str) -> str:
    if 'ops_text' in c:
        body = f'match {{ destination 10.0.0.0/24; {c["kw"]} {c["ops_text"]}; }} then {{ {c["then"]}; }}'
    elif 'values' in c:
        body = f'match {{ destination {c["dst"]}; {c["kw"]} [ {" ".join("=%d" % v for v in c["values"])} ]; }} then {{ {c["then"]}; }}'
    else:
        body = f'match {{ destination 10.0.0.0/24; {c["kw"]} ={c["value"]}; }} then {{ {c["then"]}; }}'
    if surface == 'config':
        return 'flow {\n route r1 { ' + body + ' }\n}\n'
    return 'announce flow route { ' + body + ' }'


def action_expected(txt: str):
    """-> the 8 octet extended community RFC 8955 / 7674 give for a 'then' text (None: not judged)"""
    import struct

    w = txt.split()
    if w[0] == 'redirect':
        a, n = (int(x) for x in w[1].split(':'))
        return (struct.pack('!BBHL', 0x80, 0x08, a, n) if a <= 65535 else struct.pack('!BBLH', 0x82, 0x08, a, n)).hex()
    if w[0] == 'mark':
        return (bytes([0x80, 0x09, 0, 0, 0, 0, 0]) + bytes([int(w[1])])).hex()
    if w[0] == 'rate-limit':
        return (bytes([0x80, 0x06, 0, 0]) + struct.pack('!f', float(w[1]))).hex()
    return None


def brace_form(text: str) -> str | None:
    """'route P next-hop N k v ...' -> 'route P { next-hop N; k v; ... }' (the block syntax of the same definition)"""
    import re

    m = re.match(r'^route (\S+) (.*)$', text)
    if not m or '{' in text:
        return None
    words = m.group(2).split()
    keys = {'next-hop', 'med', 'local-preference', 'origin', 'as-path', 'community', 'large-community', 'extended-community', 'aggregator', 'label', 'rd', 'path-information', 'atomic-aggregate', 'originator-id', 'cluster-list', 'attribute', 'aigp', 'split', 'watchdog', 'withdraw', 'name', 'bgp-prefix-sid', 'bogus-keyword'}
    stmts, cur = [], []
    depth = 0
    for w in words:
        if depth == 0 and w in keys and cur:
            stmts.append(' '.join(cur))
            cur = []
        cur.append(w)
        depth += w.count('[') + w.count('(') - w.count(']') - w.count(')')
    if cur:
        stmts.append(' '.join(cur))
    return 'route %s { %s }' % (m.group(1), ' '.join(st + ';' for st in stmts))


def run_sequence(res: Result, desc, cases) -> None:
    """ONE long-lived API object takes the definitions one after the other, as a daemon does: whatever a refused definition
    left behind, the next valid command must give exactly its own route - nothing of the refused one, nothing missing"""
    from exabgp.reactor.api import API

    api = API(None)
    probe_n = 0
    for case in cases:
        forms = [('flat', case['text'])]
        b = brace_form(case['text'])
        if b:
            forms.append(('block', b))
        for form, text in forms:
            try:
                routes = list(api.api_route('announce ' + text))
            except Exception as e:  # noqa
                routes = []
                res.count(f'sequence:refused-by-exception:{type(e).__name__}')
            accepted = bool(routes)
            if form == 'block' and case['legal'] and not accepted:
                res.count('block-form-of-legal-definition-refused')  # the block grammar is narrower than the flat one for some keywords: informational
            if not case['legal'] and accepted:
                res.violation(f'C18/illegal-accepted:{case["field"]}:{case["pos"]}', f'api ({form} form): a value the wire cannot hold / malformed text was accepted', {'text': text, 'form': form, 'routes': [str(x) for x in routes][:2]}, f'sequence:{form}')
                continue
            # the probe: a plain valid command right behind
            probe_n += 1
            pfx = f'198.51.{probe_n % 250}.0/24'
            try:
                got = list(api.api_route(f'announce route {pfx} next-hop 192.0.2.77 med {probe_n % 1000}'))
            except Exception as e:  # noqa
                res.violation(f'C18/probe-raises-after:{"refused" if not accepted else "accepted"}:{form}', f'a valid command raised {type(e).__name__} after {text[:80]!r}', {'before': text, 'form': form}, f'sequence:{form}')
                continue
            seen = sorted(str(x.nlri) for x in got)
            ok = len(got) == 1 and pfx in seen[0]
            if ok:
                attrs = str(got[0].attributes)
                ok = f'med {probe_n % 1000}' in attrs and str(got[0].nexthop) == '192.0.2.77'
            if not ok:
                kind = 'leak' if len(got) > 1 else 'lost' if not got else 'altered'
                res.violation(f'C18/next-command-{kind}-after-{"refused" if not accepted else "accepted"}-definition:{form}', f'after {text[:90]!r} ({"refused" if not accepted else "accepted"}) the valid command for {pfx} gave {[str(x) for x in got][:3]}', {'before': text, 'form': form, 'field': case['field'], 'position': case['pos']}, f'sequence:{form}')
                continue
            res.ok(f'sequence:{form}:{"accepted" if accepted else "refused"}', ('seq', case['field'], case['pos'], form))
            # and a flow rule of EACH family right behind a static command of either: what a rule may contain depends on its own
            # family, never on the address family of the command before it
            for fam, rule, call in (
                (1, 'announce flow route { match { dscp =10; } then { discard; } }', 'flow'),
                (2, 'announce flow route { match { source 2001:db8::/32; flow-label =5; } then { discard; } }', 'flow'),
                (1, 'announce ipv4 flow dscp =10 discard', 'v4'),
                (2, 'announce ipv6 flow flow-label =10 discard', 'v6'),
            )[probe_n % 4 : probe_n % 4 + 1]:
                try:
                    fr = list({'flow': api.api_flow, 'v4': api.api_announce_v4, 'v6': api.api_announce_v6}[call](rule))
                    ferr = '' if fr else str(api.configuration.error).strip().split('\n')[-1][:120]
                except Exception as e:  # noqa
                    fr, ferr = [], f'{type(e).__name__}: {e}'
                fcls = f'sequence:flow-after-static:{call}:afi{fam}'
                if not fr or int(fr[0].nlri.afi) != fam:
                    res.violation(f'C18/legal-refused:flow-after-{"ipv6" if case["afi"] == 2 else "ipv4"}-static:{call}', f'a valid {"IPv4" if fam == 1 else "IPv6"} flow rule right after {text[:60]!r}: {ferr or [str(x) for x in fr]}', {'before': text, 'rule': rule, 'error': ferr}, fcls)
                else:
                    res.ok(fcls, ('flow-after-static', call, fam, case['afi']))


def run_flow_vpls(res: Result, desc) -> None:
    """flow and VPLS definitions at both surfaces; accepted ones encoded by the real generator and read back by independent decoders"""
    from exabgp.bgp.message.update.collection import RoutedNLRI, UpdateCollection
    from exabgp.reactor.api import API
    from vlib.refwire import flow as rf

    cases = [c for i, c in enumerate(flow_cases() + vpls_cases()) if i % desc['nshards'] == desc['shard']]
    if not cases:
        return
    fams = [(1, 133), (25, 65)]
    base = exa.neighbor_text(families=fams)
    conf0 = exa.load_config(base)
    nb = list(conf0.neighbors.values())[0]
    from vlib import corpus

    neg = corpus.mirror_session(nb)  # negotiated the production way, against a peer which offers the same families
    api = API(None)
    for c in cases:
        for surface in ('config', 'api'):
            text = flow_text(c, surface) if c['kind'] == 'flow' else vpls_text(c['vals'], surface)
            cls = f'{c["field"]}:{ {True: "legal", False: "illegal", None: "beyond-rfc"}[c["legal"]] }:{surface}'
            wit = {'text': text, 'field': c['field'], 'position': c['pos'], 'legal': c['legal'], 'surface': surface}
            routes, err = [], ''
            try:
                if surface == 'config':
                    try:
                        conf = exa.load_config(exa.neighbor_text(families=fams, body=text))
                        routes = list(list(conf.neighbors.values())[0].routes)
                    except exa.ConfigError as e:
                        err = str(e)
                else:
                    routes = list(api.api_flow(text) if c['kind'] == 'flow' else api.api_vpls(text))
                    err = '' if routes else str(api.configuration.error)
            except Exception as e:  # noqa
                err = f'{type(e).__name__}: {e}'
                res.count(f'refused-by-exception:{type(e).__name__}')
                wit['exception'] = err[:200]
            accepted = bool(routes)
            wit['error'] = err[-300:]
            if c['legal'] is True and not accepted:
                res.violation(f'C18/legal-refused:{c["field"]}:{c["pos"]}', f'{surface}: RFC-legal definition refused: {err[-160:]!r}', wit, cls)
                continue
            if c['legal'] is False and accepted:
                res.violation(f'C18/illegal-accepted:{c["field"]}:{c["pos"]}', f'{surface}: a value the wire cannot hold was accepted', dict(wit, routes=[str(x) for x in routes][:2]), cls)
                continue
            if not accepted:
                if surface == 'config' and c['legal'] is False and 'line' not in err.lower():
                    res.violation(f'C18/error-without-line:{c["field"]}', f'configuration error does not name the line: {err[-120:]!r}', wit, cls)
                else:
                    res.ok(cls, (c['field'], c['pos'], surface, 'refused'))
                continue
            # accepted: encodes without raising, and the wire carries the values as written
            try:
                x = routes[0]
                raws = list(UpdateCollection([RoutedNLRI(x.nlri, x.nexthop)], [], x.attributes).messages(neg))
                packed = bytes(x.nlri.pack_nlri(neg))
            except Exception as e:  # noqa
                res.violation(f'C18/encode-raises:{c["field"]}:{type(e).__name__}', f'accepted definition cannot be encoded: {type(e).__name__}: {str(e)[:120]}', wit, cls)
                continue
            if not raws:
                res.violation(f'C18/accepted-but-nothing-sent:{c["field"]}:{c["pos"]}', 'accepted definition produces no UPDATE', wit, cls)
                continue
            wit['nlri'] = packed.hex()
            try:
                if c['kind'] == 'vpls':
                    got = vpls_decode(packed)
                    want = c['vals']
                    bad = [k for k in ('endpoint', 'offset', 'size', 'base') if got[k] != want[k]]
                    if bad:
                        res.violation(f'C18/not-as-written:{c["field"]}', f'VPLS {bad[0]} on the wire {got[bad[0]]}, written {want[bad[0]]}', dict(wit, wire=got), cls)
                        continue
                else:
                    rule, rest = rf.dec_nlri(1, 133, packed)
                    comp = dict(rule['comps']).get(c['ctype'])
                    vals = [op[2] for op in comp] if comp else None
                    if 'ops' in c:
                        got_ops = [(op[0], op[1], op[2]) for op in comp] if comp else None
                        if got_ops != c['ops'] or rest:
                            res.violation('C18/not-as-written:flow-and-chain', f'{c["kw"]} {c["ops_text"]}: operators on the wire (and, op, value) {got_ops}, written {c["ops"]}', dict(wit, wire=str(rule)[:300]), cls)
                            continue
                        res.ok(cls, (c['field'], c['pos'], surface, 'accepted'))
                        res.ok('flow-vpls-carried-as-written')
                        continue
                    written = c.get('values', [c.get('value')])
                    if vals != written or rest:
                        res.violation(f'C18/not-as-written:{c["field"]}', f'{c["kw"]} on the wire {str(vals)[:80]} (+{len(rest)} octets left over), written {str(written)[:80]}', dict(wit, wire=str(rule)[:300]), cls)
                        continue
                    if 'values' in c:
                        res.count(f'flow-nlri-length:{rule["length"]}')
                    if c['field'] == 'flow-action':
                        want = action_expected(c['then'])
                        ecs = []
                        for attr in x.attributes.values():
                            fl, code, value, _ = rf.dec_path_attribute(bytes(attr.pack_attribute(neg)))
                            if code == 16:
                                ecs += [value[i : i + 8].hex() for i in range(0, len(value), 8)]
                        strip = lambda h: h[:4] + h[8:] if h[:4] in ('8006', '800c') else h  # noqa: E731  (the AS of traffic-rate is informational)
                        if want is not None and strip(want) not in [strip(e) for e in ecs]:
                            res.violation(f'C18/not-as-written:flow-action:{c["then"].split()[0]}', f'action {c["then"]!r}: extended communities on the wire {ecs}, RFC form {want}', wit, cls)
                            continue
            except (rf.RefFlowError, ValueError, rw.RefError) as e:
                res.violation(f'C18/not-as-written:{c["field"]}:undecodable', f'the NLRI ExaBGP sends for the accepted definition does not decode: {e}', wit, cls)
                continue
            if c['legal'] is None:
                res.count(f'beyond-rfc-range-accepted-and-carried:{c["field"]}')
            res.ok(cls, (c['field'], c['pos'], surface, 'accepted'))
            res.ok('flow-vpls-carried-as-written')


SESSIONS = [
    {'ibgp': False, 'las': 65000, 'peer_asn4': True, 'addpath': 0, 'extmsg': False},
    {'ibgp': False, 'las': 65000, 'peer_asn4': False, 'addpath': 0, 'extmsg': False},
    {'ibgp': True, 'las': 65000, 'peer_asn4': True, 'addpath': 3, 'extmsg': False},
    {'ibgp': False, 'las': 4200000001, 'peer_asn4': True, 'addpath': 3, 'extmsg': True},
    {'ibgp': True, 'las': 4200000001, 'peer_asn4': True, 'addpath': 0, 'extmsg': True},
    {'ibgp': False, 'las': 4200000001, 'peer_asn4': False, 'addpath': 0, 'extmsg': False},
    {'ibgp': True, 'las': 65000, 'peer_asn4': False, 'addpath': 3, 'extmsg': False},
    {'ibgp': False, 'las': 65000, 'peer_asn4': True, 'addpath': 3, 'extmsg': True},
]


def plan(tier, seed):
    return [{'shard': i, 'nshards': 16} for i in range(16)] + [{'shard': 900 + i, 'daemon': True, 'part': i, 'parts': 4} for i in range(4)]


def family_form(case) -> tuple[str, str] | None:
    """'route P next-hop ...' in the family syntax of the API and of the announce { } section: ('ipv4', 'unicast P next-hop ...')"""
    t = case['text']
    if not t.startswith('route '):
        return None
    rest = t[len('route ') :]
    words = rest.split()
    safi = 'mpls-vpn' if ' rd ' in f' {rest} ' else 'nlri-mpls' if ' label ' in f' {rest} ' else 'unicast'
    if not words or words[0] == 'next-hop':
        return None  # 'route next-hop ...': the missing prefix is a case of the route syntax
    return ('ipv4' if case['afi'] == 1 else 'ipv6'), f'{safi} {rest}'


def parse_family(conf, afi_name: str, line: str):
    """what API.api_announce_v4/v6 do, on this Configuration (neighbors kept as parse_route_text keeps them)"""
    saved = conf.neighbors.copy()
    try:
        conf.static.clear()
        if not conf.partial(afi_name, line, 'announce'):
            return []
        if conf.scope.location():
            return []
        conf.scope.to_context()
        return conf.scope.pop_routes()
    finally:
        conf.neighbors = saved


def run_daemon(desc):
    """every case (legal and illegal, route syntax and family syntax) written by a REAL helper process to the REAL daemon with a
    session ESTABLISHED: legal -> done, illegal -> error, exactly one answer each; the session is still up afterwards (an
    accepted definition which cannot be encoded would take it down), the process alive, no unhandled exception on its log"""
    import json as _json
    import threading

    from vlib import daemon

    res = Result()
    r = random.Random(desc['seed'] * 49979693 + desc['part'])
    cases = cases_for(1) + cases_for(2)
    for i in range(30):
        afi, safi = r.choice(c01.FAMS)
        text, intent = gt.gen_route(r, afi, c01.KIND[safi], rich=0.6, with_pathid=r.random() < 0.4, allow_self=False)
        cases.append({'field': 'grammar', 'pos': c01.KIND[safi], 'legal': True, 'text': text, 'intent': intent, 'afi': afi})
    lines = []
    for c in cases:
        if c['field'] == 'attribute-size':
            continue  # 1 000 communities: the quadratic parser is not what this level looks at
        lines.append((c, 'route', 'peer * announce ' + c['text']))
        fam = family_form(c)
        if fam:
            lines.append((c, 'family', f'peer * announce {fam[0]} {fam[1]}'))
    lines = [x for i, x in enumerate(lines) if i % desc['parts'] == desc['part']]
    r.shuffle(lines)
    script = '#sleep 1.0\n' + ''.join(x[2] + '\n' for x in lines)
    k0 = SESSIONS[3]  # extended messages, add-path: every legal case of the catalogue can be sent on it
    text = 'process player {\n    run @PY@ @DIR@/player.py @DIR@/script @DIR@/replies;\n    encoder json;\n}\n' + exa.neighbor_text(
        las=k0['las'], pas=65009, families=c01.FAMS, asn4=True, addpath=k0['addpath'], addpath_families=c01.FAMS if k0['addpath'] else None, extmsg=True, extra='    adj-rib-out true;\n    api { processes [ player ]; }'
    )
    d = daemon.Daemon(text, files={'script': script}, env={'exabgp_log_level': 'ERROR'})
    peer = None
    state = {'notif': None, 'closed': False}
    try:
        d.start()
        peer = d.accept()
        peer.establish(65009)
        stop = threading.Event()

        def reader():
            while not stop.is_set():
                t, b = peer.read_message(0.2)
                if t == 3:
                    state['notif'] = (b[0], b[1], bytes(b[2:])[:60])
                if t is None:
                    state['closed'] = True
                    break

        th = threading.Thread(target=reader, daemon=True)
        th.start()
        d.wait_lines('replies', lambda ls: any(x.startswith('["end"') for x in ls), timeout=60 + len(lines))
        import time

        time.sleep(1.0)
        stop.set()
        th.join(2)
        replies = [_json.loads(x) for x in d.lines('replies')]
        log = d.tail(5000)
        alive = d.alive()
    except daemon.Inconclusive as e:
        daemon.skipped(res, str(e))
        return res
    finally:
        try:
            if peer is not None:
                peer.close()
        except Exception:  # noqa
            pass
        d.stop()
    wit0 = {'level': 'daemon'}
    if not alive:
        res.violation('C18/daemon:process-exits', 'the daemon exited while the definitions were offered', dict(wit0, log=log[-2000:]), 'daemon')
        return res
    per = []
    cur = None
    for kind, textline in replies:
        if kind == 'sent':
            cur = {'cmd': textline, 'got': [], 'timeout': False}
            per.append(cur)
        elif kind == 'timeout' and cur is not None:
            cur['timeout'] = True
        elif kind == 'got' and cur is not None:
            cur['got'].append(textline)
    if 'exception.unhandled' in log or 'Traceback' in log or state['notif'] or state['closed']:
        # find the definitions accepted before the session went down
        k = log.find('Traceback')
        res.violation(
            'C18/daemon:session-lost-or-exception-after-accepted-definition',
            f'the session ended ({state}) or an unhandled exception was logged while definitions were offered: ' + log[max(0, k) : k + 300],
            dict(wit0, state=str(state), log=log[-2500:], last_commands=[p_['cmd'][:160] for p_ in per[-12:]]),
            'daemon',
        )
        return res
    if len(per) != len(lines):
        daemon.skipped(res, f'the helper sent {len(per)} of {len(lines)} definitions')
        return res
    for (c, form, line), p_ in zip(lines, per):
        terms = [x.strip() for x in p_['got'] if x.strip() in ('done', 'error')]
        cls = f'daemon:{c["field"]}:{"legal" if c["legal"] else "illegal"}:{form}'
        wit = dict(wit0, text=line[:600], field=c['field'], position=c['pos'], legal=c['legal'], answer=p_['got'][-3:])
        if p_['timeout'] or len(terms) != 1:
            res.violation(f'C18/daemon:answer-count:{c["field"]}', f'{len(terms)} terminal answers (timeout={p_["timeout"]}) to one definition', wit, cls)
        elif c['legal'] and terms[0] != 'done':
            res.violation(f'C18/daemon:legal-refused:{c["field"]}:{c["pos"] if c["field"] != "grammar" else form}', f'RFC-legal definition refused by the daemon: {p_["got"][:1]}', wit, cls)
        elif not c['legal'] and terms[0] != 'error':
            res.violation(f'C18/daemon:illegal-accepted:{c["field"]}:{c["pos"]}', 'a value the wire cannot hold / malformed text was answered done', wit, cls)
        else:
            res.ok(cls, ('daemon', c['field'], c['pos'], form, terms[0]))
            res.ok('daemon:definitions')
    return res


def run_shard(desc):
    if desc.get('daemon'):
        return run_daemon(desc)
    from exabgp.bgp.message.update.collection import RoutedNLRI, UpdateCollection

    res = Result()
    exa.quiet()
    r = random.Random(desc['seed'] * 31337 + desc['shard'])
    cases = cases_for(1) + cases_for(2)
    # random definitions from the C01 grammar are legal by construction: they widen the 'legal accepted + encodes' side
    for i in range(160 if desc['tier'] == 'quick' else 30000):
        afi, safi = r.choice(c01.FAMS)
        text, intent = gt.gen_route(r, afi, c01.KIND[safi], rich=0.6, with_pathid=r.random() < 0.4, allow_self=False)
        cases.append({'field': 'grammar', 'pos': c01.KIND[safi], 'legal': True, 'text': text, 'intent': intent, 'afi': afi})
    mine = [c for i, c in enumerate(cases) if i % desc['nshards'] == desc['shard']]
    sessions = {}
    for case in mine:
        for surface in ('config', 'api', 'api-family'):
            fam = family_form(case) if surface == 'api-family' else None
            if surface == 'api-family' and fam is None:
                continue
            cls = f'{case["field"]}:{"legal" if case["legal"] else "illegal"}:{surface}'
            wit = {'text': case['text'], 'field': case['field'], 'position': case['pos'], 'legal': case['legal'], 'surface': surface}
            accepted = None
            err = ''
            route_objs = []
            # ---- offer the text at the surface
            k0 = SESSIONS[0]
            try:
                if surface == 'config':
                    try:
                        conf, nb, neg, ref, ctext = c01.build(k0, [case['text']])
                        accepted = True
                        route_objs = list(nb.routes)
                    except exa.ConfigError as e:
                        accepted = False
                        err = str(e)
                else:
                    conf, nb, neg, ref, ctext = c01.build(k0, [])
                    if fam:
                        wit['family_form'] = f'announce {fam[0]} {fam[1]}'
                    rs = parse_family(conf, *fam) if fam else conf.parse_route_text(case['text'], 'announce')
                    accepted = bool(rs)
                    err = str(conf.error)
                    route_objs = [nb.resolve_self(x) for x in rs]
                    if accepted:
                        from exabgp.reactor.api.command.announce import validate_announce

                        for x in route_objs:
                            verr = validate_announce(x)
                            if verr:
                                accepted = False
                                err = verr
            except Exception as e:  # noqa
                # both production surfaces convert exceptions into an error: counted as a refusal, but recorded
                accepted = False
                err = f'{type(e).__name__}: {e}'
                res.count(f'refused-by-exception:{type(e).__name__}')
                wit['exception'] = err[:200]
            wit['error'] = err[-300:]
            if case['legal'] and not accepted:
                res.violation(f'C18/legal-refused:{case["field"]}:{case["pos"] if case["field"] != "grammar" else surface}', f'{surface}: RFC-legal definition refused: {err[-160:]!r}', wit, cls)
                continue
            if not case['legal'] and accepted:
                res.violation(f'C18/illegal-accepted:{case["field"]}:{case["pos"]}', f'{surface}: a value the wire cannot hold / malformed text was accepted', dict(wit, routes=[str(x) for x in route_objs][:2]), cls)
                continue
            if not case['legal']:
                if surface == 'config' and 'line' not in err.lower():
                    res.violation(f'C18/error-without-line:{case["field"]}', f'configuration error does not name the line: {err[-120:]!r}', wit, cls)
                else:
                    res.ok(cls, (case['field'], case['pos'], surface, 'refused'))
                continue
            # ---- accepted and legal: must encode under every session kind and carry the values as written
            ok = True
            for si, k in enumerate(SESSIONS):
                key = c01.sname(k)
                try:
                    if key not in sessions:
                        sessions[key] = c01.build(k, [])
                    sconf, snb, sneg, sref, _ = sessions[key]
                    # the session's own parser produces the routes for that neighbor (next-hop self resolution etc.)
                    rs = parse_family(sconf, *fam) if fam else sconf.parse_route_text(case['text'], 'announce')
                    if not rs:
                        res.violation(f'C18/accepted-then-refused:{case["field"]}', f'text accepted under one neighbor is refused under session {key}', dict(wit, session=key), cls)
                        ok = False
                        break
                    raws = []
                    for x in rs:
                        x = snb.resolve_self(x)
                        raws += list(UpdateCollection([RoutedNLRI(x.nlri, x.nexthop)], [], x.attributes).messages(sneg))
                except Exception as e:  # noqa
                    res.violation(f'C18/encode-raises:{case["field"]}:{type(e).__name__}', f'accepted definition cannot be encoded under {key}: {type(e).__name__}: {str(e)[:120]}', dict(wit, session=key), cls)
                    ok = False
                    break
                if case['intent'] is None:
                    continue
                s = {'ibgp': k['ibgp'], 'local_as': k['las'], 'asn4': sref['asn4'], 'local_addr': '127.0.0.1', 'addpath_send': sref['addpath_send']}
                decs = []
                for raw in raws:
                    try:
                        decs.append(rw.dec_update(raw[19:], rw.sess(asn4=sref['asn4'], addpath=sref['addpath_send'])))
                    except rw.RefError as e:
                        decs.append({'error': str(e)})
                if not raws:
                    res.violation(f'C18/accepted-but-nothing-sent:{case["field"]}:{case["pos"] if case["field"] != "grammar" else "grammar"}', f'accepted definition produces no UPDATE under {key}', dict(wit, session=key), cls)
                    ok = False
                    if case['field'] == 'attribute-size':
                        continue  # the sessions which can hold it are still asked to send it as written
                    break
                exp = gt.expected_wire(case['intent'], s)
                sub = Result()
                c01.judge_route(sub, k, sref, case['intent'], exp, decs, surface, dict(wit, session=key))
                if sub.violations:
                    v = sub.violations[0]
                    res.violation(v['key'].replace('C01/', f'C18/not-as-written:{case["field"]}:'), v['what'], v['witness'], cls)
                    ok = False
                    break
            if ok:
                res.ok(cls, (case['field'], case['pos'], surface, 'accepted'))
                res.ok('encoded-under-all-sessions')
            elif case['field'] == 'attribute-size':
                res.ok('attribute-size:extended-sessions-judged')
        res.sample({'text': case['text'], 'legal': case['legal']}, limit=4)
    try:
        run_sequence(res, desc, mine)
    except Exception as e:  # noqa
        import traceback

        res.inconclusive.append('sequence part raised: ' + traceback.format_exc()[-500:])
    try:
        run_flow_vpls(res, desc)
    except Exception as e:  # noqa
        import traceback

        res.inconclusive.append('flow/vpls part raised: ' + traceback.format_exc()[-500:])
    return res


def finish(merged, tier, seed):
    fields = {c.split(':')[0] for c in merged['classes']}
    if not merged['classes'].get('daemon:definitions'):
        merged['inconclusive'].append('the daemon level judged no definition')
    need = {'sequence', 'flow-port', 'flow-action', 'vpls-base', 'vpls-endpoint', 'mask', 'as-path', 'med', 'local-preference', 'community', 'large-community', 'label', 'rd', 'structure', 'grammar', 'aggregator-asn', 'origin', 'path-information'}
    if not need <= fields:
        merged['inconclusive'].append(f'fields never judged: {sorted(need - fields)}')
