"""C05 - the session state machine only takes RFC 4271 transitions.

Lab: random schedules of connection events, messages (valid or not), EOF/RST, time passing, collisions, API
teardown and reload are played by the scripted remote speaker against the real Reactor/Peer under a virtual
clock. Recorded: every FSM.change(from,to) (wrapped from outside), every transport write labelled with the FSM
state at that moment, every Processes.up/down call, socket closure as seen by the remote.
"""

from __future__ import annotations

import random
import struct

from vlib import exa
from vlib import refwire as rw
from vlib import scen
from vlib.mon import Result

PROPERTY = 'C05'
LEVEL = 'exploration'
RULE = (
    'random schedules (up to 5 connection episodes) over {remote accepts/refuses our connect, remote connects to our '
    'listener (collision) in every state with router-id above/below ours, valid OPEN, bad OPEN, KEEPALIVE, UPDATE, '
    'NOTIFICATION, garbage header, out-of-order type, EOF, RST, silence around the 0.1 s read timeout and the hold '
    'timer, API teardown, reload same/changed, shutdown}; active, passive and active+listener configurations. '
    'distinct = distinct FSM traces; classes = (FSM state at injection) x (event kind)'
)
ASSUMPTIONS = [
    'refwire.fsm_allowed is the RFC 4271 8.2.2 relation with self-loops; Active->Idle and Idle->Connect included',
    'a transport is "closed" when the remote observes EOF/RST within 0.5 virtual seconds of the change to Idle',
    'one peer per scenario, so the FSM state at a write is the last state set by FSM.change',
]
MANIFEST = {
    'level': 'exploration',
    'technique': 'runtime monitoring of the real peer FSM under a virtual clock: online trace checker over FSM.change / transport write / API up-down events and remote-observed closes; connection cycles ended at every stage against the real exabgp process, up/down alternation judged on what its real helper process is told',
    'text': 'Seeded random schedules of connection/timer/fault events drive the real Peer; the recorded trace is checked '
    'against the RFC 4271 transition relation, the Established preconditions, no-UPDATE-outside-Established, '
    'close-on-leaving-connected-state and up/down alternation.',
    'note': 'only produced interleavings are judged; the (state x event) matrix reached is reported in the evidence',
}
SHARD_TIMEOUT = {'quick': 900, 'thorough': 3000}

BAD_MARKER = (b'\xff' * 5 + b'\x00' + b'\xff' * 10) + struct.pack('!HB', 19, 4)


def gen_case(r: random.Random, idx: int):
    mode = r.choice(['active', 'active', 'passive', 'both'])
    our_rid = r.choice(['10.0.0.1', '200.0.0.1'])
    H = r.choice([3, 6, 90, 0])  # 0: no hold timer, no periodic KEEPALIVE - the KEEPALIVE which confirms the OPEN is still owed
    cfg = {
        'las': 65000,
        'pas': 65001,
        'hold': H,
        'rid': our_rid,
        'families': [(1, 1)],
        'api': True,
        'listen': mode in ('passive', 'both'),
        'passive': mode == 'passive',
        'routes': r.choice([2, 2, 60]),
        'adjin': True,
    }
    peer_rid = r.choice(['10.0.0.2', '9.9.9.9', '250.1.1.1'])
    o = {'rid': peer_rid, 'hold': r.choice([H, 90, 3, 0])}
    steps = []
    kinds = []
    episodes = r.randrange(1, 5)
    for ep in range(episodes):
        # --- get a connection
        if mode == 'passive':
            steps.append(['connect'])
        elif mode == 'both' and r.random() < 0.4:
            steps.append(['connect'])
        else:
            if r.random() < 0.15:
                steps += [['policy', 'reset'], ['sleep', r.choice([0.3, 1.5])], ['policy', 'accept']]
                kinds.append('refuse')
            steps.append(['accept', 40.0])
        # --- progress to a state
        target = r.choice(['connected', 'opensent', 'openconfirm', 'established', 'established', 'opensent-refused'])
        if target == 'opensent-refused':
            # an OPEN the configuration cannot accept, then the KEEPALIVE a careless peer sends anyway
            bad = r.choice([{'asn': 65009}, {'hold': 1}, {'hold': 2}, {'rid': '0.0.0.0'}])
            steps += [['wait_msg', rw.OPEN, 5.0], ['open', dict(o, **bad)], ['sleep', r.choice([0.0, 0.05, 0.3])], ['ka'], ['sleep', 0.3]]
            kinds.append('opensent:refused-open+ka')
            target = 'opensent'
        elif target == 'opensent':
            steps.append(['wait_msg', rw.OPEN, 5.0])
        elif target == 'openconfirm':
            steps += [['wait_msg', rw.OPEN, 5.0], ['open', o], ['wait_msg', rw.KEEPALIVE, 5.0]]
        elif target == 'established':
            steps += [['establish', o], ['sleep', r.choice([0.05, 0.3, 1.0])]]
        # --- inject 1-3 events
        for _ in range(r.randrange(1, 4)):
            ev = r.choice(['open', 'badopen', 'ka', 'update', 'notification', 'garbage', 'refresh', 'eof', 'rst', 'silence-short', 'silence-read-timeout', 'silence-hold', 'collision', 'teardown', 'reload-same', 'reload-changed', 'split-message'])
            kinds.append(f'{target}:{ev}')
            steps.append(['mark', f'inject:{target}:{ev}'])
            if ev == 'open':
                steps.append(['open', o])
            elif ev == 'badopen':
                steps.append(['open', dict(o, **r.choice([{'asn': 65009}, {'hold': 1}, {'rid': '0.0.0.0'}]))])
            elif ev == 'ka':
                steps.append(['ka'])
            elif ev == 'update':
                steps.append(['send', scen.simple_update(r.randrange(100)).hex()])
            elif ev == 'notification':
                steps.append(['send', rw.notification(6, 2).hex()])
            elif ev == 'garbage':
                steps.append(['send', BAD_MARKER.hex()])
            elif ev == 'refresh':
                steps.append(['send', rw.message(rw.ROUTE_REFRESH, struct.pack('!HBB', 1, 0, 1)).hex()])
            elif ev == 'eof':
                steps.append(['eof'])
            elif ev == 'rst':
                steps.append(['rst'])
            elif ev == 'silence-short':
                steps.append(['sleep', 0.05])
            elif ev == 'silence-read-timeout':
                steps.append(['sleep', r.choice([0.09, 0.1, 0.15, 0.25])])
            elif ev == 'silence-hold':
                steps.append(['sleep', (min(H, 6) or 3) + r.choice([-0.5, 0.5, 1.5])])
            elif ev == 'collision':
                if cfg['listen']:
                    steps.append(['connect'])
                    if r.random() < 0.7:
                        steps.append(['wait_msg', rw.OPEN, 3.0])
                        if r.random() < 0.6:
                            steps += [['open', o], ['ka']]
                else:
                    steps.append(['sleep', 0.1])
            elif ev == 'teardown':
                steps.append(['api', f'peer 127.0.0.1 teardown {r.choice([2, 4, 6])}'])
            elif ev == 'reload-same':
                steps.append(['reload'])
            elif ev == 'reload-changed':
                steps.append(['reload', '@changed'])
            elif ev == 'split-message':
                m = scen.simple_update(7)
                k = r.randrange(1, len(m))
                steps.append(['sendseg', [m[:k].hex(), r.choice([0.05, 0.15, 0.3]), m[k:].hex(), 0]])
            steps.append(['sleep', r.choice([0.02, 0.12, 0.6])])
        steps.append(['sleep', r.choice([0.2, 1.0, 2.5])])
        if r.random() < 0.5:
            steps.append(['eof'])
            steps.append(['sleep', 0.3])
    if r.random() < 0.3:
        steps.append(['shutdown', 3.0])
        kinds.append('shutdown')
    steps.append(['sleep', 1.0])
    return {'config': cfg, 'steps': steps, 'kinds': kinds, 'mode': mode, 'vtimeout': 400.0, 'wall': 90.0, 'idx': idx}


def open_acceptable(msg: bytes, cfg) -> str | None:
    """None when the configuration accepts this OPEN, else the reason a speaker has to refuse it"""
    try:
        o = rw.dec_open(msg[19:])
    except rw.RefError as e:
        return f'undecodable {e}'
    if o['version'] != 4:
        return 'version'
    asn = o['asn']
    for code, val in o['caps']:
        if code == 65 and len(val) == 4:
            asn = struct.unpack('!L', val)[0]
    if asn != cfg.get('pas', 65001):
        return f'peer AS {asn}'
    if o['hold'] in (1, 2):
        return f'hold time {o["hold"]}'
    if o['rid'] in ('0.0.0.0',):
        return 'identifier 0.0.0.0'
    return None


def resolve_reload(case):
    """'@changed' -> a configuration text with a changed neighbor parameter (forces re-establishment)"""
    # the lab child writes the text given in the step; build it lazily from the config with another hold time
    out = []
    for st in case['steps']:
        if st[0] == 'reload' and len(st) > 1 and st[1] == '@changed':
            out.append(['reload', '@changed'])
        else:
            out.append(st)
    return out


def two_neighbor_text(which: tuple) -> str:
    """a configuration file with one process and the neighbors named in `which` ('a': 127.0.0.1 on @PORT@, 'b': 127.0.0.2 on @PORT2@)"""
    out = 'process helper {\n    run /bin/true;\n    encoder json;\n}\n'
    for name, peer, port, rid in (('a', '127.0.0.1', '@PORT@', '10.0.0.1'), ('b', '127.0.0.2', '@PORT2@', '10.0.0.1')):
        if name not in which:
            continue
        out += exa.neighbor_text(peer=peer, local='127.0.0.1', rid=rid, las=65000, pas=65001 if name == 'a' else 65002, hold=90, families=[(1, 1)],
                                 extra=f'    connect {port};\n    passive false;\n    adj-rib-out true;\n',
                                 body=f'    static {{\n        route 10.{1 if name == "a" else 2}.0.0/24 next-hop 192.0.2.1;\n    }}\n    api for-{name} {{\n        processes [ helper ];\n        neighbor-changes;\n    }}\n')
    return out


def two_neighbor_cases(r: random.Random, n: int) -> list:
    """two neighbors; reloads which remove one of them, put it back, change it - the other one must not notice, and the API
    must see up / down alternate for each of them"""
    out = []
    for i in range(n):
        steps = [['accept', 40.0, 0], ['establish'], ['accept', 40.0, 1], ['establish', {'asn': 65002}], ['wait_quiet', 1.0, 20.0]]
        present = {'a', 'b'}
        for _ in range(r.randrange(2, 5)):
            victim = r.choice(['a', 'b'])
            if victim in present and len(present) == 2:
                present.discard(victim)
                steps += [['mark', f'remove-{victim}'], ['reload', two_neighbor_text(tuple(sorted(present)))], ['sleep', r.choice([0.5, 1.5])], ['wait_quiet', 1.0, 20.0]]
            elif victim not in present:
                present.add(victim)
                steps += [['mark', f'readd-{victim}'], ['reload', two_neighbor_text(tuple(sorted(present)))], ['accept', 40.0, 0 if victim == 'a' else 1], ['establish', {'asn': 65001 if victim == 'a' else 65002}], ['wait_quiet', 1.0, 20.0]]
            else:
                steps += [['mark', 'reload-same'], ['reload'], ['sleep', 0.5]]
        steps += [['sleep', 1.0], ['mark', 'end']]
        out.append({'kind2': 'two-neighbors', 'config': {'hold': 90, 'families': [(1, 1)]}, 'config_text': two_neighbor_text(('a', 'b')), 'extra_listeners': 1, 'steps': steps, 'kinds': ['two-neighbors'], 'mode': 'active', 'vtimeout': 400.0, 'wall': 120.0, 'idx': 9000 + i})
    return out


def judge_two(res: Result, case, rec):
    """per neighbor: RFC transitions only, and on the API every up is followed by a down before the next up"""
    wit = {'steps': [[x if not isinstance(x, str) or len(x) < 80 else x[:80] + '...' for x in st] for st in case['steps']], 'notes': rec['notes']}
    if any(n_[1] in ('no-connection', 'not-established') for n_ in rec['notes']) or not any(e['kind'] == 'mark' and e.get('name') == 'end' for e in rec['events']):
        res.count('two-neighbors:scenario-did-not-complete')
        return
    state, up = {}, {}
    ok = True
    for e in rec['events']:
        if e['kind'] == 'fsm':
            pid = e['pid']
            if state.get(pid, e['src']) != e['src']:
                res.violation('C05/trace-discontinuity', f'FSM.change from {e["src"]} but this peer was in {state.get(pid)}', dict(wit, event=e), 'two-neighbors')
                ok = False
            if not rw.fsm_allowed(e['src'], e['dst']):
                res.violation(f'C05/transition:{e["src"]}->{e["dst"]}', f'transition {e["src"]}->{e["dst"]} is not in the RFC 4271 relation', dict(wit, event=e), 'two-neighbors')
                ok = False
            state[pid] = e['dst']
        elif e['kind'] == 'api-up':
            if up.get(e['peer']):
                res.violation('C05/up-without-down', f'API "up" for a neighbor that is already up (no "down" in between): {e["peer"][:40]}', dict(wit, event=e, api=[(x['kind'], x['peer'][:22], x['t']) for x in rec['events'] if x['kind'] in ('api-up', 'api-down')]), 'two-neighbors')
                ok = False
            up[e['peer']] = True
        elif e['kind'] == 'api-down':
            up[e['peer']] = False
        elif e['kind'] == 'reactor-crash':
            res.violation('C05/reactor-crash', 'the reactor main loop crashed: ' + e.get('error', ''), wit, 'two-neighbors')
            ok = False
    if ok:
        res.ok('two-neighbors', ('two', tuple(st[1] for st in case['steps'] if st[0] == 'mark')))


def plan(tier, seed):
    n = 16 if tier == 'quick' else 48
    per = 7 if tier == 'quick' else 60
    return [{'shard': i, 'cases': per} for i in range(n)] + [{'shard': 900 + i, 'daemon': True, 'part': i, 'cycles': 10 if tier == 'quick' else 40} for i in range(4 if tier == 'quick' else 8)]


def judge(res: Result, case, rec):
    wit = {'steps': case['steps'], 'config': case['config'], 'mode': case['mode'], 'notes': rec['notes']}
    ev = rec['events']
    state = 'IDLE'
    trace = []
    inj_state = {}
    ok = True
    up = False
    est_count = 0
    written_open = False
    # (f) a session is only left for a reason: since it was established, something other than valid traffic must have happened
    BENIGN = {'ka', 'update', 'refresh', 'silence-short', 'silence-read-timeout', 'split-message'}
    cause = True
    sticky = False
    est_at = None
    hold = min(case['config'].get('hold', 90), min([st[1].get('hold', 90) for st in case['steps'] if st[0] in ('open', 'establish') and len(st) > 1 and isinstance(st[1], dict)] or [90]))
    for e in ev:
        k = e['kind']
        if k == 'step' and e.get('op') in ('eof', 'rst', 'api', 'reload', 'reload_changed', 'shutdown', 'connect', 'policy', 'open'):
            cause = True
        if k == 'step' and e.get('op') in ('api', 'reload', 'reload_changed', 'shutdown'):
            sticky = True  # a teardown / re-establishment which was asked for may be carried out later, on the next session too
        if k == 'mark' and e.get('name', '').startswith('inject:') and e['name'].split(':')[2] not in BENIGN:
            cause = True
        if k == 'mark' and e.get('name', '').endswith(':ka') and hold == 0:
            cause = True  # RFC 4271 4.4: with a hold time of zero KEEPALIVEs MUST NOT be sent; ExaBGP ends such a session (2/6) on purpose
        if k == 'fsm' and e['dst'] == 'ESTABLISHED':
            cause, est_at = False, e['t']
        if k == 'fsm' and e['src'] == 'ESTABLISHED' and est_at is not None:
            t = e['t']
            last_tx = max([tt for s_ in rec['sessions'] for tt, ln, ty in s_['tx'] if tt <= t] or [0.0])
            expired = hold > 0 and t - last_tx > hold - 0.01
            if sticky:
                cause, sticky = True, False
            if not cause and not expired:
                heard = sorted({ty for s_ in rec['sessions'] for tt, ln, ty in s_['tx'] if est_at - 0.001 <= tt <= t})
                res.violation('C05/left-established-without-cause', f'ESTABLISHED left {t - est_at:.3f}s after it was reached although the peer only sent valid messages (types {heard}), the last one {t - last_tx:.3f}s before (hold time {hold}), and nobody asked for it', dict(wit, event=e, trace=trace[-8:]), 'no-spontaneous-loss')
                ok = False
            else:
                res.ok('no-spontaneous-loss')
            est_at = None
        if k == 'fsm':
            src, dst = e['src'], e['dst']
            trace.append(f'{src[:5]}>{dst[:5]}')
            if src != state:
                res.violation('C05/trace-discontinuity', f'FSM.change from {src} but previous state was {state}', dict(wit, event=e), 'transition')
                ok = False
            if not rw.fsm_allowed(src, dst):
                res.violation(f'C05/transition:{src}->{dst}', f'transition {src}->{dst} is not in the RFC 4271 relation', dict(wit, event=e, trace=trace[-8:]), 'transition')
                ok = False
            else:
                res.ok(f'transition:{src}->{dst}')
            if dst in ('OPENCONFIRM', 'ESTABLISHED'):
                # "receiving and validating the peer OPEN": the OPEN which opened the exchange on a connection alive now
                # must be one the configuration accepts (reference reading of RFC 4271 6.2: version, peer AS, hold time, identifier)
                t = e['t']
                verdicts = []
                for s in rec['sessions']:
                    alive = (s['eof_at'] is None or s['eof_at'] >= t - 0.001) and (s.get('closed_local_at') is None or s['closed_local_at'] >= t - 0.001)
                    opens = [h for tt, h in s.get('tx_opens', []) if tt <= t + 0.001]
                    if alive and opens:
                        verdicts.append(open_acceptable(bytes.fromhex(opens[0]), case['config']))
                if verdicts and not any(v is None for v in verdicts):
                    res.violation(f'C05/advanced-on-refusable-open:{dst}', f'{src}->{dst} although the only peer OPEN on a live connection must be refused ({verdicts[0]})', dict(wit, event=e, trace=trace[-8:]), 'open-validated')
                    ok = False
                elif verdicts:
                    res.ok('open-validated')
            if dst == 'ESTABLISHED':
                est_count += 1
                t = e['t']
                # preconditions on some remote session: our OPEN received by the remote, remote sent OPEN then KEEPALIVE
                good = False
                for s in rec['sessions']:
                    got_open = any(m[1] == rw.OPEN and m[0] <= t + 0.001 for m in s['rx'])
                    sent = [(tt, ty) for tt, ln, ty in s['tx'] if tt <= t + 0.001]
                    o_at = [tt for tt, ty in sent if ty == rw.OPEN]
                    k_at = [tt for tt, ty in sent if ty == rw.KEEPALIVE]
                    alive = (s['eof_at'] is None or s['eof_at'] >= t - 0.001) and (s.get('closed_local_at') is None or s['closed_local_at'] >= t - 0.001)
                    if got_open and o_at and k_at and max(k_at) >= min(o_at) and alive:
                        good = True
                if not good:
                    res.violation('C05/established-without-handshake', 'ESTABLISHED reached without OPEN sent + peer OPEN + KEEPALIVE on one live connection', dict(wit, event=e), 'established-pre')
                    ok = False
                else:
                    res.ok('established-pre')
            if dst == 'IDLE' and src in ('CONNECT', 'OPENSENT', 'OPENCONFIRM', 'ESTABLISHED'):
                t = e['t']
                # every connection the remote had with exabgp before t must be closed shortly after
                for s in rec['sessions']:
                    created = [x['t'] for x in ev if x['kind'] == 'remote-connected' and x['session'] == s['id']][0]
                    if created > t - 0.3:
                        continue
                    if s.get('closed_local_at') is not None and s['closed_local_at'] <= t + 0.5:
                        res.ok('close-on-idle')  # the remote closed it itself
                        continue
                    # only a connection exabgp actually used (it wrote an OPEN on it)
                    if not any(m[1] == rw.OPEN and m[0] <= t for m in s['rx']):
                        continue
                    later_used = any(m[0] > t + 0.5 for m in s['rx'])
                    if s['eof_at'] is None or s['eof_at'] > t + 0.5:
                        # a second (collision) connection may legitimately survive: it must then be the one carrying the session on
                        if later_used or (s['eof_at'] is None and any(f['dst'] in ('OPENCONFIRM', 'ESTABLISHED') and f['t'] > t for f in ev if f['kind'] == 'fsm')):
                            res.count('idle-with-surviving-collision-connection')
                            continue
                        res.violation(f'C05/transport-open-after-idle:{src}', f'{src}->IDLE at {t} but connection {s["id"]} still open (eof {s["eof_at"]})', dict(wit, event=e), 'close-on-idle')
                        ok = False
                    else:
                        res.ok('close-on-idle')
            state = dst
        elif k == 'write':
            if e['mtype'] in (rw.UPDATE, rw.ROUTE_REFRESH) and state != 'ESTABLISHED':
                res.violation(f'C05/update-outside-established:{state}', f'message type {e["mtype"]} written in state {state}', dict(wit, event=e, trace=trace[-8:]), 'write-state')
                ok = False
            elif e['mtype'] in (rw.UPDATE, rw.ROUTE_REFRESH):
                res.ok('write-state')
        elif k == 'api-up':
            if up:
                res.violation('C05/up-without-down', 'API "up" for a neighbor that is already up (no "down" in between)', dict(wit, event=e, trace=trace[-10:]), 'updown')
                ok = False
            else:
                res.ok('updown')
            up = True
        elif k == 'api-down':
            if not up:
                res.count('down-without-up')  # a down before any up is not excluded by the statement
            up = False
        elif k == 'mark' and e.get('name', '').startswith('inject:'):
            _, target, kind = e['name'].split(':')
            res.count(f'cell:{state}:{kind}')
            inj_state[(state, kind)] = 1
        elif k == 'reactor-crash':
            res.violation('C05/reactor-crash', 'the reactor main loop crashed: ' + e.get('error', ''), wit, 'crash')
            ok = False
    if ok:
        res.ok('trace', '|'.join(trace))
        if 'opensent:refused-open+ka' in case['kinds']:
            res.ok('refused-open-not-advanced')
    res.extra.setdefault('cells', {})
    for (st, kind) in inj_state:
        res.extra['cells'][f'{st}:{kind}'] = res.extra['cells'].get(f'{st}:{kind}', 0) + 1
    res.extra['established_reached'] = res.extra.get('established_reached', 0) + est_count


def run_daemon(desc):
    """the REAL daemon with a real helper process listening to neighbor-changes: a scripted peer goes through N connections,
    each ended at a random stage (before its OPEN, after it, with a NOTIFICATION, after establishment by a close / a
    NOTIFICATION / a malformed header).  What the helper is told must alternate: an `up` only after the handshake was completed
    on that connection, exactly one `down` for every `up` before the next `up`, and nothing `up` at the end when the last
    connection was ended"""
    import json as _json
    import time

    from vlib import daemon, exa
    from vlib import refwire as rw
    from vlib.props.c10 import bad_marker, open_body

    res = Result()
    r = random.Random(desc['seed'] * 6700417 + desc['part'])
    text = 'process sink {\n    run @PY@ @DIR@/sink.py @DIR@/events;\n    encoder json;\n}\n' + exa.neighbor_text(families=[(1, 1), (2, 1)], extmsg=False, hold=90, extra='    api { processes [ sink ]; neighbor-changes; }')
    d = daemon.Daemon(text, env={'exabgp_log_level': 'ERROR'})
    plan_ = []
    peer = None
    try:
        d.start()
        good = open_body()
        for ci in range(desc['cycles']):
            end = r.choice(['close-before-open', 'close-after-our-open', 'notification-after-open', 'close-in-openconfirm', 'established-close', 'established-notification', 'established-bad-marker', 'established-close', 'established-notification'])
            peer = d.accept(timeout=60)
            established = False
            if end != 'close-before-open':
                t, body = peer.read_message(20)
                if t != 1:
                    raise daemon.Inconclusive(f'no OPEN from the daemon ({t})')
                if end == 'notification-after-open':
                    peer.conn.sendall(rw.notification(6, 2, b'bye'))
                elif end != 'close-after-our-open':
                    peer.conn.sendall(good)
                    t, body = peer.read_message(20)
                    if t != 4:
                        raise daemon.Inconclusive(f'no KEEPALIVE after the OPENs ({t})')
                    if end != 'close-in-openconfirm':
                        peer.send(4)
                        peer.drain(quiet=0.4, limit=5)
                        established = True
                        if end == 'established-notification':
                            peer.conn.sendall(rw.notification(6, 4))
                        elif end == 'established-bad-marker':
                            peer.conn.sendall(bad_marker())
                            peer.drain(quiet=0.3, limit=3)
            plan_.append((end, established))
            peer.close()
            peer = None
            time.sleep(0.3)
        time.sleep(1.5)
        lines = d.lines('events')
        log = d.tail(3000)
        alive = d.alive()
    except daemon.Inconclusive as e:
        daemon.skipped(res, str(e))
        return res
    finally:
        try:
            if peer is not None:
                peer.close()
        except Exception:  # noqa
            pass
        d.stop()
    wit = {'connections': plan_, 'level': 'daemon'}
    if not alive:
        res.violation('C05/daemon:process-exits', 'the daemon exited during the connection cycles', dict(wit, log=log[-1500:]), 'daemon')
        return res
    if 'exception.unhandled' in log or 'Traceback' in log:
        res.violation('C05/daemon:unhandled-exception', 'the daemon logged an unhandled exception: ' + log[log.find('Traceback') : log.find('Traceback') + 300], dict(wit, log=log[-2500:]), 'daemon')
        return res
    states = []
    for ln in lines:
        try:
            ev = _json.loads(ln)
        except ValueError:
            res.violation('C05/daemon:helper-line-not-json', f'not JSON: {ln[:160]}', wit, 'daemon')
            return res
        if ev.get('type') == 'state':
            states.append(ev['neighbor'].get('state'))
    wit['states'] = states
    ups = sum(1 for e, est in plan_ if est)
    up = False
    bad = False
    for i, st in enumerate(states):
        if st == 'up':
            if up:
                res.violation('C05/daemon:up-without-down', f'the helper was told "up" twice without a "down" in between (event {i})', wit, 'daemon')
                bad = True
                break
            up = True
        elif st == 'down':
            up = False
    if not bad and up:
        res.violation('C05/daemon:no-down-after-the-last-session', 'every connection was ended, the last state the helper was told is "up"', wit, 'daemon')
        bad = True
    n_up = states.count('up')
    if not bad and n_up > ups:
        res.violation('C05/daemon:up-without-handshake', f'{n_up} "up" events for {ups} completed handshakes', wit, 'daemon')
        bad = True
    if not bad and n_up < ups:
        res.violation('C05/daemon:established-session-not-reported', f'{ups} handshakes were completed (KEEPALIVE exchanged, End-of-RIB received), the helper was told "up" {n_up} times', wit, 'daemon')
        bad = True
    if not bad:
        res.ok('daemon:updown', ('daemon', tuple(e for e, _ in plan_)))
        for e, _ in plan_:
            res.ok('daemon:end:' + e)
    return res


def run_shard(desc):
    if desc.get('daemon'):
        return run_daemon(desc)
    res = Result()
    r = random.Random(desc['seed'] * 9973 + desc['shard'])
    for i in range(desc['cases']):
        case = gen_case(r, i)
        # reload with a changed neighbor: build the alternative text in the parent (hold time differs)
        steps = []
        for st in case['steps']:
            if st[0] == 'reload' and len(st) > 1 and st[1] == '@changed':
                steps.append(['reload_changed'])
            else:
                steps.append(st)
        case['steps'] = steps
        status, rec = run(case)
        if status != 'ok':
            res.inconclusive.append(f'case {desc["shard"]}/{i}: lab {status} {str(rec)[:300]}')
            continue
        judge(res, case, rec)
        if i < 2:
            res.sample({'mode': case['mode'], 'kinds': case['kinds'], 'trace': [f'{e["src"]}>{e["dst"]}' for e in rec['events'] if e['kind'] == 'fsm'][:14]}, limit=3)
    # two neighbors in one file, one of them removed / put back by reloads
    if desc['shard'] % 4 == 0:
        for case in two_neighbor_cases(r, 2 if desc.get('tier') == 'quick' else 8):
            status, rec = run(case)
            if status != 'ok':
                res.count('two-neighbors:lab-' + status)
                continue
            judge_two(res, case, rec)
    return res


def run(case):
    return scen.run_case(case)


def finish(merged, tier, seed):
    cells = merged['extra'].get('cells', {})
    states = {c.split(':')[0] for c in cells}
    merged['extra']['cells_hit'] = len(cells)
    merged['extra']['states_at_injection'] = sorted(states)
    need = {'OPENSENT', 'OPENCONFIRM', 'ESTABLISHED', 'IDLE'}
    if not need <= states:
        merged['inconclusive'].append(f'states never injected into: {sorted(need - states)}')
    if not merged['extra'].get('established_reached'):
        merged['inconclusive'].append('ESTABLISHED never reached')


_REQ = ['established-pre', 'open-validated', 'refused-open-not-advanced', 'close-on-idle', 'write-state', 'updown', 'trace', 'daemon:updown']
REQUIRED_CLASSES = {'quick': _REQ, 'thorough': _REQ}
