"""C01 - sent UPDATEs say exactly what the operator asked for.

Generated (route text, session) pairs go through the production send path: real configuration parser (static block)
or real API route parser -> neighbor.resolve_self -> OutgoingRIB -> updates() -> UpdateCollection.messages(negotiated).
The emitted bytes are decoded by refwire under session parameters computed by refwire.negotiate from the two OPENs
(not read from ExaBGP's Negotiated) and compared with the intended meaning drawn with the text, completed with the
RFC defaults the statement lists.
"""

from __future__ import annotations

import copy
import json
import random

from vlib import exa, gen_text as gt, norm
from vlib import refwire as rw
from vlib.mon import Result

PROPERTY = 'C01'
LEVEL = 'exploration'
RULE = (
    'route text from a documentation-derived grammar (prefix x mask x path-id x labels x rd x next hop incl. self x every '
    'attribute keyword with boundary values) on both text surfaces (configuration static block, API announce route) x '
    'session kinds {iBGP,eBGP} x {2,4-byte local AS} x {peer ASN4 yes/no} x {ADD-PATH send negotiated or not} x {4096, '
    '65535}. distinct = distinct (session kind, family, attribute keyword set, surface) signatures'
)
ASSUMPTIONS = [
    'an explicit as-path is sent as written (ExaBGP does not prepend the local AS to an operator-given path), the default applies only when no as-path is given',
    'local-preference given on an eBGP session is not sent (statement: no LOCAL_PREF at all on eBGP)',
    'a route without path-information on an ADD-PATH session carries path identifier 0',
    'labeled and VPN routes may also carry a NEXT_HOP attribute next to MP_REACH_NLRI (harmless, not compared)',
]
MANIFEST = {
    'level': 'exploration',
    'technique': 'runtime differential monitor: production text -> RIB -> UPDATE bytes path vs the intent drawn with the text, decoded by an independent RFC codec under independently negotiated session parameters; a sample of the same workload over the real daemon process (configuration routes and routes announced by a real helper process, observed on the TCP connection of a scripted peer)',
    'text': 'Seeded (route text, session) pairs through the real parser and encoder; every emitted UPDATE is decoded by the reference '
    'and compared with the intended prefixes, path ids, labels, RDs, next hop and attribute values plus the RFC defaults.',
    'note': 'trusted base: refwire decoder + negotiate, gen_text grammar/intent; IP families only (unicast, labeled, vpn)',
}
SHARD_TIMEOUT = {'quick': 400, 'thorough': 2400}

FAMS = [(1, 1), (2, 1), (1, 4), (2, 4), (1, 128), (2, 128)]
KIND = {1: 'unicast', 4: 'label', 128: 'vpn'}


def session_kinds():
    out = []
    for ibgp in (False, True):
        for las in (65000, 4200000001):
            for peer_asn4 in (True, False):
                for ap in (0, 3):
                    for ext in (False, True):
                        if not peer_asn4 and ibgp and las > 65535:
                            continue  # an iBGP peer of a 4-byte AS necessarily speaks ASN4
                        out.append({'ibgp': ibgp, 'las': las, 'peer_asn4': peer_asn4, 'addpath': ap, 'extmsg': ext})
    # RFC 8950: IPv4 families with an IPv6 next hop, on sessions which negotiated the extended next hop capability
    for ibgp, las, peer_asn4, ap in ((False, 65000, True, 0), (True, 65000, True, 3), (False, 4200000001, True, 3), (False, 65000, False, 0)):
        out.append({'ibgp': ibgp, 'las': las, 'peer_asn4': peer_asn4, 'addpath': ap, 'extmsg': False, 'enh': True})
    return out


def sname(k):
    return f'{"ibgp" if k["ibgp"] else "ebgp"}/{"las4" if k["las"] > 65535 else "las2"}/{"p4" if k["peer_asn4"] else "p2"}/{"ap" if k["addpath"] else "noap"}/{"ext" if k["extmsg"] else "std"}' + ('/enh' if k.get('enh') else '')


ENH = [(1, 1, 2), (1, 4, 2), (1, 128, 2)]  # (afi, safi, next hop afi)


def plan(tier, seed):
    n = 16 if tier == 'quick' else 64
    out = [{'shard': i, 'configs': 48 if tier == 'quick' else 300, 'routes': 14} for i in range(n)]
    out += [{'shard': 900 + i, 'daemon': True, 'part': i, 'configs': 3 if tier == 'quick' else 10, 'routes': 24} for i in range(4 if tier == 'quick' else 12)]
    return out


def build(k, routes_text, local='127.0.0.1'):
    pas = k['las'] if k['ibgp'] else (65009 if k['peer_asn4'] or True else 65009)
    text = exa.neighbor_text(
        local=local,
        las=k['las'],
        pas=pas,
        families=FAMS,
        asn4=True,
        addpath=k['addpath'],
        addpath_families=FAMS if k['addpath'] else None,
        extmsg=k['extmsg'],
        nexthop=ENH if k.get('enh') else (),
        body='    static {\n' + ''.join(f'        {t};\n' for t in routes_text) + '    }\n',
        extra='    adj-rib-out true;',
    )
    conf = exa.load_config(text)
    nb = list(conf.neighbors.values())[0]
    caps = [rw.cap_mp(a, s) for a, s in FAMS]
    if k['peer_asn4']:
        caps.append(rw.cap_asn4(pas))
    if k['addpath']:
        caps.append(rw.cap_addpath([(a, s, 3) for a, s in FAMS]))
    if k['extmsg']:
        caps.append((rw.CAP_EXTMSG, b''))
    if k.get('enh'):
        caps.append(rw.cap_nexthop(ENH))
    caps.append((rw.CAP_REFRESH, b''))
    peer_body = rw.enc_open_body(pas if pas < 65536 else rw.AS_TRANS, 90, '10.0.0.2', caps)
    neg, sent, ours_raw = exa.negotiate(nb, peer_body)
    ref = rw.negotiate(rw.dec_open(ours_raw[19:]), rw.dec_open(peer_body))
    return conf, nb, neg, ref, text


def observed_updates(nb, neg, ref, route_objs=None):
    """-> list of refwire-decoded UPDATEs emitted for the neighbor's routes"""
    if route_objs is None:
        nb.rib.outgoing.replace_restart([], nb.routes)  # what Peer._main does with the configured routes
    else:
        for route in route_objs:  # what the API announce command does (configuration.announce_route)
            nb.rib.outgoing.add_to_rib(route)
    s = rw.sess(asn4=ref['asn4'], addpath=ref['addpath_send'])
    out = []
    for upd in nb.rib.outgoing.updates(nb.group_updates):
        for raw in upd.messages(neg, False):
            msgs, fault, rest = rw.frame(raw, ref['msg_size'])
            if fault or rest or len(msgs) != 1 or msgs[0][0] != rw.UPDATE:
                out.append({'error': f'not one well framed UPDATE within {ref["msg_size"]}: {raw[:40].hex()} len {len(raw)}'})
                continue
            try:
                out.append(rw.dec_update(msgs[0][1], s))
            except rw.RefError as e:
                out.append({'error': f'reference cannot decode: {e}', 'raw': raw.hex()[:400]})
    return out


def attrs_of(dec) -> dict:
    """refwire decoded update -> canonical attribute dict in the vlib.norm vocabulary"""
    a = dec['attrs']
    o: dict = {}
    if rw.ORIGIN in a:
        o['origin'] = a[rw.ORIGIN]
    if dec['as_path'] is not None:
        o['as_path'] = dec['as_path']
    if rw.MED in a:
        o['med'] = a[rw.MED]
    if rw.LOCAL_PREF in a:
        o['local_pref'] = a[rw.LOCAL_PREF]
    if rw.ATOMIC_AGGREGATE in a:
        o['atomic'] = True
    if rw.AGGREGATOR in a:
        agg = a[rw.AGGREGATOR]
        if rw.AS4_AGGREGATOR in a and agg[0] == rw.AS_TRANS:
            agg = a[rw.AS4_AGGREGATOR]
        o['aggregator'] = tuple(agg)
    if rw.COMMUNITY in a:
        o['communities'] = sorted(tuple(x) for x in a[rw.COMMUNITY])
    if rw.ORIGINATOR_ID in a:
        o['originator'] = a[rw.ORIGINATOR_ID]
    if rw.CLUSTER_LIST in a:
        o['cluster_list'] = a[rw.CLUSTER_LIST]
    if rw.EXT_COMMUNITY in a:
        o['ext_communities'] = sorted(a[rw.EXT_COMMUNITY])
    if rw.LARGE_COMMUNITY in a:
        o['large_communities'] = sorted(tuple(x) for x in a[rw.LARGE_COMMUNITY])
    unk = [(c, v.hex()) for c, (f, v) in dec['raw'].items() if c not in rw.ATTR_FLAGS]
    if unk:
        o['unknown'] = sorted(unk)
    return o


def flag_problems(dec):
    bad = []
    for code, (flags, v) in dec['raw'].items():
        want = rw.ATTR_FLAGS.get(code)
        if want is not None and (flags & 0xC0) != (want & 0xC0):
            bad.append((code, flags))
    return bad


def judge_route(res, k, ref, intent, exp, decs, surface, wit):
    """find the UPDATE announcing this route and compare"""
    key = rw.nlri_key(exp['nlri'])
    hits = [(d, n, h) for d in decs if 'error' not in d for n, h in d['announce'] if rw.nlri_key(n) == key]
    fam = (intent['afi'], intent['safi'])
    cls = f'{sname(k)}:{fam[0]}/{fam[1]}'
    if not hits:
        near = [rw.nlri_key(n) for d in decs if 'error' not in d for n, h in d['announce'] if n['prefix'] == exp['nlri']['prefix']]
        if near:
            diff = [i for i in range(6) if near[0][i] != key[i]]
            field = ['afi', 'safi', 'path-id', 'labels', 'rd', 'prefix'][diff[0]] if diff else '?'
            res.violation(f'C01/nlri-differs:{field}:safi{fam[1]}', f'route sent as {near[0]}, asked {key}', dict(wit, sent=near[:2], asked=list(key)), cls)
        else:
            res.violation(f'C01/route-not-sent:safi{fam[1]}', f'no UPDATE announces {key}', dict(wit, asked=list(key)), cls)
        return
    if len(hits) > 1:
        res.count('route-sent-more-than-once')
    d, n, hops = hits[0]
    if not hops or hops[0] != exp['nexthop']:
        res.violation(f'C01/nexthop:{"self" if intent["nexthop"] == "self" else "explicit"}:safi{fam[1]}', f'next hop on the wire {hops}, asked {exp["nexthop"]}', dict(wit, wire=hops), cls)
        return
    got = attrs_of(d)
    want = exp['attrs']
    for name in ('communities', 'ext_communities', 'large_communities'):
        if name in got:
            got[name] = sorted(set(got[name]))  # a value written twice in the text is sent twice: same meaning
    if want.get('as_path') == '*empty-or-default*':
        default = [] if k['ibgp'] else [(2, [k['las']])]
        want = dict(want, as_path=got.get('as_path') if got.get('as_path') in ([], default) else default)
    for name in sorted(set(got) | set(want)):
        if got.get(name) != want.get(name):
            sub = ''
            if name == 'as_path':
                sub = ':default' if 'as_path' not in intent['attrs'] else ':explicit'
                sub += ':las4' if k['las'] > 65535 else ':las2'
                sub += ':p4' if k['peer_asn4'] else ':p2'
            if name == 'local_pref':
                sub = ':ibgp' if k['ibgp'] else ':ebgp'
                sub += ':default' if 'local_pref' not in intent['attrs'] else ':explicit'
            res.violation(f'C01/attribute:{name}{sub}', f'{name} on the wire {got.get(name)!r}, asked/default {want.get(name)!r}', dict(wit, wire_attrs=got, expected_attrs=want), cls)
            return
    fl = flag_problems(d)
    if fl:
        res.violation(f'C01/attribute-flags:{fl[0][0]}', f'attribute {fl[0][0]} sent with flags 0x{fl[0][1]:02x}', wit, cls)
        return
    # 2-byte peer: no AS above 65535 in AS_PATH itself
    if not ref['asn4'] and rw.AS_PATH in d['attrs'] and any(x > 65535 for t, xs in d['attrs'][rw.AS_PATH] for x in xs):
        res.violation('C01/as4-in-2byte-aspath', 'a 4-byte AS number was sent in AS_PATH to a 2-byte peer', wit, cls)
        return
    res.ok(cls, (sname(k), fam, tuple(sorted(intent['attrs'])), surface))
    for name in intent['attrs']:
        res.ok('kw:' + name)
    res.ok('surface:' + surface)
    if intent['nexthop'] == 'self':
        res.ok('nexthop-self')
    for name in ('origin', 'as_path', 'local_pref'):
        if name not in intent['attrs']:
            res.ok(f'default:{name}:{"ibgp" if k["ibgp"] else "ebgp"}')


def peer_open_body(k):
    pas = k['las'] if k['ibgp'] else 65009
    caps = [rw.cap_mp(a, s) for a, s in FAMS]
    if k['peer_asn4']:
        caps.append(rw.cap_asn4(pas))
    if k['addpath']:
        caps.append(rw.cap_addpath([(a, s, 3) for a, s in FAMS]))
    if k['extmsg']:
        caps.append((rw.CAP_EXTMSG, b''))
    if k.get('enh'):
        caps.append(rw.cap_nexthop(ENH))
    caps.append((rw.CAP_REFRESH, b''))
    return pas, rw.enc_open_body(pas if pas < 65536 else rw.AS_TRANS, 90, '10.0.0.2', caps)


def run_daemon(desc):
    """the same oracle over the REAL daemon: routes of a configuration file and routes announced by a real helper process on
    the API pipe, observed as octets on the TCP connection of a scripted peer"""
    from vlib import daemon

    res = Result()
    r = random.Random(desc['seed'] * 49979687 + desc['part'])
    kinds = session_kinds()
    for ci in range(desc['configs']):
        k = kinds[(ci * 5 + desc['part'] * 3 + desc['seed']) % len(kinds)]
        routes = []
        for _ in range(desc['routes']):
            afi, safi = r.choice(FAMS)
            v6nh = k.get('enh') and afi == 1 and r.random() < 0.5
            text, intent = gt.gen_route(r, afi, KIND[safi], rich=0.55, with_pathid=r.random() < 0.4, allow_self=(afi == 1) and not v6nh, nexthop_pool=['2001:db8::ff', '2001:db8:1::1'] if v6nh else None)
            routes.append((text, intent))
        seen = {}
        for t, i in routes:
            seen.setdefault(i['prefix'], (t, i))
        routes = list(seen.values())
        half = len(routes) // 2
        static, api = routes[:half], routes[half:]
        pas, peer_body = peer_open_body(k)
        text = 'process player {\n    run @PY@ @DIR@/player.py @DIR@/script @DIR@/replies;\n    encoder text;\n}\n' + exa.neighbor_text(
            las=k['las'],
            pas=pas,
            families=FAMS,
            asn4=True,
            addpath=k['addpath'],
            addpath_families=FAMS if k['addpath'] else None,
            extmsg=k['extmsg'],
            nexthop=ENH if k.get('enh') else (),
            body='    static {\n' + ''.join(f'        {t};\n' for t, _ in static) + '    }\n',
            extra='    adj-rib-out true;\n    api { processes [ player ]; }',
        )
        v4 = (ci + desc['part']) % 2 == 0  # the legacy syntax (exabgp.api.version 4) and the default one
        script = '#sleep 1.0\n' + ''.join((f'announce {t}\n' if v4 else f'peer * announce {t}\n') for t, _ in api)
        # a second neighbor with its own local address takes the same API commands: 'next-hop self' is per neighbor
        two = ci % 2 == 0
        if two:
            text += exa.neighbor_text(
                peer='127.0.0.3',
                local='127.0.0.9',
                las=k['las'],
                pas=pas,
                families=FAMS,
                asn4=True,
                addpath=k['addpath'],
                addpath_families=FAMS if k['addpath'] else None,
                extmsg=k['extmsg'],
                nexthop=ENH if k.get('enh') else (),
                extra='    adj-rib-out true;\n    api { processes [ player ]; }',
            )
            script = '#wait both\n' + script
        d = daemon.Daemon(text, files={'script': script}, env={'exabgp_api_version': '4'} if v4 else None, more_addrs=('127.0.0.3',) if two else ())
        wit0 = {'session': sname(k), 'config': text, 'script': script}
        try:
            d.start()
            peer = d.accept()
            peer.establish(pas, peer_body=peer_body)
            ref = rw.negotiate(rw.dec_open(peer.open_body), rw.dec_open(peer_body))
            peer2 = None
            msgs2 = []
            if two:
                peer2 = d.accept(addr='127.0.0.3')
                peer2.establish(pas, peer_body=peer_body)
                d.release('both')
            d.wait_lines('replies', lambda ls: any(x.startswith('["end"') for x in ls), timeout=60)
            msgs = peer.drain(quiet=1.0, limit=30)
            if two:
                msgs2 = peer2.drain(quiet=1.0, limit=30)
            replies = [json.loads(x) for x in d.lines('replies')]
        except daemon.Inconclusive as e:
            daemon.skipped(res, str(e))
            continue
        finally:
            for p_ in (locals().get('peer'), locals().get('peer2')):
                try:
                    if p_ is not None:
                        p_.close()
                except Exception:  # noqa
                    pass
            d.stop()
        refused = [replies[i - 1][1] for i, x in enumerate(replies) if x[0] == 'got' and ('error' in x[1]) and i and replies[i - 1][0] == 'sent']
        if refused or any(x[0] == 'timeout' for x in replies):
            res.violation('C01/daemon:api-refuses-legal-route', f'the daemon refused (or never answered) {len(refused)} RFC-legal API route(s): {refused[:1]}', dict(wit0, replies=replies[:60]), 'daemon')
            continue
        s = {'ibgp': k['ibgp'], 'local_as': k['las'], 'asn4': ref['asn4'], 'local_addr': '127.0.0.1', 'addpath_send': ref['addpath_send']}
        ws = rw.sess(asn4=ref['asn4'], addpath=ref['addpath_send'])
        decs = []
        bad = False
        for t, body in msgs:
            if t == 4:
                continue
            if t != 2:
                res.violation(f'C01/daemon:unexpected-message:{t}', f'message type {t} {body[:20].hex()} in the middle of the announcements', dict(wit0, log=d.tail() if False else ''), 'daemon')
                bad = True
                break
            if 19 + len(body) > ref['msg_size']:
                decs.append({'error': f'UPDATE of {19 + len(body)} octets on a session limited to {ref["msg_size"]}'})
                continue
            try:
                decs.append(rw.dec_update(body, ws))
            except rw.RefError as e:
                decs.append({'error': f'reference cannot decode: {e}', 'raw': body.hex()[:400]})
        if bad:
            continue
        for dd in decs:
            if 'error' in dd:
                res.violation('C01/undecodable-update', dd['error'], dict(wit0, raw=dd.get('raw', '')), 'daemon')
        for surface, rs in (('daemon-config', static), ('daemon-api', api)):
            for t, intent in rs:
                before = sum(v['count'] for v in res.violations)
                judge_route(res, k, ref, intent, gt.expected_wire(intent, s), decs, surface, {'session': sname(k), 'surface': surface, 'route': t, 'level': 'daemon'})
                if sum(v['count'] for v in res.violations) == before:
                    res.ok('surface:' + surface)
        if two:
            s2 = dict(s, local_addr='127.0.0.9')
            decs2 = []
            for t_, body in msgs2:
                if t_ != 2:
                    continue
                try:
                    decs2.append(rw.dec_update(body, ws))
                except rw.RefError as e:
                    decs2.append({'error': f'reference cannot decode: {e}', 'raw': body.hex()[:400]})
            for t, intent in api:
                before = sum(v['count'] for v in res.violations)
                judge_route(res, k, ref, intent, gt.expected_wire(intent, s2), decs2, 'daemon-api-second-neighbor', {'session': sname(k), 'surface': 'daemon-api-second-neighbor', 'route': t, 'level': 'daemon', 'local_address': '127.0.0.9'})
                if sum(v['count'] for v in res.violations) == before:
                    res.ok('surface:daemon-api-second-neighbor')
                    res.count('daemon-api-syntax:' + ('v4' if v4 else 'v6'))
    return res


def run_shard(desc):
    if desc.get('daemon'):
        return run_daemon(desc)
    res = Result()
    exa.quiet()
    r = random.Random(desc['seed'] * 1299709 + desc['shard'])
    kinds = session_kinds()
    for ci in range(desc['configs']):
        k = kinds[(ci * 7 + desc['shard']) % len(kinds)]
        routes = []
        for _ in range(desc['routes']):
            afi, safi = r.choice(FAMS)
            # (IPv6 /32 routes were left out until the NetMask fix; now included)
            v6nh = k.get('enh') and afi == 1 and r.random() < 0.5
            text, intent = gt.gen_route(r, afi, KIND[safi], rich=0.55, with_pathid=r.random() < 0.4, allow_self=(afi == 1) and not v6nh, nexthop_pool=['2001:db8::ff', '2001:db8:1::1'] if v6nh else None)
            if v6nh:
                res.count('ipv4-route-with-ipv6-nexthop')
            routes.append((text, intent))
        # siblings: same attributes, another prefix and another next hop, queued in the same batch - the next hop is
        # not part of the attribute text and a grouping which forgets it sends one route with the other's next hop
        for t, i in list(routes):
            if r.random() < 0.35 and i['nexthop'] != 'self':
                _, i2 = gt.gen_route(r, i['afi'], KIND[i['safi']], rich=0.0, with_pathid=False, allow_self=False)
                head = f'route {i["prefix"]} next-hop {i["nexthop"]}'
                bits = int(i2['prefix'].split('/')[1]) + 24 * len(i.get('labels', ())) + (64 if i.get('rd') else 0)
                if t.startswith(head) and i2['nexthop'] != i['nexthop'] and bits <= 255:  # the NLRI length octet counts bits
                    sib = copy.deepcopy(i)
                    sib['prefix'], sib['nexthop'] = i2['prefix'], i2['nexthop']
                    routes.append((f'route {i2["prefix"]} next-hop {i2["nexthop"]}' + t[len(head):], sib))
                    res.count('sibling-routes')
        # one route per prefix: a later definition of the same route replaces the earlier one by design,
        # and distinct prefixes keep the comparison unambiguous
        seen = {}
        for t, i in routes:
            seen.setdefault(i['prefix'], (t, i))
        routes = list(seen.values())
        surface = 'config' if ci % 3 else 'api'
        try:
            conf, nb, neg, ref, ctext = build(k, [t for t, _ in routes] if surface == 'config' else [])
        except exa.ConfigError as e:
            res.violation('C01/config-refused', f'configuration with RFC-legal routes refused: {str(e)[-160:]}', {'session': sname(k), 'routes': [t for t, _ in routes]}, 'config')
            continue
        except Exception as e:  # noqa
            res.violation(f'C01/setup-raises:{type(e).__name__}', f'{type(e).__name__}: {str(e)[:160]}', {'session': sname(k), 'routes': [t for t, _ in routes]}, 'config')
            continue
        s = {'ibgp': k['ibgp'], 'local_as': k['las'], 'asn4': ref['asn4'], 'local_addr': '127.0.0.1', 'addpath_send': ref['addpath_send']}
        route_objs = None
        if surface == 'api':
            # the API route parser (same as `announce route ...`): Configuration.parse_route_text + resolve_self
            route_objs = []
            kept = []
            for t, i in routes:
                try:
                    rs = conf.parse_route_text(t, 'announce')
                except Exception as e:  # noqa
                    res.violation(f'C01/api-parse-raises:{type(e).__name__}', f'API route text raised {type(e).__name__}: {str(e)[:100]}', {'text': t}, 'api')
                    continue
                if not rs:
                    res.violation('C01/api-refuses-legal-route', 'API parser refused an RFC-legal route', {'text': t, 'error': str(conf.error)[-200:]}, 'api')
                    continue
                route_objs += [nb.resolve_self(x) for x in rs]
                kept.append((t, i))
            routes = kept
        try:
            decs = observed_updates(nb, neg, ref, route_objs)
        except Exception as e:  # noqa
            res.violation(f'C01/encode-raises:{type(e).__name__}', f'generating the UPDATEs raised {type(e).__name__}: {str(e)[:160]}', {'session': sname(k), 'config': ctext, 'routes': [t for t, _ in routes]}, 'encode')
            continue
        for d in decs:
            if 'error' in d:
                res.violation('C01/undecodable-update', d['error'], {'session': sname(k), 'config': ctext, 'raw': d.get('raw', '')}, 'encode')
        for t, intent in routes:
            exp = gt.expected_wire(intent, s)
            wit = {'session': sname(k), 'surface': surface, 'route': t, 'negotiated_ref': {kk: (sorted(v) if isinstance(v, set) else v) for kk, v in ref.items()}}
            judge_route(res, k, ref, intent, exp, decs, surface, wit)
        if surface == 'config' and ci % 3 == 1:
            # the session is lost and comes back with another peer OPEN (the peer gained or lost the 4-byte AS capability):
            # the very same Route / attribute objects (kept in the Adj-RIB-Out) are packed again for the new session
            k2 = dict(k, peer_asn4=not k['peer_asn4'])
            if sname(k2) in {sname(x) for x in kinds}:
                try:
                    pas = k2['las'] if k2['ibgp'] else 65009
                    caps = [rw.cap_mp(a, s_) for a, s_ in FAMS] + ([rw.cap_asn4(pas)] if k2['peer_asn4'] else [])
                    if k2['addpath']:
                        caps.append(rw.cap_addpath([(a, s_, 3) for a, s_ in FAMS]))
                    if k2['extmsg']:
                        caps.append((rw.CAP_EXTMSG, b''))
                    caps.append((rw.CAP_REFRESH, b''))
                    peer_body = rw.enc_open_body(pas if pas < 65536 else rw.AS_TRANS, 90, '10.0.0.2', caps)
                    neg2, sent2, ours2 = exa.negotiate(nb, peer_body)
                    ref2 = rw.negotiate(rw.dec_open(ours2[19:]), rw.dec_open(peer_body))
                    nb.rib.outgoing.reset()
                    decs2 = observed_updates(nb, neg2, ref2, None)  # replace_restart: what Peer._main does on a new session
                except Exception as e:  # noqa
                    res.violation(f'C01/reconnect-raises:{type(e).__name__}', f'sending the routes again on a re-negotiated session raised {type(e).__name__}: {str(e)[:160]}', {'session': sname(k), 'then': sname(k2)}, 'encode')
                    continue
                s2 = {'ibgp': k2['ibgp'], 'local_as': k2['las'], 'asn4': ref2['asn4'], 'local_addr': '127.0.0.1', 'addpath_send': ref2['addpath_send']}
                for d in decs2:
                    if 'error' in d:
                        res.violation('C01/undecodable-update', d['error'], {'session': sname(k2), 'after': sname(k), 'raw': d.get('raw', '')}, 'encode')
                for t, intent in routes:
                    judge_route(res, k2, ref2, intent, gt.expected_wire(intent, s2), decs2, 'config-reconnect', {'session': sname(k2), 'surface': 'config-reconnect', 'first_session': sname(k), 'route': t})
                res.ok('surface:reconnect-other-capabilities')
            else:
                res.count('reconnect:no-valid-second-session-kind')
        if surface == 'api' and route_objs and ci % 2 == 0:
            # `announce route` hands the SAME parsed Route (and attribute set) to every neighbor the selector names
            # (Configuration.announce_route: resolve_self only copies for next-hop self). A second neighbor of another kind
            # (iBGP <-> eBGP, or another AS width) gets the very objects the first one already packed.
            k2 = dict(k, ibgp=not k['ibgp'])  # another peer AS: another neighbor name, its own Adj-RIB-Out
            if sname(k2) not in {sname(x) for x in kinds}:
                res.count('shared-route:no-valid-second-session-kind')
                continue
            try:
                conf1, nb1, neg1, ref1, _ = build(k, [])  # fresh Adj-RIB-Out caches: the routes were sent once above
                conf2, nb2, neg2, ref2, ctext2 = build(k2, [], local='127.0.0.9')  # its own local address: 'next-hop self' differs per neighbor
                from exabgp.rib import RIB

                if nb1.rib.outgoing is nb2.rib.outgoing:
                    res.inconclusive.append('two neighbors share one Adj-RIB-Out object in the harness')
                    continue
                nb1.rib.outgoing.clear_cache() if hasattr(nb1.rib.outgoing, 'clear_cache') else None
                shared = []
                for t, i in routes:
                    shared += conf1.parse_route_text(t, 'announce')
                both = {}
                order = [(nb1, neg1, ref1, k), (nb2, neg2, ref2, k2)]
                if ci % 8 >= 4:
                    order.reverse()
                for nbx, negx, refx, kx in order:
                    both[sname(kx)] = (observed_updates(nbx, negx, refx, [nbx.resolve_self(x) for x in shared]), refx, kx)
            except Exception as e:  # noqa
                res.violation(f'C01/shared-route-raises:{type(e).__name__}', f'announcing one route to two neighbors raised {type(e).__name__}: {str(e)[:160]}', {'sessions': [sname(k), sname(k2)], 'routes': [t for t, _ in routes]}, 'encode')
                continue
            for name, (decs2, refx, kx) in both.items():
                sx = {'ibgp': kx['ibgp'], 'local_as': kx['las'], 'asn4': refx['asn4'], 'local_addr': '127.0.0.9' if kx is k2 else '127.0.0.1', 'addpath_send': refx['addpath_send']}
                for d in decs2:
                    if 'error' in d:
                        res.violation('C01/undecodable-update', d['error'], {'session': name, 'shared_with': sorted(both), 'raw': d.get('raw', '')}, 'encode')
                for t, intent in routes:
                    wit = {'session': name, 'surface': 'api-shared', 'shared_with': sorted(both), 'flushed': [sname(o[3]) for o in order], 'route': t}
                    judge_route(res, kx, refx, intent, gt.expected_wire(intent, sx), decs2, 'api-shared', wit)
            res.ok('surface:api-shared-route')
        res.sample({'session': sname(k), 'surface': surface, 'route': routes[0][0] if routes else ''}, limit=3)
    return res


REQUIRED_CLASSES = {
    'quick': ['surface:config', 'surface:api', 'surface:daemon-config', 'surface:daemon-api', 'surface:daemon-api-second-neighbor', 'surface:api-shared-route', 'surface:reconnect-other-capabilities', 'nexthop-self', 'default:origin:ibgp', 'default:origin:ebgp', 'default:as_path:ibgp', 'default:as_path:ebgp', 'default:local_pref:ibgp', 'default:local_pref:ebgp']
    + ['kw:' + n for n in ('origin', 'as_path', 'med', 'local_pref', 'atomic', 'aggregator', 'communities', 'ext_communities', 'large_communities', 'originator', 'cluster_list', 'unknown')],
}
REQUIRED_CLASSES['thorough'] = REQUIRED_CLASSES['quick']
