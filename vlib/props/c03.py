"""C03 - no peer input can crash or wedge the speaker.

Every input is handed to the real Message.unpack(type, body, negotiated) and every lazy part is then forced
(Update.data, iteration of announces/withdraws, str/json/index of every NLRI and of the attribute collection).
Sensors: exception class escaping, step counter and stack-depth high-water mark (sys.monitoring).
Oracle: outcome in {decoded, Notify with an RFC-defined code}; RFC-valid but unusual inputs must decode;
steps bounded by K*(len+1) and scaling linearly with repetition; stack depth independent of repetition.
"""

from __future__ import annotations

import random
import struct
import traceback

from vlib import corpus, exa, gen_wire as gw, reach
from vlib import refwire as rw
from vlib.mon import Result

PROPERTY = 'C03'
LEVEL = 'exploration'
RULE = (
    'message bodies of every type: refwire-built valid messages, qa corpus seeds (all families), structure-aware mutations '
    'of both, random bodies, RFC-valid-but-unusual constructions (hundreds/thousands of unknown optional attributes, '
    'maximum-size messages, 255-ASN segments, maximal community lists, extended length everywhere), k-fold repetitions for '
    'the scaling law; negotiated sessions {asn4, 2-byte} x {add-path, none} x {extended next hop on/off}. distinct = '
    'distinct (type, class, session, outcome, innermost frame) signatures'
)
ASSUMPTIONS = [
    'a NOTIFICATION code is "defined" when code is 1..7 and the subcode is 0 or one RFC 4271/4486/7313/8538/9003 lists for that code',
    'time proportional to size is restated as: PY_START steps <= K*(len+1) with K = 50 x the worst per-byte cost seen on valid seeds, and steps(k)/steps(1) <= 3k for k-fold repetitions',
    'the hard step budget (2M function entries per message) turns a wedge into a recorded violation instead of a watchdog kill',
]
MANIFEST = {
    'level': 'exploration',
    'technique': 'runtime monitoring with sys.monitoring sensors (exception class, step counter, stack depth) over generated, mutated and adversarially repeated message bodies through the real decoders; hostile messages sent over TCP to the real daemon process: liveness, log and NOTIFICATION monitors',
    'text': 'Seeded structure-aware fuzzing of the real decoders with an outcome oracle (decoded or RFC-coded Notify), a must-decode '
    'oracle for RFC-valid unusual inputs and deterministic cost sensors (function-entry count, stack depth). Held means no '
    'other exception, no refusal of a valid message, no super-linear cost on what was generated.',
    'note': 'only inputs generated are judged; cost is measured in function entries, not wall time; trusted base: refwire encoder for the valid classes',
}
SHARD_TIMEOUT = {'quick': 400, 'thorough': 2400}

DEFINED = {
    1: {0, 1, 2, 3},
    2: {0, 1, 2, 3, 4, 5, 6, 7, 8, 11},
    3: {0, 1, 2, 3, 4, 5, 6, 7, 8, 9, 10, 11},
    4: {0},
    5: {0, 1, 2, 3},
    6: {0, 1, 2, 3, 4, 5, 6, 7, 8, 9, 10},
    7: {0, 1},
}
FAMS = ((1, 1), (2, 1), (1, 4), (2, 4), (1, 128), (2, 128))


def session_kinds():
    out = []
    for asn4 in (True, False):
        for ap in (0, 3):
            for nh in (False, True):
                out.append({'asn4': asn4, 'addpath': ap, 'nexthop': nh, 'name': f'{"asn4" if asn4 else "as2"}/{"ap" if ap else "noap"}/{"enh" if nh else "noenh"}'})
    # ADD-PATH negotiated one way only (we receive, the peer sends / we send, the peer receives)
    out.append({'asn4': True, 'addpath': 1, 'nexthop': False, 'name': 'asn4/ap-recv-only/noenh'})
    out.append({'asn4': True, 'addpath': 2, 'nexthop': False, 'name': 'asn4/ap-send-only/noenh'})
    return out


def expected_recv_addpath(sk) -> set:
    """path identifiers precede what we receive when we advertised receive and the mirrored peer send: from the
    configuration (1 receive, 3 both), not from ExaBGP's own negotiation"""
    return {(1, 1), (2, 1), (1, 4), (2, 4), (1, 128), (2, 128)} if sk['addpath'] in (1, 3) else set()


def build_session(sk):
    nb = corpus.all_families_neighbor(las=65000, pas=65001, asn4=True, addpath=sk['addpath'], adj_rib_in=True)
    if not sk['nexthop']:
        # same neighbor without the extended next hop capability
        from exabgp.util.enumeration import TriState

        nb.capability.nexthop = TriState.FALSE
    neg = corpus.mirror_session(nb, peer_asn4=sk['asn4'])
    return nb, neg


def innermost(tb) -> str:
    frames = traceback.extract_tb(tb)
    for f in reversed(frames):
        if '/exabgp/' in f.filename:
            mod = f.filename.split('/exabgp/')[-1].replace('.py', '').replace('/', '.')
            return f'{mod}.{f.name}'
    return 'harness'


def force(msg) -> None:
    """force every lazy part of a decoded message"""
    str(msg)
    if getattr(msg, 'IS_EOR', False):
        return
    if int(getattr(msg, 'ID', 0)) != 2:
        return
    data = getattr(msg, 'data', None)
    if data is None or not hasattr(data, 'announces'):
        return
    for routed in data.announces:
        n = routed.nlri
        str(n)
        n.json()
        n.index()
        str(routed.nexthop)
    for n in data.withdraws:
        str(n)
        n.json()
        n.index()
    str(data.attributes)
    data.attributes.json()
    data.attributes.index()


def unknown_attrs(k: int, ext: bool = False) -> bytes:
    # k distinct-looking unknown optional NON-transitive attributes (ignored by design) then optional transitive ones
    out = b''
    for i in range(k):
        code = 100 + (i % 100)
        out += rw.enc_attr(0x80, code, bytes([i & 255]), ext)
    return out


def base_attrs(asn4=True):
    return rw.enc_attr(0x40, 1, b'\0') + rw.enc_attr(0x40, 2, rw.v_aspath([(2, [65001])], asn4)) + rw.enc_attr(0x40, 3, bytes([192, 0, 2, 1]))


def unusual(kind: str, k: int, asn4: bool, maxsize: int, ap4: bool = False, ap6: bool = False) -> bytes:
    """RFC-valid but unusual UPDATE bodies"""
    pid = b'\0\0\0\1' if ap4 else b''
    nl = pid + bytes([24, 10, 0, 0])
    if kind == 'unknown-attrs':
        return rw.enc_update_body(b'', base_attrs(asn4) + unknown_attrs(k), nl)
    if kind == 'unknown-attrs-extlen':
        return rw.enc_update_body(b'', base_attrs(asn4) + unknown_attrs(k, True), nl)
    if kind == 'many-nlri':
        return rw.enc_update_body(b'', base_attrs(asn4), b''.join(pid + bytes([24, 10, (i >> 8) & 255, i & 255]) for i in range(k)))
    if kind == 'many-withdraw':
        return rw.enc_update_body(b''.join(pid + bytes([24, 10, (i >> 8) & 255, i & 255]) for i in range(k)), b'', b'')
    if kind == 'long-aspath':
        segs = [(2, [65000 + (i % 500) for i in range(255)]) for _ in range(max(1, k // 255))]
        a = rw.enc_attr(0x40, 1, b'\0') + rw.enc_attr(0x40, 2, rw.v_aspath(segs, asn4)) + rw.enc_attr(0x40, 3, bytes([192, 0, 2, 1]))
        return rw.enc_update_body(b'', a, nl)
    if kind == 'many-communities':
        a = base_attrs(asn4) + rw.enc_attr(0xC0, 8, b''.join(struct.pack('!HH', 65000, i & 0xFFFF) for i in range(k)))
        return rw.enc_update_body(b'', a, nl)
    if kind == 'many-ext-communities':
        a = base_attrs(asn4) + rw.enc_attr(0xC0, 16, b''.join(bytes([0, 2]) + struct.pack('!HL', 65000, i) for i in range(k)))
        return rw.enc_update_body(b'', a, nl)
    if kind == 'many-large-communities':
        a = base_attrs(asn4) + rw.enc_attr(0xC0, 32, b''.join(struct.pack('!LLL', 65000, i, i) for i in range(k)))
        return rw.enc_update_body(b'', a, nl)
    if kind == 'many-mp-nlri':
        ns = [rw.mk_nlri(2, 1, f'2001:db8:{i:x}::/48', pathid=1 if ap6 else None) for i in range(k)]
        a = rw.enc_attr(0x40, 1, b'\0') + rw.enc_attr(0x40, 2, rw.v_aspath([(2, [65001])], asn4)) + rw.enc_mp_reach(2, 1, ['2001:db8::1'], ns, ap6)
        return rw.enc_update_body(b'', a, b'')
    if kind == 'many-cluster':
        a = base_attrs(asn4) + rw.enc_attr(0x80, 9, bytes([10, 0, 0, 9])) + rw.enc_attr(0x80, 10, b''.join(bytes([10, 9, (i >> 8) & 255, i & 255]) for i in range(k)))
        return rw.enc_update_body(b'', a, nl)
    raise ValueError(kind)


UNUSUAL = ['unknown-attrs', 'unknown-attrs-extlen', 'many-nlri', 'many-withdraw', 'long-aspath', 'many-communities', 'many-ext-communities', 'many-large-communities', 'many-mp-nlri', 'many-cluster']
UNIT_SIZE = {'unknown-attrs': 4, 'unknown-attrs-extlen': 5, 'many-nlri': 4, 'many-withdraw': 4, 'long-aspath': 4, 'many-communities': 4, 'many-ext-communities': 8, 'many-large-communities': 12, 'many-mp-nlri': 7, 'many-cluster': 4}


def plan(tier, seed):
    n = 16 if tier == 'quick' else 64
    # every fourth shard runs with every log call evaluating its lazy message (debug logging): formatters are code too
    out = [{'shard': i, 'inputs': 1500 if tier == 'quick' else 30000, 'loud': i % 4 == 3} for i in range(n)]
    out += [{'shard': 900 + i, 'daemon': True, 'part': i, 'inputs': 150 if tier == 'quick' else 1500} for i in range(4 if tier == 'quick' else 8)]
    out += [{'shard': 950, 'daemon': True, 'helper_gone': True, 'part': 0}]
    return out


LOUD = False


def run_one(res, sensor, mtype, body, nb, neg, cls, sk, must_decode, wit_extra=None, K=None):
    """-> (outcome, steps, depth)"""
    from exabgp.bgp.message import Message, Notify

    wit = {'type': mtype, 'body': body.hex() if len(body) <= 2000 else body[:600].hex() + f'...({len(body)} bytes)', 'session': sk['name'], 'class': cls}
    if wit_extra:
        wit.update(wit_extra)
    sensor.budget = 2_000_000
    outcome = 'decoded'
    where = ''
    try:
        with sensor:
            try:
                msg = Message.unpack(mtype, memoryview(body), neg)  # a memoryview, as Connection.reader hands the body over
                force(msg)
            except Notify as n:
                outcome = ('notify', n.code, n.subcode)
            except reach.BudgetExceeded:
                outcome = ('budget',)
            except RecursionError as e:
                outcome = ('raise', 'RecursionError')
                where = innermost(e.__traceback__)
            except Exception as e:  # noqa
                outcome = ('raise', type(e).__name__)
                where = innermost(e.__traceback__)
                wit['error'] = str(e)[:200]
    except reach.BudgetExceeded:
        outcome = ('budget',)
    steps, depth = sensor.steps, sensor.max_depth
    tname = {1: 'open', 2: 'update', 3: 'notification', 4: 'keepalive', 5: 'refresh', 6: 'operational'}.get(mtype, str(mtype))
    full = f'{tname}:{cls}'
    if outcome == 'decoded':
        res.ok(full, (tname, cls, sk['name'], 'decoded'))
    elif outcome[0] == 'notify':
        _, code, sub = outcome
        if must_decode:
            res.violation(f'C03/refuses-valid:{cls}:{code}/{sub}', f'RFC-valid {tname} ({cls}) refused with {code}/{sub}', wit, full)
        elif code not in DEFINED or sub not in DEFINED[code]:
            res.violation(f'C03/undefined-code:{code}/{sub}', f'{tname} refused with undefined NOTIFICATION {code}/{sub}', wit, full)
        else:
            res.ok(full, (tname, cls, sk['name'], code, sub))
    elif outcome[0] == 'budget' and LOUD:
        # with every log message evaluated the parser dumps the remaining NLRI bytes once per NLRI (quadratic by design of the
        # debug output): cost is not judged on these shards, only the exception class
        res.count('loud:step-budget-reached')
    elif outcome[0] == 'budget':
        res.violation(f'C03/step-budget:{tname}:{cls}', f'{tname} of {len(body)} bytes needed more than 2M function entries', wit, full)
    else:
        res.violation(f'C03/raises:{outcome[1]}:{where}', f'{tname} ({cls}) raised {outcome[1]} in {where}', wit, full)
    if K is not None and not LOUD and outcome != ('budget',) and steps > K * (len(body) + 1):
        res.violation(f'C03/superlinear:{tname}:{cls}', f'{steps} function entries for {len(body)} bytes (bound {K}/byte)', wit, full)
    return outcome, steps, depth


def run_helper_gone(desc):
    """the helper process of the REAL daemon exits (respawn off) while a session is up; the peer then sends valid messages of the
    kinds the helper had asked for.  The speaker must not be wedged by them: it keeps sending KEEPALIVEs (never silent for a
    hold time while the peer keeps the session alive) or it ends the session - an open connection gone silent is the failure"""
    import time

    from vlib import daemon

    res = Result()
    H = 3
    text = 'process quitter {\n    run @PY@ @DIR@/quitter.py;\n    encoder json;\n}\n' + exa.neighbor_text(hold=H, families=[(1, 1), (2, 1)], extra='    api { processes [ quitter ]; neighbor-changes; receive { parsed; update; keepalive; refresh; } }')
    d = daemon.Daemon(text, files={'quitter.py': 'import sys\nfor l in sys.stdin:\n    if \'"up"\' in l: break\n'}, env={'exabgp_log_level': 'ERROR', 'exabgp_api_respawn': 'false'})
    peer = None
    try:
        d.start()
        peer = d.accept()
        peer.establish(65001, hold=H)
        time.sleep(1.0)
        attrs = rw.enc_attr(0x40, 1, b'\0') + rw.enc_attr(0x40, 2, bytes([2, 1]) + struct.pack('!L', 65001)) + rw.enc_attr(0x40, 3, bytes([192, 0, 2, 1]))
        peer.send(2, rw.enc_update_body(b'', attrs, bytes([24, 10, 1, 1])))
        peer.send(5, struct.pack('!HBB', 1, 0, 1))
        t0 = time.monotonic()
        nxt = t0 + H / 3
        last_rx = t0
        ended = None
        worst = 0.0
        while time.monotonic() - t0 < 3 * H:
            if time.monotonic() >= nxt:
                try:
                    peer.send(4)
                except OSError:
                    ended = ('closed',)
                    break
                nxt += H / 3
            t, b = peer.read_message(0.1)
            if t in (2, 4):
                worst = max(worst, time.monotonic() - last_rx)
                last_rx = time.monotonic()
            elif t == 3:
                ended = ('notification', b[0], b[1])
                break
            elif t is None:
                ended = ('closed',)
                break
        worst = max(worst, time.monotonic() - last_rx) if ended is None else worst
        wit = {'hold': H, 'ended': ended, 'longest_silence': round(worst, 2), 'level': 'daemon', 'log': d.tail(1500)}
        if ended is None and worst >= 2 * H:
            res.violation('C03/daemon:wedged-after-helper-exit', f'the helper had exited; after a valid UPDATE the daemon sent nothing for {worst:.1f} s (H={H}) and left the connection open', wit, 'daemon:helper-gone')
        elif not d.alive():
            res.violation('C03/daemon:process-exits:helper-gone', 'the daemon exited', wit, 'daemon:helper-gone')
        else:
            res.ok('daemon:helper-gone', ('daemon', 'helper-gone', ended[0] if ended else 'continues'))
    except daemon.Inconclusive as e:
        daemon.skipped(res, str(e))
    finally:
        try:
            if peer is not None:
                peer.close()
        except Exception:  # noqa
            pass
        d.stop()
    return res


def run_daemon(desc):
    if desc.get('helper_gone'):
        return run_helper_gone(desc)
    """hostile messages sent to the REAL daemon over TCP.  What is observable from outside: the process stays alive, it says
    nothing about an unhandled exception on its log, it never answers with the NOTIFICATION Protocol.read_message builds from
    an exception which escaped a decoder (1/0 'can not decode ...'), it comes back for a new session after each reset, and every
    line its helper process receives is one JSON document"""
    import time

    from vlib import daemon, norm

    res = Result()
    r = random.Random(desc['seed'] * 15487469 % (2**31) + desc['part'])
    qa = corpus.qa_messages()
    asn4 = desc['part'] % 2 == 0
    text = 'process sink {\n    run @PY@ @DIR@/sink.py @DIR@/events;\n    encoder json;\n}\n' + corpus.all_families_text(
        las=65000, pas=65001, asn4=True, addpath=3 if desc['part'] % 4 >= 2 else 0, adj_rib_in=True, extra='api { processes [ sink ]; neighbor-changes; receive { parsed; %supdate; notification; open; keepalive; refresh; operational; } send { parsed; update; notification; open; keepalive; } }' % ('packets; consolidate; ' if desc['part'] % 2 else '')
    )
    d = daemon.Daemon(text, env={'exabgp_log_level': 'ERROR'})
    peer = None
    marker_n = 0
    sessions = 0
    try:
        d.start()
        for i in range(desc['inputs']):
            if peer is None:
                peer = d.accept(timeout=60)
                open_info = peer.establish(65001, peer_asn4=asn4)
                sessions += 1
                ap = desc['part'] % 4 >= 2
            # ---- one hostile message
            t = r.random()
            if i in (3, 4):
                # not hostile at all: a valid UPDATE of exactly the negotiated maximum (65535 here), and one octet less, padded
                # with an unknown optional transitive attribute.  It must go through
                total = 65535 - (i - 3)
                fixed = rw.enc_attr(0x40, 1, b'\x00') + rw.enc_attr(0x40, 2, bytes([2, 1]) + (struct.pack('!L', 65001) if asn4 else struct.pack('!H', 65001))) + rw.enc_attr(0x40, 3, bytes([192, 0, 2, 1]))
                nl = (struct.pack('!L', 7) if ap else b'') + bytes([24, 10, 99, i])
                pad = total - 19 - 4 - len(fixed) - len(nl) - 4
                body = rw.enc_update_body(b'', fixed + rw.enc_attr(0xD0, 200, bytes(pad), force_ext=True), nl)
                mtype, cls = 2, 'valid-at-maximum-size'
                assert 19 + len(body) == total
            elif t < 0.35 and qa:
                m = r.choice(qa)
                mtype, body = m['type'], gw.mutate(r, m['body'], r.choice([1, 1, 2, 3]))
                cls = 'mutated-qa'
            elif t < 0.65:
                mtype, body = 2, gw.gen_structured(r, asn4)
                cls = 'structured'
            elif t < 0.85:
                s_ = {'asn4': asn4, 'addpath': {(1, 1), (2, 1), (1, 4), (2, 4), (1, 128), (2, 128)} if ap else set(), 'ibgp': False}
                body, _ = gw.gen_update(r, s_, families=FAMS, rich=0.7)
                mtype, body = 2, gw.mutate(r, body, r.choice([1, 2, 3]))
                cls = 'mutated-valid'
            elif t < 0.93:
                mtype = r.choice([5, 6, 6, 0, 7, 255])
                body = bytes(r.getrandbits(8) for _ in range(r.choice([0, 1, 3, 4, 5, 12, 64])))
                cls = 'other-types'
            else:
                n = r.choice([0, 1, 4, 10, 23, 64, 300])
                body = bytes(r.getrandbits(8) for _ in range(n))
                mtype = 2
                cls = 'random'
            if mtype in (1, 3, 4):
                continue  # an OPEN, a NOTIFICATION or a KEEPALIVE in ESTABLISHED are FSM matters (C05, C10)
            if len(body) > 4096 - 19 and cls != 'valid-at-maximum-size':
                body = body[: 4096 - 19]
            wit = {'type': mtype, 'body': body.hex()[:4000], 'class': cls, 'asn4': asn4, 'level': 'daemon'}
            try:
                peer.send(mtype, body)
                marker_n += 1
                mark = '203.0.%d.%d' % (marker_n // 256 % 256, marker_n % 256)
                peer.send(2, rw.enc_update_body(b'', rw.enc_attr(0x40, 1, b'\x00') + rw.enc_attr(0x40, 2, bytes([2, 1]) + (struct.pack('!L', 65001) if asn4 else struct.pack('!H', 65001))) + rw.enc_attr(0x40, 3, bytes([192, 0, 2, 1])), (struct.pack('!L', 1) if ap else b'') + bytes([32]) + bytes(int(x) for x in mark.split('.'))))
            except OSError:
                pass
            # ---- what happened: the marker reaches the helper (the session went on) or the session ends
            end = time.monotonic() + 40
            outcome = None
            while outcome is None:
                ty, b = peer.read_message(0.03)
                if ty == 3:
                    outcome = ('notification', b[0], b[1], bytes(b[2:]))
                elif ty is None:
                    outcome = ('closed',)
                elif ty == 'timeout':
                    if any(mark + '/32' in x for x in d.lines('events')[-6:]):
                        outcome = ('continues',)
                    elif not d.alive():
                        outcome = ('died',)
                    elif time.monotonic() > end:
                        raise daemon.Inconclusive('neither the marker nor the end of the session within 40 s: ' + d.tail(300))
            log = d.tail(4000)
            if outcome[0] == 'died' or not d.alive():
                res.violation(f'C03/daemon:process-exits:{cls}', f'the daemon exited (rc {d.proc.poll()}) after a hostile message', dict(wit, log=log[-1500:]), 'daemon:' + cls)
                return res
            if 'exception.unhandled' in log or 'Traceback' in log:
                k = log.find('exception.unhandled')
                res.violation(f'C03/daemon:unhandled-exception:{cls}', 'the daemon logged an unhandled exception: ' + log[max(0, k) : k + 300], dict(wit, log=log[-2500:]), 'daemon:' + cls)
                return res
            if cls == 'valid-at-maximum-size' and outcome[0] != 'continues':
                res.violation('C03/daemon:valid-message-of-maximum-size-refused', f'a valid UPDATE of {19 + len(body)} octets (negotiated maximum 65535) ended the session: {outcome[:3]}', dict(wit, body=f'({len(body)} octets)'), 'daemon:' + cls)
            elif outcome[0] == 'notification' and (outcome[1], outcome[2]) == (1, 0) and b'can not decode' in outcome[3]:
                res.violation(f'C03/daemon:decoder-exception-escaped:type-{mtype}', f'NOTIFICATION 1/0 {outcome[3][:80]!r}: an exception other than Notify left Message.unpack', wit, 'daemon:' + cls)
            else:
                res.ok('daemon:' + cls, ('daemon', cls, outcome[0], outcome[1:3] if outcome[0] == 'notification' else ()))
                res.count('daemon-outcome:' + (outcome[0] if outcome[0] != 'notification' else f'notification-{outcome[1]}/{outcome[2]}'))
            if outcome[0] != 'continues':
                peer.close()
                peer = None
        # ---- every line the helper got is one JSON document (C13 over the real pipe)
        bad = 0
        lines = d.lines('events')
        for ln in lines:
            try:
                norm.strict_loads(ln)
            except Exception as e:  # noqa
                bad += 1
                res.violation(f'C03/daemon:helper-line-not-json:{type(e).__name__}', f'a line written to the helper is not one JSON document: {ln[:200]}', {'line': ln[:2000]}, 'daemon:helper-lines')
                break
        if not bad and lines:
            res.ok('daemon:helper-lines', None, len(lines))
        res.extra['daemon_sessions'] = [sessions]
    except daemon.Inconclusive as e:
        if not d.alive() and d.proc is not None:
            res.violation('C03/daemon:process-exits:unknown', f'the daemon exited (rc {d.proc.poll()}): {str(e)[:200]}', {'log': d.tail(2000)}, 'daemon')
        else:
            daemon.skipped(res, str(e))
    finally:
        try:
            if peer is not None:
                peer.close()
        except Exception:  # noqa
            pass
        d.stop()
    return res


def run_shard(desc):
    if desc.get('daemon'):
        return run_daemon(desc)
    res = Result()
    global LOUD
    if desc.get('loud'):
        exa.loud()
        LOUD = True
        desc = dict(desc, inputs=max(60, desc['inputs'] // 6))
    else:
        exa.quiet()
    r = random.Random(desc['seed'] * 2654435761 % (2**31) + desc['shard'])
    sensor = reach.Steps()
    sensor.install()
    kinds = session_kinds()
    built = {}

    def sess(i):
        sk = kinds[i % len(kinds)]
        if sk['name'] not in built:
            built[sk['name']] = build_session(sk)
        return sk, built[sk['name']]

    qa = corpus.qa_messages()
    per_byte = 1.0
    seeds = []
    # ---- (1) valid messages: must decode; calibrates the per-byte cost
    nvalid = desc['inputs'] // 5
    for i in range(nvalid):
        sk, (nb, neg) = sess(i + desc['shard'])
        recv_ap = expected_recv_addpath(sk)
        s = {'asn4': sk['asn4'], 'addpath': recv_ap, 'ibgp': False}
        t = r.random()
        if t < 0.75:
            body, intent = gw.gen_update(r, s, families=FAMS, rich=0.7)
            mtype = 2
        elif t < 0.82:
            body = rw.enc_open_body(65001, r.choice([0, 3, 90, 65535]), '10.0.0.2', [rw.cap_mp(1, 1), rw.cap_asn4(65001), (2, b''), (70, b''), rw.cap_addpath([(1, 1, 3)]), rw.cap_gr(8, 120, [(1, 1, 0x80)]), rw.cap_hostname(b'h', b'd')], extended=r.random() < 0.3)
            mtype = 1
        elif t < 0.9:
            body = bytes([r.choice([1, 2, 3, 4, 5, 6]), r.randrange(0, 12)]) + bytes(r.getrandbits(8) for _ in range(r.choice([0, 1, 5, 64, 200])))
            mtype = 3
        elif t < 0.94:
            f = r.choice(FAMS)
            body = struct.pack('!HBB', f[0], r.choice([0, 1, 2]), f[1])
            mtype = 5
        elif t < 0.97:
            # OPERATIONAL (draft-ietf-idr-operational-message), negotiated by these sessions: advisories, queries, counters
            what = r.choice([1, 2, 3, 4, 5, 6, 7, 8, 9, 10, 11, 12])
            if what in (1, 2):
                payload = struct.pack('!HB', 1, 1) + bytes(r.choice([b'', b'hello', 'caf\xe9'.encode(), bytes(range(32, 127)), b'x' * 2100]))
            elif what in (3, 5, 7):
                payload = struct.pack('!HB', 1, 1) + bytes([10, 0, 0, 2]) + struct.pack('!L', r.getrandbits(32))
            else:
                payload = struct.pack('!HB', 1, 1) + bytes([10, 0, 0, 2]) + struct.pack('!LL', r.getrandbits(32), r.getrandbits(32))
            body = struct.pack('!HH', what, len(payload)) + payload
            mtype = 6
        else:
            body = b''
            mtype = 4
        out, steps, depth = run_one(res, sensor, mtype, body, nb, neg, 'valid', sk, must_decode=True)
        if out == 'decoded':
            per_byte = max(per_byte, steps / (len(body) + 1))
            seeds.append((mtype, body))
    K = int(per_byte * 50) + 50
    res.extra['per_byte_cost_valid_max'] = round(per_byte, 1)
    # ---- (2) qa corpus seeds (all families): anything but Notify is a violation
    for i, m in enumerate(qa):
        if (i + desc['shard']) % 4:
            continue
        sk, (nb, neg) = sess(i)
        run_one(res, sensor, m['type'], m['body'], nb, neg, 'qa-seed', sk, must_decode=False, wit_extra={'src': m['src']}, K=K)
        seeds.append((m['type'], m['body']))
    # ---- (3) mutations
    for i in range(desc['inputs'] * 3 // 5):
        sk, (nb, neg) = sess(r.randrange(64))
        if r.random() < 0.35 and qa:
            m = r.choice(qa)
            mtype, body = m['type'], m['body']
        else:
            mtype, body = r.choice(seeds)
        body = gw.mutate(r, body, r.choice([1, 1, 2, 3, 6]))
        if len(body) > int(neg.msg_size) - 19:
            body = body[: int(neg.msg_size) - 19]
        run_one(res, sensor, mtype, body, nb, neg, 'mutated', sk, must_decode=False, K=K)
    # ---- (4) random bodies, all types
    for i in range(desc['inputs'] // 5):
        sk, (nb, neg) = sess(r.randrange(64))
        mtype = r.choice([1, 2, 2, 2, 3, 5, 6])
        n = r.choice([0, 1, 4, 10, 23, 64, 300, 4077])
        body = bytes(r.getrandbits(8) for _ in range(n))
        if mtype == 2 and r.random() < 0.6 and n >= 4:
            # plausible section lengths so the decoders are reached
            wl = r.randrange(0, max(1, n - 4))
            al = n - 4 - wl
            body = struct.pack('!H', wl) + body[:wl] + struct.pack('!H', al) + body[wl : wl + al]
        run_one(res, sensor, mtype, body, nb, neg, 'random', sk, must_decode=False, K=K)
    # ---- (4b) right framing, hostile values: every registered family and the TLV-structured attributes
    for i in range(desc['inputs'] // 2):
        sk, (nb, neg) = sess(r.randrange(64))
        body = gw.gen_structured(r, sk['asn4'])
        if len(body) > int(neg.msg_size) - 19:
            continue
        run_one(res, sensor, 2, body, nb, neg, 'structured', sk, must_decode=False, K=K)
    # ---- (4c) consistent truncation: one attribute of a decodable UPDATE cut at each offset of its value, the attribute
    # and block lengths rewritten to match, so the cut reaches the value decoder instead of the outer length checks
    upd_seeds = [b for t, b in seeds if t == 2] + [m['body'] for m in qa if m['type'] == 2]
    ncut = 0
    for i in range(desc['inputs'] // 30):
        if not upd_seeds:
            break
        body = r.choice(upd_seeds)
        try:
            wd, ab, nl = rw.split_update(body)
            tlvs = rw.dec_attr_tlvs(ab)
        except rw.RefError:
            continue
        if not tlvs:
            continue
        ai = r.randrange(len(tlvs))
        flags, code, value = tlvs[ai]
        cuts = range(len(value)) if len(value) <= 48 else sorted(r.sample(range(len(value)), 48))
        sk, (nb, neg) = sess(r.randrange(64))
        for c in cuts:
            block = b''.join(rw.enc_attr(f, cd, (v[:c] if j == ai else v), force_ext=bool(f & 0x10)) for j, (f, cd, v) in enumerate(tlvs))
            run_one(res, sensor, 2, rw.enc_update_body(wd, block, nl), nb, neg, 'cut-attribute', sk, must_decode=False, K=K, wit_extra={'attribute': code, 'cut': c})
            ncut += 1
    res.extra['attribute_cuts'] = ncut
    # ---- (5) RFC-valid but unusual: must decode; scaling law and stack depth
    for ui, kind in enumerate(UNUSUAL):
        if (ui + desc['shard']) % 2 and desc['tier'] == 'quick':
            continue
        sk, (nb, neg) = sess(ui + desc['shard'])
        maxsize = int(neg.msg_size) - 19
        recv_ap = expected_recv_addpath(sk)
        ap4, ap6 = (1, 1) in recv_ap, (2, 1) in recv_ap
        unit = UNIT_SIZE[kind] + (4 if (ap4 and kind in ('many-nlri', 'many-withdraw')) or (ap6 and kind == 'many-mp-nlri') else 0)
        kmax = max(8, (maxsize - 200) // unit)
        ks = sorted({8, 64, 256, min(1000, kmax), kmax if kmax < 20000 else 8000})
        if LOUD:
            ks = [8, 64]
        base = None
        for k in ks:
            if k > kmax:
                continue
            body = unusual(kind, k, sk['asn4'], maxsize, ap4, ap6)
            if len(body) > maxsize:
                continue
            out, steps, depth = run_one(res, sensor, 2, body, nb, neg, f'unusual:{kind}', sk, must_decode=True, wit_extra={'k': k})
            if out != 'decoded':
                break
            if base is None:
                base = (k, steps, depth)
                continue
            k0, s0, d0 = base
            wit = {'kind': kind, 'k0': k0, 'steps0': s0, 'depth0': d0, 'k': k, 'steps': steps, 'depth': depth, 'session': sk['name']}
            if LOUD:
                res.count('loud:scaling-not-judged')
            elif steps > 3 * (k / k0) * s0 + 2000:
                res.violation(f'C03/scaling:{kind}', f'{kind}: steps {s0}@{k0} -> {steps}@{k} (more than 3x linear)', wit, f'scaling:{kind}')
            else:
                res.ok(f'scaling:{kind}', ('scaling', kind, k))
            if depth > d0 + 20:
                res.violation(f'C03/stack-grows:{kind}', f'{kind}: stack depth {d0}@{k0} -> {depth}@{k}', wit, f'depth:{kind}')
            else:
                res.ok(f'depth:{kind}', ('depth', kind, k))
    # ---- (6) RFC-valid but unusual OPENs: the optional parameters total 250..255 octets in the base encoding (255 is the
    # largest it can say, and also the marker of the RFC 9072 encoding when the next octet is 255 too) and 255..300 in the
    # extended one; one capability per parameter and all in one
    for total in (250, 253, 254, 255):
        for one_param in (False, True):
            caps = [rw.cap_mp(1, 1), rw.cap_mp(2, 1), rw.cap_asn4(65001), (2, b'')]
            fixed = len(rw.enc_params(list(caps), False, one_param))
            # a filler capability of an unassigned code closes the gap (its own headers: 2 octets, +2 when it is its own parameter)
            over = 2 if one_param else 4
            if total - (fixed - 1) - over < 0:
                continue
            caps.append((200, bytes(total - (fixed - 1) - over)))
            params = rw.enc_params(list(caps), False, one_param)
            if len(params) != 1 + total:  # the length octet + the parameters
                res.count(f'open-params-builder-off:{len(params) - 1}')
                continue
            sk, (nb, neg) = sess(total + desc['shard'])
            body = rw.enc_open_body(65001, 90, '10.0.0.2', caps, one_param=one_param)
            run_one(res, sensor, 1, body, nb, neg, 'unusual:open-params-%d%s' % (total, '-one' if one_param else ''), sk, must_decode=True)
    for total in (255, 256, 300):
        caps = [rw.cap_mp(1, 1), rw.cap_asn4(65001), (2, b''), (200, bytes(120)), (201, bytes(total - 155))]
        sk, (nb, neg) = sess(total + desc['shard'])
        body = rw.enc_open_body(65001, 90, '10.0.0.2', caps, extended=True)
        run_one(res, sensor, 1, body, nb, neg, 'unusual:open-params-extended', sk, must_decode=True)
    # ---- (7) OPEN cut short inside its optional parameters, the length fields rewritten to match what is left (so the cut
    # reaches the parameter / capability walkers instead of the outer length check), in both encodings: every offset
    caps = [rw.cap_mp(1, 1), rw.cap_mp(2, 1), rw.cap_asn4(65001), (2, b''), rw.cap_addpath([(1, 1, 3)]), rw.cap_hostname(b'host', b'dom'), (200, bytes(20))]
    ncut = 0
    for extended in (False, True):
        for one_param in (False, True):
            full = rw.enc_params(list(caps), extended, one_param)
            head = 4 if extended else 1  # length octet, or 255 255 + two length octets
            params = full[head:]
            for c in range(len(params)):
                if (c + desc['shard']) % 4:
                    continue
                left = params[:c]
                hdr = struct.pack('!BBH', 255, 255, len(left)) if extended else bytes([len(left)])
                body = struct.pack('!BHH', 4, 65001, 90) + bytes([10, 0, 0, 2]) + hdr + left
                sk, (nb, neg) = sess(c)
                run_one(res, sensor, 1, body, nb, neg, 'cut-open', sk, must_decode=False, wit_extra={'cut': c, 'extended': extended, 'one_param': one_param})
                ncut += 1
    res.extra['open_cuts'] = ncut
    res.sample({'K_steps_per_byte': K, 'sessions': sorted(built)}, limit=1)
    if desc.get('loud'):
        from exabgp.logger import log

        res.extra['log_messages_evaluated'] = log.evaluated['n']
        res.ok('debug-logging-on', None, 1) if log.evaluated['n'] else res.inconclusive.append('loud shard evaluated no log message')
    return res


def finish(merged, tier, seed):
    need = ['daemon:structured', 'daemon:mutated-qa', 'daemon:helper-lines', 'daemon:helper-gone', 'update:valid', 'open:valid', 'notification:valid', 'refresh:valid', 'update:mutated', 'update:random', 'update:structured', 'update:cut-attribute', 'update:qa-seed'] + [f'update:unusual:{k}' for k in UNUSUAL]
    missing = [c for c in need if not merged['classes'].get(c)]
    if missing:
        merged['inconclusive'].append('classes never judged: ' + ','.join(missing))
