"""C20 - healthcheck announces and withdraws with rise/fall hysteresis; every line is a valid API command.

Monitor: the REAL `exabgp.application.healthcheck.main()` (parse(), --start-ip rotation, loop()/one()/exabgp())
is run in-process over a script of (disable file present, check result) rounds; `check()` answers from the
script, `time.sleep` is a virtual clock that ends the script with KeyboardInterrupt or a real SIGTERM, stdout
is captured per round (vlib/hc_helpers.run_healthcheck).  Every written line is handed to the REAL daemon
side (API.process -> v6 and v4 dispatcher -> announce/withdraw handler -> api_route -> Configuration.partial,
vlib/hc_helpers.Daemon) and the parsed Route is read back.

Oracle (no healthcheck code): expected per-state values computed from the generated option values; an
envelope over the scripted results since the last disable edge for the hysteresis clauses (safety: no switch
to up before `rise` successes, none to down/withdraw before `fall` failures, none on a single contrary result;
bounded progress with one round of slack; disable file => disabled announcement; exit => every IP withdrawn).
A strict runs-based model of the documented automaton is used for coverage cells and logged deviations only.

Replay of one witness:  PYTHONPATH=/verif:/repo/src /venv/bin/python -m vlib.props.c20 replay/C20/<file>.json
"""

from __future__ import annotations

import ipaddress
import itertools
import os
import random
import shutil
import struct
import tempfile

from vlib.mon import Result

PROPERTY = 'C20'
LEVEL = 'exploration'
RULE = (
    'one case = (healthcheck command line, script of rounds (disable file present?, check result), termination by '
    'KeyboardInterrupt or SIGTERM). quick: seeded sample over result sequences of length 1..10 x (rise,fall) in {1,2,3}^2 x '
    'withdraw-on-down x debounce x disable-file intervals x option sets (1..4 IPv4/IPv6 IPs or small networks with '
    '--deaggregate-networks, --start-ip, up/down/disabled metric, --increase, community / disabled-community / extended / '
    'large community, as-path and per-state as-paths, local-preference, path-id, next-hop, neighbor lists, --no-ack, options '
    'given through --config). thorough: additionally ALL 2046 boolean result sequences of length 1..10 for each of the 36 '
    '(rise,fall,withdraw-on-down,debounce) combinations, no disable file. distinct = distinct (rise,fall,wod,debounce,'
    'results,disable pattern,termination,option-kind) signatures'
)
ASSUMPTIONS = [
    'the daemon-side acceptance test for a line is the production API.process() path (v6 and v4 dispatcher, handler, Configuration.partial) on a recording reactor stub with three configured neighbors (two IPv4, one IPv6, both unicast families)',
    'the announced state is what the daemon last received: rounds in which nothing is written keep the previous announcement',
    '"results since the last disable/enable edge" includes the result of the check run in the round the disable file disappears (real code ignores it: that only makes the real helper later than the earliest allowed switch); bounded progress is counted on the results strictly after that round, with one extra round of slack',
    'with --withdraw-on-down the disabled state is announced as a withdrawal (documented: "instead of increasing the metric ... withdraw the route"); without it a withdrawal before exit is a violation',
    'the three state metrics are generated pairwise distinct so that a block of announce lines identifies its state by metric',
    'options that touch the system are excluded: always --no-ip-setup, never --dynamic-ip-setup/--sudo/--user/--execute; --interval 0 (documented one-shot mode without withdrawal) is excluded; --start-ip is generated inside the IP list; --path-id 0 and negative --increase are not generated',
    '--neighbor addresses are generated among the neighbors the daemon has configured',
    'default values (rise 3, fall 3, metrics 100/1000/500, increase 1) are taken from the --help text',
]
MANIFEST = {
    'level': 'exploration',
    'technique': 'runtime monitor: real healthcheck main()/loop() driven by scripted check results, virtual clock, disable-file toggles and KeyboardInterrupt/SIGTERM; every written line parsed by the real daemon-side API path; independent hysteresis envelope and per-state expected values; the real healthcheck program as helper process of the real exabgp process with a scripted check command, hysteresis judged on what a scripted peer receives',
    'text': 'Seeded exploration (quick) plus full enumeration of all boolean result sequences up to length 10 for every '
    '(rise,fall) in {1,2,3}^2 x withdraw-on-down x debounce (thorough) of the real healthcheck loop; each written line is '
    'accepted by the real API dispatcher and route parser and compared with values computed from the options. Held means no '
    'disagreement on the runs executed; it is not a proof for all option values or longer sequences.',
    'note': 'liveness restated as bounded progress (one round of slack); --interval 0, ip setup/teardown, --execute hooks and the real check() subprocess are not exercised; acknowledgement reads are stubbed',
}
SHARD_TIMEOUT = {'quick': 240, 'thorough': 1500}

PEERS = ['127.0.0.2', '127.0.0.3', '2001:db8::2']
V4_IPS = ['192.0.2.1/32', '192.0.2.2/32', '198.51.100.7/32', '203.0.113.0/24', '10.10.0.0/16', '192.0.2.128/25']
V6_IPS = ['2001:db8::1/128', '2001:db8::53/128', '2001:db8:1::/48', '2001:db8:2:3::/64']
V4_NETS = ['192.0.2.8/30', '192.0.2.16/31']
V6_NETS = ['2001:db8:ffff::/126', '2001:db8:fffe::4/127']
V4_NH = ['10.0.0.9', '192.0.2.254']
V6_NH = ['2001:db8::9', 'fe80::1']
WELL_KNOWN = {'no-export': 0xFFFFFF01, 'no-advertise': 0xFFFFFF02}
DEFAULTS = {'rise': 3, 'fall': 3, 'up_metric': 100, 'down_metric': 1000, 'disabled_metric': 500, 'increase': 1}
STATES = ('up', 'down', 'disabled')


# ----------------------------------------------------------------------------- generation


def gen_options(r: random.Random, rise=None, fall=None, wod=None, debounce=None, plain: bool = False) -> dict:
    o: dict = {}
    fam = r.choice(['v4', 'v4', 'v6', 'mixed'])
    deagg = (not plain) and r.random() < 0.12
    n = r.choice([1, 1, 2, 2, 3, 4])
    pool4, pool6 = list(V4_IPS), list(V6_IPS)
    if deagg:
        pool4, pool6 = V4_NETS + V4_IPS[:2], V6_NETS + V6_IPS[:1]
        n = min(n, 2)
    pool = pool4 if fam == 'v4' else pool6 if fam == 'v6' else pool4 + pool6
    ips = r.sample(pool, min(n, len(pool)))
    if deagg and not any(ipaddress.ip_network(i).num_addresses > 1 for i in ips):
        ips[0] = (V4_NETS if fam != 'v6' else V6_NETS)[0]
    o['ips'] = ips
    o['deagg'] = deagg
    total = sum(ipaddress.ip_network(i).num_addresses for i in ips) if deagg else len(ips)
    o['start_ip'] = r.randrange(total) if (r.random() < 0.3 and total > 1) else None
    o['next_hop'] = None
    if fam != 'mixed' and r.random() < 0.4:
        o['next_hop'] = r.choice(V4_NH if fam == 'v4' else V6_NH)
    while True:
        ms = [r.choice([None, None, 0, 1, 7, 50, 100, 500, 1000, 65535, 4000000000]) for _ in STATES]
        eff = [m if m is not None else DEFAULTS[s + '_metric'] for m, s in zip(ms, STATES)]
        if len(set(eff)) == 3:
            break
    o['up_metric'], o['down_metric'], o['disabled_metric'] = ms
    o['increase'] = r.choice([None, None, 0, 1, 10, 1000])

    def comm():
        return r.sample([(65000, 1), (65000, 2), (64512, 65535), (1, 0), 'no-export', 'no-advertise'], r.choice([1, 1, 2, 3]))

    o['community'] = comm() if r.random() < 0.45 else None
    o['disabled_community'] = comm() if r.random() < 0.3 else None
    o['extended_community'] = r.sample([('target', 65000, 1), ('origin', 64512, 77), ('target', 1, 4294967295)], r.choice([1, 2])) if r.random() < 0.2 else None
    o['large_community'] = r.sample([(1, 2, 3), (4200000000, 0, 1), (65000, 4294967295, 7)], r.choice([1, 2])) if r.random() < 0.2 else None
    asn4 = (not plain) and r.random() < 0.05

    def path():
        p = [r.choice([65000, 65001, 64512, 1, 23456, 65535]) for _ in range(r.choice([1, 2, 3]))]
        if asn4:
            p[r.randrange(len(p))] = r.choice([65536, 4200000000])
        return p

    o['as_path'] = path() if r.random() < 0.35 else None
    for s in STATES:
        o[s + '_as_path'] = path() if r.random() < 0.15 else None
    o['local_preference'] = r.choice([0, 100, 4294967295]) if r.random() < 0.3 else None
    o['path_id'] = r.choice([1, 7, 4294967295]) if r.random() < 0.25 else None
    x = r.random()
    if x < 0.45:
        o['neighbors'] = None
    elif x < 0.6:
        o['neighbors'] = ['*']
    elif x < 0.85 or plain:
        o['neighbors'] = [r.choice(PEERS)]
    elif x < 0.93:
        o['neighbors'] = [r.choice(PEERS), '*']
    else:
        o['neighbors'] = r.sample(PEERS, r.choice([2, 3]))
    o['rise'] = rise if rise is not None else r.choice([1, 2, 3])
    o['fall'] = fall if fall is not None else r.choice([1, 2, 3])
    o['explicit_rise_fall'] = not (o['rise'] == 3 and o['fall'] == 3 and r.random() < 0.5)
    o['wod'] = wod if wod is not None else r.random() < 0.4
    o['debounce'] = debounce if debounce is not None else r.random() < 0.5
    o['no_ack'] = r.random() < 0.3
    o['via_config'] = (not plain) and r.random() < 0.1
    o['interval'] = r.choice(['5', '1', '0.5', '30'])
    o['fast'] = r.choice(['1', '0.1', '2'])
    return o


def comm_text(c) -> str:
    return ' '.join(x if isinstance(x, str) else f'{x[0]}:{x[1]}' for x in c)


def option_pairs(o: dict, disable_path: str | None) -> list[tuple[str, str | None]]:
    """(long option, value or None for a flag) in command line order"""
    p: list[tuple[str, str | None]] = [('no-ip-setup', None), ('command', 'exit-status-comes-from-the-script'), ('interval', o['interval']), ('fast-interval', o['fast'])]
    for ip in o['ips']:
        p.append(('ip', ip))
    if o['deagg']:
        p.append(('deaggregate-networks', None))
    if o['explicit_rise_fall']:
        p += [('rise', str(o['rise'])), ('fall', str(o['fall']))]
    if disable_path is not None:
        p.append(('disable', disable_path))
    for k in ('start_ip', 'up_metric', 'down_metric', 'disabled_metric', 'increase', 'local_preference', 'path_id', 'next_hop'):
        if o[k] is not None:
            p.append((k.replace('_', '-'), str(o[k])))
    for k in ('community', 'disabled_community'):
        if o[k] is not None:
            p.append((k.replace('_', '-'), comm_text(o[k])))
    if o['extended_community'] is not None:
        p.append(('extended-community', ' '.join(f'{t}:{a}:{v}' for t, a, v in o['extended_community'])))
    if o['large_community'] is not None:
        p.append(('large-community', ' '.join(f'{a}:{b}:{c}' for a, b, c in o['large_community'])))
    for k in ('as_path', 'up_as_path', 'down_as_path', 'disabled_as_path'):
        if o[k] is not None:
            p.append((k.replace('_', '-'), ' '.join(str(a) for a in o[k])))
    for nb in o['neighbors'] or []:
        p.append(('neighbor', nb))
    for flag, name in (('wod', 'withdraw-on-down'), ('debounce', 'debounce'), ('no_ack', 'no-ack')):
        if o[flag]:
            p.append((name, None))
    return p


def render(o: dict, disable_path: str | None, config_path: str | None) -> tuple[list[str], str | None]:
    pairs = option_pairs(o, disable_path)
    if o['via_config'] and config_path is not None:
        text = '# generated by the C20 monitor\n\n' + ''.join((f'{k} = {v}\n' if v is not None else f'{k}\n') for k, v in pairs)
        return ['--config', config_path], text
    argv: list[str] = []
    for k, v in pairs:
        argv.append('--' + k)
        if v is not None:
            argv.append(v)
    return argv, None


def gen_script(r: random.Random) -> tuple[str, str]:
    """-> (results 'SF..', disabled '01..') of the same length 1..10"""
    ln = r.choice([1, 2, 3, 4, 5, 6, 7, 8, 9, 10, 10, 10, 8, 9])
    if r.random() < 0.5:
        res = ''.join(r.choice('SF') for _ in range(ln))
    else:
        res, cur = '', r.choice('SF')
        while len(res) < ln:
            res += cur * r.choice([1, 1, 2, 3, 3, 4])
            cur = 'F' if cur == 'S' else 'S'
        res = res[:ln]
    dis = ['0'] * ln
    if r.random() < 0.45:
        for _ in range(r.choice([1, 1, 2])):
            a = r.randrange(ln)
            b = min(ln, a + r.choice([1, 1, 2, 3]))
            for i in range(a, b):
                dis[i] = '1'
    return res, ''.join(dis)


# ----------------------------------------------------------------------------- expected values (from the options only)


def ext_hex(t: str, asn: int, val: int) -> str:
    # RFC 4360 two-octet AS specific extended community, transitive; route target 0x02, route origin 0x03
    return struct.pack('!BBHL', 0x00, {'target': 0x02, 'origin': 0x03}[t], asn, val).hex()


def expected(o: dict) -> dict:
    nets = [ipaddress.ip_network(i) for i in o['ips']]
    if o['deagg']:
        nets = [ipaddress.ip_network(a) for net in nets for a in net]
    k = o['start_ip'] or 0
    nets = nets[k:] + nets[:k]
    inc = o['increase'] if o['increase'] is not None else DEFAULTS['increase']
    if not o['neighbors'] or '*' in o['neighbors']:
        peers = sorted(PEERS)
    else:
        peers = sorted(set(o['neighbors']))
    nh = 'self' if o['next_hop'] is None else str(ipaddress.ip_address(o['next_hop']))

    def comm_vals(c):
        return None if c is None else sorted(WELL_KNOWN[x] if isinstance(x, str) else (x[0] << 16) | x[1] for x in c)

    exp: dict = {'prefixes': [str(n) for n in nets], 'peers': peers, 'path_id': o['path_id'], 'next_hop': nh}
    for s in STATES:
        base = o[s + '_metric'] if o[s + '_metric'] is not None else DEFAULTS[s + '_metric']
        community = o['community']
        if s in ('down', 'disabled') and o['disabled_community'] is not None:
            community = o['disabled_community']
        path = o[s + '_as_path'] if o[s + '_as_path'] is not None else o['as_path']
        exp[s] = [
            {
                'prefix': str(n),
                'med': base + i * inc,
                'local_preference': o['local_preference'],
                'community': comm_vals(community),
                'extended_community': None if o['extended_community'] is None else sorted(ext_hex(*e) for e in o['extended_community']),
                'large_community': None if o['large_community'] is None else sorted(list(x) for x in o['large_community']),
                'as_path': None if path is None else [(2, list(path))],
                'next_hop': nh,
                'path_id': o['path_id'],
                'peers': peers,
            }
            for i, n in enumerate(nets)
        ]
    return exp


def option_classes(o: dict) -> list[str]:
    c = ['opt:ips-%d' % min(len(o['ips']), 3), 'opt:rise%d-fall%d' % (o['rise'], o['fall'])]
    c.append('opt:withdraw-on-down' if o['wod'] else 'opt:announce-on-down')
    c.append('opt:debounce' if o['debounce'] else 'opt:no-debounce')
    fams = {ipaddress.ip_network(i).version for i in o['ips']}
    c.append('opt:ipv4+ipv6' if len(fams) == 2 else 'opt:ipv%d' % fams.pop())
    for k in ('deagg', 'no_ack', 'via_config'):
        if o[k]:
            c.append('opt:' + k.replace('_', '-'))
    for k in ('start_ip', 'next_hop', 'increase', 'community', 'disabled_community', 'extended_community', 'large_community', 'as_path', 'local_preference', 'path_id'):
        if o[k] is not None:
            c.append('opt:' + k.replace('_', '-'))
    if any(o[s + '_metric'] is not None for s in STATES):
        c.append('opt:state-metric')
    if any(o[s + '_as_path'] is not None for s in STATES):
        c.append('opt:state-as-path')
    nb = o['neighbors']
    c.append('opt:neighbor-' + ('default' if not nb else 'star' if '*' in nb else 'one' if len(nb) == 1 else 'several'))
    if not o['explicit_rise_fall']:
        c.append('opt:default-rise-fall')
    return c


def has_asn4(o: dict) -> bool:
    return any(a > 65535 for k in ('as_path', 'up_as_path', 'down_as_path', 'disabled_as_path') if o[k] for a in o[k])


# ----------------------------------------------------------------------------- strict model (coverage cells, logged deviations)


class Strict:
    """The documented automaton as a function of the trailing run of equal results since (re)start."""

    def __init__(self, rise: int, fall: int) -> None:
        self.rise, self.fall = max(rise, 1), max(fall, 1)
        self.state = 'INIT'
        self.last = None
        self.run = 0

    def step(self, disabled: bool, ok: bool) -> tuple[str, str, str]:
        """-> (state before, event, state after)"""
        before = self.state
        if disabled:
            self.state, self.last, self.run = 'DISABLED', None, 0
            return before, 'D', self.state
        if before == 'DISABLED':
            self.state = 'INIT'
            return before, 'enable-' + ('S' if ok else 'F'), self.state
        self.run = self.run + 1 if self.last == ok else 1
        self.last = ok
        if ok:
            self.state = 'UP' if (self.run >= self.rise or before == 'UP') else 'RISING'
        else:
            self.state = 'DOWN' if (self.run >= self.fall or before == 'DOWN') else 'FALLING'
        return before, 'S' if ok else 'F', self.state


CELLS = [f'cell:{s}/{e}' for s in ('INIT', 'RISING', 'FALLING', 'UP', 'DOWN') for e in ('S', 'F', 'D')] + ['cell:DISABLED/D', 'cell:DISABLED/enable-S', 'cell:DISABLED/enable-F']
TRANSITIONS = [
    'state:INIT->UP', 'state:INIT->RISING', 'state:INIT->FALLING', 'state:INIT->DOWN', 'state:INIT->DISABLED',
    'state:RISING->UP', 'state:RISING->FALLING', 'state:RISING->DOWN', 'state:RISING->DISABLED',
    'state:FALLING->DOWN', 'state:FALLING->RISING', 'state:FALLING->UP', 'state:FALLING->DISABLED',
    'state:UP->FALLING', 'state:UP->DOWN', 'state:UP->DISABLED',
    'state:DOWN->RISING', 'state:DOWN->UP', 'state:DOWN->DISABLED', 'state:DISABLED->INIT',
]  # fmt: skip


# ----------------------------------------------------------------------------- the oracle


FIELDS = [
    ('med', 'wrong-metric'),
    ('community', 'wrong-community'),
    ('extended_community', 'wrong-extended-community'),
    ('large_community', 'wrong-large-community'),
    ('as_path', 'wrong-as-path'),
    ('local_preference', 'wrong-local-preference'),
    ('next_hop', 'wrong-next-hop'),
    ('path_id', 'wrong-path-id'),
    ('peers', 'wrong-neighbors'),
]


class Case:
    def __init__(self, res: Result, daemon, o: dict, results: str, disabled: str, term: str, scratch: str) -> None:
        self.res, self.daemon, self.o = res, daemon, o
        self.results, self.disabled, self.term = results, disabled, term
        self.scratch = scratch
        self.exp = expected(o)
        self.bad = 0
        self.wit: dict = {}

    def violation(self, key: str, what: str, cls: str = '', **more) -> None:
        self.bad += 1
        self.res.violation(key, what, dict(self.wit, **more), cls)

    # -- line level

    def parse_lines(self, text: str, where: str) -> list[dict] | None:
        """every line through the real daemon side (v6 and v4 dispatcher). None = a line was refused"""
        if text == '':
            return []
        lines = text.split('\n')
        if lines[-1] != '':
            self.violation('C20/line-unterminated', f'{where}: output does not end with a newline: {lines[-1]!r}', 'line')
            return None
        out = []
        for line in lines[:-1]:
            p6 = self.daemon.feed(line, 6)
            p4 = self.daemon.feed(line, 4)
            if not p6['ok'] or not p4['ok']:
                why = 'multi-neighbor' if (self.o['neighbors'] and '*' not in self.o['neighbors'] and len(self.o['neighbors']) > 1) else 'as-path-asn4' if (has_asn4(self.o) and 'as-path' in line) else 'other'
                ver = 'v6+v4' if not p6['ok'] and not p4['ok'] else 'v6' if not p6['ok'] else 'v4'
                self.violation(f'C20/line-unparseable:{why}', f'{where}: the daemon ({ver} API) refuses the line {line!r}: {(p6["error"] or p4["error"])[:300]}', 'line', line=line)
                return None
            if p6['calls'] != p4['calls']:
                self.violation('C20/line-v4-v6-differ', f'{where}: v4 and v6 API parse {line!r} differently', 'line', line=line, v6=p6['calls'], v4=p4['calls'])
                return None
            if p6['calls'][0]['rib'] is not True:
                self.res.count('rib-call-declined-for-a-selected-neighbor(deployment, not syntax)')
            out.append(dict(p6['calls'][0], line=line))
        return out

    def classify(self, block: list[dict], where: str, exit_block: bool = False) -> str | None:
        """-> 'none' | 'up' | 'down' | 'disabled' | 'withdraw'; None when the block is malformed (violation recorded)"""
        if not block:
            return 'none'
        exp = self.exp
        actions = {b['action'] for b in block}
        if len(actions) > 1:
            self.violation('C20/mixed-block', f'{where}: announce and withdraw lines in one round: {[b["line"] for b in block]}', 'block')
            return None
        action = actions.pop()
        seen: dict[str, int] = {}
        for b in block:
            pfx = str(ipaddress.ip_network(b['prefix']))
            if pfx not in exp['prefixes']:
                self.violation('C20/unknown-ip', f'{where}: line for {pfx} which is not a configured IP: {b["line"]!r}', 'block')
                return None
            seen[pfx] = seen.get(pfx, 0) + 1
            b['index'] = exp['prefixes'].index(pfx)
        if any(v > 1 for v in seen.values()):
            self.violation('C20/duplicate-ip', f'{where}: an IP is written more than once in one round: {[b["line"] for b in block]}', 'block')
            return None
        if action == 'withdraw':
            kind = 'withdraw'
            for b in block:
                for f, key in (('path_id', 'wrong-path-id'), ('peers', 'wrong-neighbors')):
                    if b[f] != exp[f]:
                        self.violation(f'C20/{key}:withdraw', f'{where}: withdraw line has {f}={b[f]!r}, options give {exp[f]!r}: {b["line"]!r}', 'line-valid:' + ('exit' if exit_block else 'withdraw'), line=b['line'])
                        return None
        else:
            votes = {s: sum(1 for b in block if b['med'] == exp[s][b['index']]['med']) for s in STATES}
            kind = max(STATES, key=lambda s: votes[s])
            if votes[kind] == 0:
                self.violation('C20/wrong-metric:no-state', f'{where}: med of {[b["line"] for b in block]} matches no state metric {[(s, exp[s][0]["med"]) for s in STATES]}', 'block')
                return None
            for b in block:
                want = exp[kind][b['index']]
                for f, key in FIELDS:
                    if b[f] != want[f]:
                        self.violation(f'C20/{key}:{kind}', f'{where}: {kind} line for {want["prefix"]} carries {f}={b[f]!r}, options give {want[f]!r}: {b["line"]!r}', 'line-valid:' + kind, line=b['line'], want=want)
                        return None
                if b['other']:
                    self.res.count('unexpected-attribute-codes')
        if len(seen) != len(exp['prefixes']):
            missing = [p for p in exp['prefixes'] if p not in seen]
            self.violation(f'C20/missing-ip:{"exit" if exit_block else kind}', f'{where}: no line for configured IP(s) {missing} in {[b["line"] for b in block]}', 'block')
            return None
        self.res.ok('line-valid:' + ('exit' if exit_block else kind), n=len(block))
        return kind

    # -- run level

    def run(self) -> None:
        from vlib import hc_helpers as H

        o, res = self.o, self.res
        rounds = [(d == '1', c == 'S') for c, d in zip(self.results, self.disabled)]
        use_disable = '1' in self.disabled or (len(self.results) % 2 == 0)
        disable_path = os.path.join(self.scratch, 'disable') if use_disable else None
        config_path = os.path.join(self.scratch, 'healthcheck.conf')
        argv, config_text = render(o, disable_path, config_path)
        if config_text is not None:
            with open(config_path, 'w') as f:
                f.write(config_text)
        obs = H.run_healthcheck(argv, rounds, self.term, disable_path)
        self.wit = {
            'argv': argv,
            'config_file': config_text,
            'results': self.results,
            'disabled': self.disabled,
            'term': self.term,
            'options': o,
            'written': [b.split('\n')[:-1] for b in obs['blocks']],
            'written_on_exit': obs['exit'].split('\n')[:-1],
            'outcome': obs['outcome'],
        }
        res.count('runs')
        res.count('rounds', len(rounds))
        if obs['subprocess']:
            res.inconclusive.append(f'healthcheck reached subprocess.{obs["subprocess"][0]} with {argv}')
            return
        good_end = {'int': 'returned', 'term': 'exit:0'}[self.term]
        if obs['outcome'] != good_end or len(obs['blocks']) != len(rounds):
            key = 'C20/no-withdraw-on-exit:' + self.term if obs['outcome'] in ('no-sigterm-handler', 'keyboardinterrupt-escaped') else 'C20/helper-crash'
            self.violation(key, f'helper ended with {obs["outcome"]} after {len(obs["blocks"])}/{len(rounds)} rounds (expected {good_end}); log: {obs["errors"][:2]}', 'exit-withdraw:' + self.term)
            return

        blocks = []
        for k, text in enumerate(obs['blocks']):
            b = self.parse_lines(text, f'round {k}')
            if b is None:
                res.count('run-abandoned-after-refused-line')
                return
            blocks.append(b)
        exit_block = self.parse_lines(obs['exit'], 'exit')
        if exit_block is None:
            res.count('run-abandoned-after-refused-line')
            return

        rise, fall, wod = o['rise'], o['fall'], o['wod']
        down_kind = 'withdraw' if wod else 'down'
        dis_kind = 'withdraw' if wod else 'disabled'
        strict = Strict(rise, fall)
        real_state = 'INIT'
        trans = {}
        for k, name in obs['transitions']:
            trans.setdefault(k, []).append(name)
        ann = 'none'
        hist: list[bool] = []
        prog: list[bool] = []
        pending = None
        prev_dis = False
        for k, (dis, ok) in enumerate(rounds):
            where = f'round {k}'
            kind = self.classify(blocks[k], where)
            if kind is None:
                return
            edge = dis != prev_dis
            prev_dis = dis
            before, event, after = strict.step(dis, ok)
            cell = f'cell:{before}/{event}'
            # observed transition of the real automaton (debug log) against the strict model: logged only
            seen_tr = trans.get(k, [])
            new_real = seen_tr[-1] if seen_tr else real_state
            if new_real == after and len(seen_tr) <= 1:
                if new_real != real_state:
                    res.ok(f'state:{real_state}->{new_real}')
            else:
                res.count(f'strict-deviation:state {real_state}->{new_real} model {before}->{after}')
            real_state = new_real
            predicted = 'none'
            if after in ('UP', 'DOWN', 'DISABLED') and (not o['debounce'] or after != before):
                predicted = {'UP': 'up', 'DOWN': down_kind, 'DISABLED': dis_kind}[after]
            if predicted != kind:
                res.count(f'strict-deviation:wrote {kind} model {predicted}')

            if kind == 'withdraw' and not wod:
                self.violation('C20/withdraw-without-option', f'{where}: routes withdrawn before exit although --withdraw-on-down is not set', cell, round=k)
                return
            if kind in ('down', 'disabled') and wod:
                self.violation('C20/announce-despite-withdraw-on-down', f'{where}: {kind} announcement although --withdraw-on-down is set', cell, round=k)
                return
            if dis:
                if edge:
                    hist, prog = [], []
                pending = None
                if obs['check_calls'][k]:
                    res.count('check-run-while-disabled')
                if kind not in ('none', dis_kind):
                    self.violation('C20/disabled-wrong-announcement', f'{where}: disable file present but the helper wrote the {kind} announcement', cell, round=k)
                    return
                if kind != 'none':
                    ann = kind
                if ann != dis_kind:
                    self.violation('C20/disabled-not-announced', f'{where}: disable file present but what is announced is still {ann!r}', cell, round=k)
                    return
                res.ok(cell, (o['rise'], o['fall'], wod, o['debounce'], self.results[: k + 1], self.disabled[: k + 1]))
                continue
            if edge:
                hist, prog = [ok], []
            else:
                hist.append(ok)
                prog.append(ok)
            if obs['check_calls'][k] != 1:
                res.count('check-calls-not-one')
            up_ok = len(hist) >= rise and all(hist[-rise:])
            down_ok = len(hist) >= fall and not any(hist[-fall:])
            contrary = rise > 1 and fall > 1 and len(hist) >= 2 and hist[-1] != hist[-2]
            if kind != 'none' and kind != ann:
                verdict = None
                if kind == 'up' and not up_ok:
                    verdict = ('C20/up-before-rise', f'switched to the up announcement with results {self.results[: k + 1]} (window since last disable edge {hist}) and rise={rise}')
                elif kind == down_kind and not down_ok:
                    verdict = ('C20/down-before-fall', f'switched to {down_kind} with results {self.results[: k + 1]} (window since last disable edge {hist}) and fall={fall}')
                elif kind == 'disabled':
                    verdict = ('C20/disabled-without-file', 'switched to the disabled announcement without a disable file')
                if verdict and contrary and kind != 'disabled':
                    verdict = ('C20/flip-on-single-contrary', f'a single contrary result changed the announcement from {ann} to {kind}: results {self.results[: k + 1]}, rise={rise} fall={fall}')
                if verdict:
                    self.violation(verdict[0], f'{where}: {verdict[1]}', cell, round=k)
                    return
            if kind != 'none':
                ann = kind
            # bounded progress (one round of slack)
            if pending is not None:
                target, since = pending
                pending = None
                if ann != target and not (target == 'up' and fall == 1 and not ok) and not (target == down_kind and rise == 1 and ok):
                    name = 'no-up-after-rise' if target == 'up' else 'no-down-after-fall'
                    n = rise if target == 'up' else fall
                    self.violation(f'C20/{name}', f'{where}: {n} consecutive {"successes" if target == "up" else "failures"} ended in round {since} but what is announced is still {ann!r} one round later (results {self.results[: k + 1]})', cell, round=k)
                    return
            if len(prog) >= rise and all(prog[-rise:]) and ann != 'up':
                pending = ('up', k)
                res.count('progress-used-slack')
            elif len(prog) >= fall and not any(prog[-fall:]) and ann != down_kind:
                pending = (down_kind, k)
                res.count('progress-used-slack')
            res.ok(cell, (o['rise'], o['fall'], wod, o['debounce'], self.results[: k + 1], self.disabled[: k + 1]))
            if up_ok and ann == 'up' and kind == 'up':
                res.ok('announce:up-after-rise')
            if down_ok and ann == down_kind and kind == down_kind:
                res.ok('announce:down-after-fall')
            if contrary and kind == 'none':
                res.ok('hold:single-contrary')
        if pending is not None:
            res.count('progress-obligation-open-at-end')

        # exit
        cls = 'exit-withdraw:' + self.term
        ekind = self.classify(exit_block, 'exit', exit_block=True)
        if ekind is None:
            return
        if ekind != 'withdraw':
            if ann in STATES:
                self.violation(f'C20/no-withdraw-on-exit:{self.term}', f'helper ended ({self.term}) while announcing {ann!r} and wrote {[b["line"] for b in exit_block]} instead of withdrawing {self.exp["prefixes"]}', cls)
                return
            if ekind != 'none':
                self.violation('C20/announce-on-exit', f'helper ended ({self.term}) with an announcement {[b["line"] for b in exit_block]}', cls)
                return
            res.count('exit-without-withdraw-nothing-announced')
        else:
            res.ok(cls)
            res.ok('exit-withdraw:after-' + ann)
        if not o['no_ack'] and obs['acks'] != sum(len(b) for b in blocks) + len(exit_block):
            res.count('ack-reads-differ-from-lines')
        for c in option_classes(o):
            res.ok(c)
        res.ok('run', (o['rise'], o['fall'], wod, o['debounce'], self.results, self.disabled, self.term, tuple(sorted(option_classes(o)))))
        res.sample({'argv': ' '.join(argv), 'results': self.results, 'disabled': self.disabled, 'term': self.term, 'written': self.wit['written'], 'exit': self.wit['written_on_exit']}, limit=2)


# ----------------------------------------------------------------------------- plan / shards

QUICK_RUNS = 4000
THOROUGH_RANDOM = 48000
COMBOS = [(ri, fa, w, d) for ri in (1, 2, 3) for fa in (1, 2, 3) for w in (False, True) for d in (False, True)]
ALL_SEQS = [''.join(t) for n in range(1, 11) for t in itertools.product('SF', repeat=n)]


def plan(tier, seed):
    if tier == 'quick':
        return [{'shard': i, 'of': 16, 'random': QUICK_RUNS // 16, 'enumerate': False} for i in range(16)] + [{'shard': 900 + i, 'daemon': True, 'part': i, 'cases': 2} for i in range(4)]
    return [{'shard': i, 'of': 64, 'random': THOROUGH_RANDOM // 64, 'enumerate': True} for i in range(64)] + [{'shard': 900 + i, 'daemon': True, 'part': i, 'cases': 8} for i in range(8)]


def run_case(res: Result, daemon, o: dict, results: str, disabled: str, term: str) -> None:
    scratch = tempfile.mkdtemp(prefix='exaverif-')
    try:
        Case(res, daemon, o, results, disabled, term, scratch).run()
    finally:
        shutil.rmtree(scratch, ignore_errors=True)


SEQ = """import sys, os, fcntl
# the check command of the healthcheck: takes the next scripted result (S -> exit 0, F -> exit 1); the last one repeats
path = sys.argv[1]
with open(path, 'r+') as f:
    fcntl.flock(f, fcntl.LOCK_EX)
    data = f.read()
    cur = data[0] if data else 'S'
    if len(data) > 1:
        f.seek(0); f.write(data[1:]); f.truncate()
    with open(path + '.log', 'a') as g:
        g.write(cur)
sys.exit(0 if cur == 'S' else 1)
"""


def run_daemon(desc):
    """the REAL healthcheck program as the helper process of the REAL daemon, its check command answering from a script; what a
    scripted peer receives is held to the hysteresis: never `up` without `rise` successes in a row, never `down` (or a
    withdrawal) without `fall` failures in a row, and the state the last run of results leads to is the one the peer ends in"""
    import struct as _struct
    import time

    from vlib import daemon, exa
    from vlib import refwire as rw

    res = Result()
    r = random.Random(desc['seed'] * 67867967 + desc['part'])
    for ci in range(desc['cases']):
        rise, fall = r.choice([1, 2, 3]), r.choice([1, 2, 3])
        wod = r.random() < 0.5
        body = ''.join(r.choice('SF') for _ in range(r.randrange(2, 7)))
        tail = r.choice('SF') * (max(rise, fall) + 2)
        results = body + tail
        up, down = 50, 900
        cmd = f'@PY@ -m exabgp healthcheck --cmd "@PY@ @DIR@/seq.py @DIR@/results" --ip 10.55.0.1/32 --interval 0.3 --fast-interval 0.3 --rise {rise} --fall {fall} --no-syslog --up-metric {up} --down-metric {down}' + (' --withdraw-on-down' if wod else '')
        text = 'process hc {\n    run ' + cmd + ';\n    encoder text;\n}\n' + exa.neighbor_text(extra='    adj-rib-out true;\n    api { processes [ hc ]; }')
        d = daemon.Daemon(text, files={'seq.py': SEQ, 'results': results}, env={'exabgp_api_version': '4'} if ci % 2 else None)
        wit = {'rise': rise, 'fall': fall, 'withdraw_on_down': wod, 'results': results, 'command': cmd, 'level': 'daemon', 'api_version': 4 if ci % 2 else 6}
        cls = f'daemon:rise{rise}:fall{fall}:' + ('wod' if wod else 'metric')
        peer = None
        try:
            d.start()
            peer = d.accept()
            peer.establish(65001)
            rx = []
            end = time.monotonic() + 60
            while time.monotonic() < end:
                rx += peer.drain(quiet=0.3, limit=2)
                try:
                    consumed = open(d.path('results.log')).read()
                except OSError:
                    consumed = ''
                if len(consumed) >= len(results) + 2:
                    break
            else:
                raise daemon.Inconclusive(f'the healthcheck consulted its command {len(consumed)} times in 60 s, {len(results) + 2} were expected: ' + d.tail(300))
            rx += peer.drain(quiet=1.0, limit=5)
            consumed = open(d.path('results.log')).read()
        except daemon.Inconclusive as e:
            daemon.skipped(res, str(e))
            continue
        finally:
            try:
                if peer is not None:
                    peer.close()
            except Exception:  # noqa
                pass
            d.stop()
        # the history the peer saw for the prefix: 'up' / 'down' / 'withdrawn'
        hist = []
        try:
            for t, b in rx:
                if t != 2:
                    continue
                dec = rw.dec_update(bytes(b), rw.sess(asn4=True, addpath=()))
                if dec['eor']:
                    continue
                for n in dec['withdraw']:
                    if n['prefix'] == '10.55.0.1/32':
                        hist.append('withdrawn')
                for n, hops in dec['announce']:
                    if n['prefix'] == '10.55.0.1/32':
                        med = dict(dec['attrs']).get(rw.MED) if isinstance(dec.get('attrs'), (list, tuple)) else None
                        if med is None:
                            for flags, code, value in rw.dec_attr_tlvs(rw.split_update(bytes(b))[1]):
                                if code == 4:
                                    med = _struct.unpack('!L', value)[0]
                        hist.append('up' if med == up else 'down' if med == down else f'med-{med}')
        except rw.RefError as e:
            res.violation('C20/daemon:undecodable-update', str(e), wit, cls)
            continue
        wit['peer_history'] = hist
        wit['consulted'] = consumed
        s_run = max((len(x) for x in consumed.split('F')), default=0)
        f_run = max((len(x) for x in consumed.split('S')), default=0)
        bad = False
        if 'up' in hist and s_run < rise:
            res.violation('C20/daemon:up-before-rise', f'the peer was sent the up announcement although no {rise} successes in a row were seen ({consumed})', wit, cls)
            bad = True
        if ('down' in hist or 'withdrawn' in hist) and f_run < fall:
            res.violation('C20/daemon:down-before-fall', f'the peer was sent the down announcement / a withdrawal although no {fall} failures in a row were seen ({consumed})', wit, cls)
            bad = True
        if any(h.startswith('med-') for h in hist):
            res.violation('C20/daemon:wrong-metric', f'announcement with a metric which is neither the up nor the down one: {hist}', wit, cls)
            bad = True
        if (wod and 'down' in hist) or (not wod and 'withdrawn' in hist):
            res.violation('C20/daemon:wrong-down-action', f'withdraw-on-down={wod} but the peer history is {hist}', wit, cls)
            bad = True
        final = hist[-1] if hist else None
        want = 'up' if tail[0] == 'S' else ('withdrawn' if wod else 'down')
        if want == 'withdrawn' and final is None:
            final = 'withdrawn'  # never announced at all: the peer holds nothing, which is what a withdrawal leaves
        if final != want:
            res.violation(f'C20/daemon:final-state:{want}', f'after {len(tail)} equal results in a row (rise {rise}, fall {fall}) the peer ends on {final!r}, expected {want!r}; history {hist}', wit, cls)
            bad = True
        if not bad:
            res.ok(cls, (rise, fall, wod, tuple(hist)))
            res.ok('daemon:healthcheck')
    return res


def run_shard(desc):
    if desc.get('daemon'):
        return run_daemon(desc)
    import exabgp
    from vlib import hc_helpers as H

    res = Result()
    res.extra['exabgp_file'] = [exabgp.__file__]
    daemon = H.Daemon(PEERS)
    if desc.get('cases'):
        for c in desc['cases']:
            run_case(res, daemon, c['options'], c['results'], c['disabled'], c['term'])
        return res
    r = random.Random(desc['seed'] * 1000003 + desc['shard'] * 7919 + (0 if desc['tier'] == 'quick' else 1))
    # a few fixed scripts so that every cell of the transition matrix is reached whatever the seed
    if desc['shard'] == 0:
        for ri, fa, w, d in COMBOS:
            for results, disabled in (('SSSSFFFFSFSF', '000000000000'), ('FFFFSSSSFSFS', '000000000000'), ('SSFSFFSSSFFF', '001000010010'), ('FSSSSFFFFSSS', '100011000100')):
                run_case(res, daemon, gen_options(r, ri, fa, w, d, plain=True), results, disabled, r.choice(['int', 'term']))
    for _ in range(desc['random']):
        results, disabled = gen_script(r)
        run_case(res, daemon, gen_options(r), results, disabled, r.choice(['int', 'term']))
    if desc['enumerate']:
        n = 0
        for ci, combo in enumerate(COMBOS):
            for si, results in enumerate(ALL_SEQS):
                if (ci * len(ALL_SEQS) + si) % desc['of'] != desc['shard']:
                    continue
                o = gen_options(r, *combo, plain=True)
                run_case(res, daemon, o, results, '0' * len(results), 'int' if (si + ci) % 2 else 'term')
                n += 1
        res.extra['enumerated_runs'] = n
        res.extra['exhaustive_space'] = 'all 2046 boolean result sequences of length 1..10 x (rise,fall) in {1,2,3}^2 x withdraw-on-down x debounce, no disable file'
    res.extra['daemon_distinct_lines'] = len(daemon.cache) // 2
    return res


def finish(merged, tier, seed):
    merged['extra']['runs'] = merged['info'].get('runs', 0)
    if tier == 'thorough':
        want = len(COMBOS) * len(ALL_SEQS)
        got = merged['extra'].get('enumerated_runs', 0)
        merged['extra']['exhaustive'] = got == want
        if got != want:
            merged['inconclusive'].append(f'enumeration incomplete: {got}/{want} runs')


REQUIRED_CLASSES = {
    'quick': CELLS
    + TRANSITIONS
    + ['exit-withdraw:int', 'exit-withdraw:term', 'line-valid:up', 'line-valid:down', 'line-valid:disabled', 'line-valid:withdraw', 'line-valid:exit']
    + ['announce:up-after-rise', 'announce:down-after-fall', 'hold:single-contrary', 'daemon:healthcheck']
    + ['opt:withdraw-on-down', 'opt:announce-on-down', 'opt:debounce', 'opt:no-debounce', 'opt:ipv4', 'opt:ipv6', 'opt:ipv4+ipv6']
    + ['opt:start-ip', 'opt:next-hop', 'opt:increase', 'opt:community', 'opt:disabled-community', 'opt:extended-community', 'opt:large-community']
    + ['opt:as-path', 'opt:state-as-path', 'opt:state-metric', 'opt:local-preference', 'opt:path-id', 'opt:deagg', 'opt:via-config', 'opt:no-ack']
    + ['opt:neighbor-default', 'opt:neighbor-star', 'opt:neighbor-one']
    + [f'opt:rise{a}-fall{b}' for a in (1, 2, 3) for b in (1, 2, 3)],
}
REQUIRED_CLASSES['thorough'] = REQUIRED_CLASSES['quick']


if __name__ == '__main__':
    import json
    import sys

    with open(sys.argv[1]) as fh:
        w = json.load(fh)['witness']
    out = run_shard({'cases': [w], 'seed': 0, 'shard': 0, 'tier': 'quick'}).to_dict()
    print(json.dumps({'violations': out['violations'], 'classes': out['classes'], 'info': out['info']}, indent=1, default=repr))
